"""C31 — the environment handed to the build daemon arrives exactly.

Three tiers of correspondence, all on the real code:
  1. pure:   real `EbuildProcessor._generate_env_str` / `send_env` / `_run_depend_like_phase` framing (processor
             object without a daemon, its pipe replaced by a file) vs the Lean model, byte for byte;
  2. bash:   the bytes the real code produced are fed to the real `bash` exactly as the daemon does
             (`read` the header line, `read -r -N <count>`, `eval` under IFS=NUL / `source`), the resulting
             variables are dumped NUL-separated and compared with the mapping (property, edge C) and with the
             Lean bash evaluator (contract, edge A); the evaluator is additionally differential-tested on random
             scripts of its whole fragment (forms the Python side never emits included);
  3. daemon: environments are sent to a real ebuild daemon through `run_phase` (inline and file) and
             `_run_depend_like_phase("gen_ebuild_env")` with a one-ebuild repository; the ebuild dumps its
             variables; the pipe traffic is recorded and compared with the model's framing; after every transfer
             the daemon must answer `alive` and accept a second transfer.  Besides the VT_* names every transfer after the
             first carries ordinary names (words, letters, and every identifier the daemon's bash sources declare `local`)
             that are not in the daemon's own blacklist PKGCORE_BLACKLIST_VARS (dumped by the daemon itself).
File-mode hand-overs are also run as histories through one tmpdir: a mapping, a different mapping of the same serialised
length, and the same again.
Mappings are long-lived objects: the specification of a case is the mapping as built (kept aside, never shown to the real
code); a copy of it — ONE object per case — goes through the real code for every hand-over of the case's history (2-5
hand-overs over mixed routes in the pure/bash tier, the first mapping of a plan once more on the real daemon), each
hand-over judged against the mapping as built.  Failing histories are reduced (entries, marked names, hand-overs, values).
"""
import io
import os
import shutil
import subprocess
import tempfile
import threading
import time

PID = "C31"
LEAN_MODULES = ["Pkgcore.Props.C31"]
OBLIGATIONS = [
    "Pkgcore.C31.quote_roundtrip",
    "Pkgcore.C31.quote_elem_roundtrip",
    "Pkgcore.C31.env_text_evaluates",
    "Pkgcore.C31.env_arrives_exactly",
    "Pkgcore.C31.framing_length_correct",
    "Pkgcore.C31.framing_depend_correct",
    "Pkgcore.C31.file_transfer_correct",
    "Pkgcore.C31.transfer_inline_exact",
    "Pkgcore.C31.transfer_file_exact",
    "Pkgcore.C31.transfer_depend_exact",
    "Pkgcore.C31.env_arrives_from_inside_a_function",
    "Pkgcore.C31.receiving_frame_counterexample",
    "Pkgcore.C31.handover_leaves_callers_mapping",
    "Pkgcore.C31.every_handover_of_a_build_arrives",
    "Pkgcore.C31.handover_nocopy_counterexample",
    "Pkgcore.C31.legacy_quote_counterexample",
    "Pkgcore.C31.legacy_elem_counterexample",
    "Pkgcore.C31.legacy_framing_counterexample",
]
TRUSTED = [
    "bash is modelled by a hand-written evaluator for assignment scripts (bare/'…'/\"…\"/$'…' words, array literals, "
    "`export`), over bytes (the daemon runs in the C locale); it is a recorded contract, differential-tested against the "
    "real bash on every run (random scripts of the whole fragment + every text the real code produced), not proved",
    "the UTF-8 encoder `enc` of the model is compared with CPython's str.encode on the sampled texts",
    "tables of str.isalnum / str.isalpha / str.isspace are regenerated from the running CPython on every run",
    "the daemon's `read`/`read -r -N`/`case` dispatch is modelled at message level (recvEnv/recvDepend: `readSize n` hands over "
    "exactly n units however large n is); tied to the code by receiving every produced transfer with the daemon's own "
    "__ebd_read_line/__ebd_read_size (sourced from ebuild-daemon-lib.bash; transfers beyond the pipe capacity are fed through a "
    "real pipe by another process) and by the recorded real-daemon round trips, which include inline transfers of 68-110 KiB",
]
ASSUMPTIONS = [
    "keys are valid shell names, pairwise distinct, not names the daemon itself manages — i.e. not matching an entry of the "
    "daemon's own registry PKGCORE_BLACKLIST_VARS (bash's variables, IFS, PATH, PKGCORE_.*, ___.*, ret, com, line, cont, phases, "
    "is_depends, the PMS/portage names; read from the running daemon on every run), not starting with `__`/`pkgcore_` (the "
    "daemon's function-local convention), not readonly (skipped by design) — and not already exported in the daemon; every "
    "other name, in particular ordinary lower-case words and the names the daemon's functions use as locals, is inside the "
    "domain; values are str or sequences of str without NUL and without lone surrogates",
    "the processor's pipe encodes text as UTF-8 (Python UTF-8 mode / UTF-8 locale); the daemon runs in the C locale, so `read -N` "
    "counts bytes — checked, not assumed, for the caller's environment: every run starts its daemons from a caller environment "
    "with a UTF-8 locale selected through LANG / LC_ALL / LC_CTYPE (+ NO_COLOR, LC_MESSAGES; from `locale -a`, rotating with the "
    "seed, all of them in turn in the thorough tier, POSIX included) and reads each daemon's character locale from /proc",
    "file mode: the tmpdir path contains no newline/backslash and no leading/trailing blank (the header line is read with "
    "plain `read`)",
    "bash 5.2 doubles its internal marker bytes 0x01/0x7f inside \"…\" in array literals and right after a backslash in "
    "\"…\"/$'…' (observed); the model treats these contexts as unsupported and the fixed code never emits them there",
]
RULE = ("environment mappings with 1-12 entries: names VT_*/_*/lower-case, ordinary words (data, size, name, value, i, x, …) and, on "
        "the real daemon, every identifier the daemon's own bash sources declare `local` (minus the daemon's blacklist); "
        "scalar or list values built from segments mixing "
        "alphanumerics, blanks, ' \" \\ $ ` newline tab CR, backslash sequences (\\n, \\', \\\\, \\x41, \\0), $VAR/${x}/$(cmd), "
        "glob and history characters, control bytes 0x01/0x7f/0x1b, 2-, 3- and 4-byte UTF-8 characters, empty and long "
        "values, and mappings of 68-110 KiB (long file-list array / one long value / hundreds of entries: more than a pipe holds); "
        "random non-exported marker and readonly names; each mapping is one object handed over 1-5 times (inline / file / "
        "depend-like routes mixed: the phases of a build), every hand-over judged against the mapping as built; non-trivial = at least one value that needs quoting "
        "(not purely alphanumeric); distinct by generated text")
LEVEL_TEXT = ("Kernel-checked Lean 4 theorems over all mappings/texts: every NUL-free text quoted by _quote_value is read back by the "
              "bash evaluator as exactly its UTF-8 bytes (quote_roundtrip, also for array elements); the text of "
              "_generate_env_str evaluates to exactly the intended assignments and leaves exactly the wanted variables, exported "
              "unless marked (env_text_evaluates, env_arrives_exactly); the byte count announced by send_env / "
              "_run_depend_like_phase is exactly what read -N consumes, for every text and every continuation of the pipe, so the "
              "channel stays synchronised (framing_*_correct, transfer_*_exact, inline, file and depend-like); in a heap model of the "
              "mapping object (dict(...) allocates, .pop mutates) a hand-over leaves the caller's mapping untouched and the k-th "
              "hand-over of one object arrives exactly whatever was handed over before (handover_leaves_callers_mapping, "
              "every_handover_of_a_build_arrives; handover_nocopy_counterexample: without the copy the 2nd one exports). The pre-fix "
              "behaviours are kept as counterexample theorems. Tied to the code by byte-exact comparison of the real "
              "_generate_env_str/send_env output with the model, by evaluating that output in the real bash, and by round "
              "trips through a real ebuild daemon.")
LEVEL_NOTE = ("Trusted: Lean kernel, standard axioms only; the bash evaluator and the daemon's receive steps are models "
              "(validated by differential runs against bash 5.2 and recorded daemon sessions, not proved); EAPI 9 is disabled by "
              "the system bash so the non-exported marker is exercised directly, not through ebd.py.")

MARKER = "PKGCORE_NONEXPORTED_VARS"


# ---------------------------------------------------------------- tables

def _ranges(pred, lo, hi):
    out, start = [], None
    for i in range(lo, hi):
        ok = not (0xD800 <= i <= 0xDFFF) and pred(chr(i))
        if ok and start is None:
            start = i
        if not ok and start is not None:
            out.append((start, i - 1))
            start = None
    if start is not None:
        out.append((start, hi - 1))
    return out


def gen_tables(repo):
    def fmt(rs):
        return "[" + ", ".join(f"({a}, {b})" for a, b in rs) + "]"
    space = [i for i in range(0x110000) if not (0xD800 <= i <= 0xDFFF) and chr(i).isspace()]
    text = ("-- GENERATED by harness/props/c31.py (gen_tables) from the running CPython's str methods; do not edit\n"
            "namespace Pkgcore.Generated.C31\n"
            "/-- code point ranges with `chr(n).isalnum()` (used by `val.isalnum()` in `_generate_env_str`) -/\n"
            f"def alnumAscii : List (Nat × Nat) := {fmt(_ranges(str.isalnum, 0, 128))}\n"
            f"def alnumHigh : List (Nat × Nat) := {fmt(_ranges(str.isalnum, 128, 0x110000))}\n"
            "/-- code point ranges with `chr(n).isalpha()` (used by `key[0].isalpha()`) -/\n"
            f"def alphaAscii : List (Nat × Nat) := {fmt(_ranges(str.isalpha, 0, 128))}\n"
            f"def alphaHigh : List (Nat × Nat) := {fmt(_ranges(str.isalpha, 128, 0x110000))}\n"
            "/-- code points with `chr(n).isspace()` (separators of `str.split()`) -/\n"
            f"def pySpace : List Nat := [{', '.join(map(str, space))}]\n"
            "end Pkgcore.Generated.C31\n")
    return {"Pkgcore/Generated/C31Tables.lean": text}


# ---------------------------------------------------------------- real bash as an oracle

# One bash process, builtins only (PATH points nowhere), no forks.  Each job is a file holding what the daemon
# would find in its command pipe; mode `chan` replays the daemon's receive step on it (`read` header, take the
# count after the last blank, `read -r -N count`, `eval` under IFS=NUL, then `read -r` whatever is left on that
# line of the pipe); mode `source` sources the file.  Variables are dumped NUL-separated and unset again.
RUNNER = r'''
__dir=$1; __njobs=$2; __lib=$3
if [[ -n ${__lib} ]]; then
	# the daemon's own __ebd_read_line / __ebd_read_size (ebuild-daemon-lib.bash); its die must not end the batch
	die() { __died=1; }
	source "${__lib}"
	die() { __died=1; }
fi
exec 3> "${__dir}/out"
for (( __i = 0; __i < __njobs; __i++ )); do
	mapfile -t __names < "${__dir}/${__i}.names"
	__mode=${__names[0]}
	__names=( "${__names[@]:1}" )
	__tail=; __died=
	if [[ ${__mode} == source ]]; then
		source "${__dir}/${__i}.sh" 2>/dev/null
		__st=$?
	else
		if [[ -e ${__dir}/${__i}.pipe ]]; then
			exec 4< <(cat "${__dir}/${__i}.sh")      # through a real pipe, written by another process
		else
			exec 4< "${__dir}/${__i}.sh"
		fi
		__hdr=; __data=
		if [[ ${__mode} == chan && -n ${__lib} ]]; then
			PKGCORE_EBD_READ_FD=4
			__ebd_read_line __hdr
			__cnt=${__hdr##* }
			__ebd_read_size "${__cnt}" __data
		else
			if [[ ${__mode} == chan ]]; then
				read -u 4 __hdr
				__cnt=${__hdr##* }
			else
				__cnt=${__mode}
			fi
			read -u 4 -r -N "${__cnt}" __data
		fi
		IFS= read -u 4 -r -d '' __tail
		exec 4<&-
		__IFS=${IFS}; IFS=$'\0'
		eval "${__data}" 2>/dev/null
		__st=$?
		IFS=${__IFS}
		[[ -n ${__died} ]] && __st=99
	fi
	printf 'S\0%s\0%s\0%s\0' "${__i}" "${__st}" "${__tail}" >&3
	for __n in "${__names[@]}"; do
		declare -p "${__n}" &>/dev/null || continue
		declare -n __r=${__n}
		printf 'V\0%s\0' "${#__r[@]}" >&3
		declare -p "${__n}" >&3
		printf '\0' >&3
		[[ ${#__r[@]} -gt 0 ]] && printf '%s\0' "${__r[@]}" >&3
		unset -n __r
		unset -v "${__n}"
	done
done
printf 'E\0' >&3
'''


def run_bash(jobs, lib=None, piped=()):
    """jobs: list of (bytes, [names], mode) with mode in {"source", "chan", <int count>}
    -> list of (status, tail bytes, {name: (flags, [bytes])}).
    lib: path of ebuild-daemon-lib.bash: `chan` jobs are then received with the daemon's own __ebd_read_line /
    __ebd_read_size (only texts produced by the real code are run this way; PATH is the real one because those
    functions may use external tools).  piped: indices of jobs delivered through a real pipe instead of a file."""
    if not jobs:
        return []
    d = tempfile.mkdtemp(prefix="c31-bash-")
    try:
        for i, (text, names, mode) in enumerate(jobs):
            with open(os.path.join(d, f"{i}.sh"), "wb") as f:
                f.write(text)
            with open(os.path.join(d, f"{i}.names"), "w") as f:
                f.write(str(mode) + "\n" + "".join(n + "\n" for n in names))
            if i in piped:
                open(os.path.join(d, f"{i}.pipe"), "w").close()
        with open(os.path.join(d, "runner.sh"), "w") as f:
            f.write(RUNNER)
        subprocess.run([shutil.which("bash"), "--norc", "--noprofile", os.path.join(d, "runner.sh"), d, str(len(jobs)), lib or ""],
                       check=True, env={"PATH": os.environ.get("PATH", "/usr/bin:/bin") if lib else "/nonexistent"}, cwd=d,
                       stdin=subprocess.DEVNULL, stdout=subprocess.DEVNULL, stderr=subprocess.DEVNULL, timeout=900)
        data = open(os.path.join(d, "out"), "rb").read().split(b"\0")
        out, j = [], 0
        while data[j] != b"E":
            if data[j] == b"S":
                if int(data[j + 1]) != len(out):
                    raise RuntimeError("bash oracle output out of sync")
                out.append((int(data[j + 2]), data[j + 3], {}))
                j += 4
            elif data[j] == b"V":
                cnt = int(data[j + 1])
                decl = data[j + 2].decode("latin-1")        # declare -FLAGS NAME[=...]
                _, flags, rest = decl.split(" ", 2)
                name = rest.split("=", 1)[0].rstrip("\n")
                out[-1][2][name] = (flags.lstrip("-"), data[j + 3:j + 3 + cnt])
                j += 3 + cnt
            else:
                raise RuntimeError("bash oracle output out of sync at field %d: %r" % (j, data[j][:40]))
        if len(out) != len(jobs):
            raise RuntimeError("bash oracle answered %d of %d jobs" % (len(out), len(jobs)))
        return out
    finally:
        shutil.rmtree(d, ignore_errors=True)


def store_of(vars_):
    """oracle dump -> {name: (is_array, [latin-1 strings], exported)}"""
    return {k: ("a" in f, [x.decode("latin-1") for x in v], "x" in f) for k, (f, v) in vars_.items()}


def store_of_assigns(asg):
    """model assignment list -> same shape (a plain assignment keeps an earlier export attribute)"""
    st = {}
    for key, val, exp in asg:
        old = st.get(key)
        vals = [val["s"]] if "s" in val else val["a"]
        st[key] = ("a" in val, vals, exp or (old[2] if old else False))
    return st


def wanted_store(env, ro):
    """the property, from the mapping alone: name -> (is_array, [bytes as latin-1], exported)"""
    nonexp = set(env.get(MARKER, "").split()) if isinstance(env.get(MARKER, ""), str) else set()
    out = {}
    for k, v in env.items():
        if k == MARKER or k in ro:
            continue
        if isinstance(v, str):
            out[k] = (False, [v.encode("utf-8").decode("latin-1")], k not in nonexp)
        else:
            out[k] = (True, [x.encode("utf-8").decode("latin-1") for x in v], k not in nonexp)
    return out


# ---------------------------------------------------------------- generators

ALNUM = ["a", "Z", "0", "9", "abc", "X1", "é", "ß", "日本", "٣", "Ω"]
SEGS = ["'", "'", '"', "\\", "\\", "$", "`", " ", "  ", "\n", "\t", "\r", "\\n", "\\t", "\\'", "\\\\", "\\x41", "\\0", "\\101",
        "\\u00e9", "\\c", "$HOME", "${x}", "$(id)", "`id`", "$'", "'\\''", "!", "!!", "#", "~", "*", "?", "[a-z]", "{a,b}",
        "(", ")", ";", "&", "|", "<", ">", "=", "%", "@", ":", "-", "+", ",", ".", "/", "\x01", "\x7f", "\x1b[0m", "\x08",
        "é", "ü", "ß", "€", "日本語", "😀", "\u00a0", "\u2028", "\u0301", "\x80", "\xff", "\u0100", "\uffff", "\U0010ffff"]


def gen_value(rng):
    k = rng.random()
    if k < 0.08:
        return ""
    if k < 0.2:
        return "".join(rng.choice(ALNUM) for _ in range(rng.randint(1, 4)))
    n = rng.choice([1, 2, 3, 4, 6, 9, 14]) if k < 0.97 else rng.randint(200, 1500)
    return "".join(rng.choice(SEGS) if rng.random() < 0.6 else rng.choice(ALNUM) for _ in range(n))


def gen_big(rng, prefix="VT_", kinds=(0, 1, 2)):
    """mappings whose text is larger than a pipe buffer (64 KiB): 68-110 KiB as a long file-list array, one long value, or
    many entries"""
    k = rng.choice(kinds)
    target = rng.randint(68, 110) * 1024
    if k == 0:
        special = ["it's", 'a"b', "$x `y`", "é", "", "sp ace", "back\\slash"]
        files, size, i = [], 0, 0
        while size < target:
            f = "/usr/share/doc/pkg-%d.%d/file-%d.txt" % (i % 7, i % 3, i) if i % 97 else rng.choice(special)
            files.append(f)
            size += len(f.encode("utf-8")) + 10
            i += 1
        return {prefix + "files": files, prefix + "after": "still here"}
    if k == 1:
        parts, size = [], 0
        while size < target:
            x = rng.choice(SEGS + ALNUM) * rng.randint(1, 40)
            parts.append(x)
            size += len(x.encode("utf-8"))
        return {prefix + "blob": "".join(parts), prefix + "after": ["x", "y z"]}
    env, size, i = {}, 0, 0
    while size < target:
        v = gen_value(rng) * rng.randint(1, 12) + "0123456789" * 20
        env[prefix + "e%d" % i] = v
        size += len(v.encode("utf-8")) + 12
        i += 1
    return env


# ordinary names: the words and letters shell code uses for its own variables
ORDINARY = ["data", "size", "i", "j", "k", "n", "x", "y", "e", "f", "v", "s", "a", "b", "c", "d", "p", "t", "var", "val", "name", "value",
            "tmp", "arg", "args", "cmd", "result", "out", "buf", "count", "len", "path", "file", "files", "dir", "key", "str", "msg",
            "status", "mode", "opt", "opts", "env", "src", "dest", "list", "item", "input", "output", "flag", "flags", "text", "word",
            "error_output"]      # the last one: a main-loop local of the pre-fix daemon (finding C31-main-loop-local-catches-variable)


def gen_env(rng, idx, daemon=False, ro=()):
    env = {}
    n = rng.choice([1, 2, 3, 5, 8, 12])
    for j in range(n):
        if daemon:
            name = "VT_" + rng.choice(["a", "B", "x9", "_"]) + str(j)
        elif rng.random() < 0.2:
            name = rng.choice(ORDINARY)
            if name in env:
                continue
        else:
            name = rng.choice(["VT_", "_", "v", "Q_", "export", "declare"]) + rng.choice(["a", "B1", "_", ""]) + str(j)
        if rng.random() < 0.25:
            env[name] = [gen_value(rng) for _ in range(rng.choice([0, 1, 2, 3, 5]))]
        else:
            env[name] = gen_value(rng)
    if ro and rng.random() < 0.3:
        env[rng.choice(sorted(ro))] = gen_value(rng)
    if rng.random() < 0.5:
        names = [k for k in env if rng.random() < 0.4] + (["NOT_THERE"] if rng.random() < 0.3 else [])
        rng.shuffle(names)
        sep = rng.choice([" ", " ", "  ", "\t", "\n", " \u00a0 "])
        env[MARKER] = sep.join(names) + rng.choice(["", " ", "\n"])
    return env


def same_length_sibling(env):
    """a *different* mapping whose serialised text has the same byte length: one value reversed (same characters, hence the
    same quoting form and the same number of escapes) — what consecutive hand-overs of a build look like (a flag 4 -> 8, a
    version 1.2.3 -> 1.2.4)"""
    for k, v in env.items():
        if k == MARKER:
            continue
        if isinstance(v, str) and v[::-1] != v:
            return dict(env, **{k: v[::-1]})
        if not isinstance(v, str) and list(reversed(v)) != list(v):
            return dict(env, **{k: list(reversed(v))})
    return None


CORPUS = [
    # the three defects fixed in /repo
    {"VT_b": "it's a \\n backslash-n"},                               # $'…' did not escape backslashes
    {"VT_q": "'\\", "VT_r": "\\'", "VT_s": "'\\\\'\\", "VT_t": "a'b\\tc\\x41\\101\\e"},
    {"VT_arr": ["a b", 'c"d', "$HOME `echo hi` \\\\ x\\", "it's\n\tnl", "", "x"]},   # array elements were not escaped
    {"VT_arr": ["\x01", "\x7f\x01\"", "\r\n", "$(id)", "${PATH}", "`id`", "!", "é"], "VT_e": []},
    {"VT_u": "café", "VT_v": "日本語 ünï 'q' \\ 😀", "VT_w": "é", "VT_arr": ["ß", "€$x", "日本"]},   # char count vs byte count
    {"VT_u": "é" * 40, MARKER: "VT_u"},
    # boundaries
    {"VT_empty": "", "VT_sp": " ", "VT_nl": "\n", "VT_tab": "\t", "VT_bs": "\\", "VT_q": "'", "VT_dq": '"', "VT_d": "$", "VT_bt": "`"},
    {"VT_ctl": "\x01\x7f\x02 a\x1b[0m", "VT_ctl2": "'\x01\x7f\\\x01", "VT_cr": "a\rb\r\n", "VT_bsnl": "\\\n"},
    {"VT_a": "abc", "VT_b": "plain q", "VT_c": "", MARKER: "VT_a"},
    {"VT_a": "abc", MARKER: "VT_a"},                                   # nothing exported: no export line
    {"VT_a": "1", "VT_b": "2", "VT_c": ["x"], MARKER: "VT_c\tVT_b\nNOPE"},
    {"UID": "5"},                                                       # readonly only: empty transfer (`bytes 0`)
    {"UID": "5", "VT_x": "ok"},
    {"VT_alnum": "é", "VT_alnum2": "日本", "VT_alnum3": "٣Ω", "VT_arr": ["é", "日本", "a1"]},   # isalnum is Unicode aware
    {"VT_glob": "* ? [a-z] ~ {a,b} # ! ; & | < > ( )", "VT_eq": "a=b", "VT_tilde": "~root"},
    {"VT_uni": "\u00a0\u2028\u0301\x80\xff\u0100\uffff\U0010ffff"},
    {"VT_long": "x'\\" * 700 + "é" * 300},
]
ORACLE_ONLY_CORPUS = [
    {"export": "5", "declare0": "x y", MARKER: "export"},              # a variable named `export` on the plain line
    {"export": ["a", "b c"], "v": "1"},
]
KEYERR_CORPUS = [{"1abc": "x"}, {"-x": "y", "VT_a": "1"}, {"": "empty"}]

PLAIN = "abcXYZ019_/.-+,:@%="
ODD = ["\\", "'", '"', "$", "`", " ", "\t", "\n", "!", "#", "~", "*", "?", "[", "]", "{", "}", "(", ")", ";", "&", "|", "<", ">",
       "\x01", "\x7f", "\x1b", "\r"]
HIGH = [bytes([b]).decode("latin-1") for b in (0x80, 0xa0, 0xc3, 0xa9, 0xe2, 0x82, 0xac, 0xff, 0xf0, 0x9f)]


def _txt(rng, n, pool):
    return "".join(rng.choice(pool) for _ in range(n))


def gen_part(rng):
    k = rng.random()
    if k < 0.2:
        return _txt(rng, rng.randint(1, 5), list(PLAIN) + HIGH)
    if k < 0.4:
        return "'" + _txt(rng, rng.randint(0, 8), list(PLAIN) + [o for o in ODD if o != "'"] + HIGH) + "'"
    if k < 0.6:
        s = ""
        for _ in range(rng.randint(0, 8)):
            r = rng.random()
            if r < 0.5:
                s += rng.choice(list(PLAIN) + HIGH + [" ", "\n", "\t", "'", "!", "#", "*", "~", "\x01", "\x7f", "{", ")", "(", ";"])
            elif r < 0.85:
                s += "\\" + rng.choice(['"', "\\", "$", "`", "\n", "a", "n", "'", " ", "x", "\x01"])
            else:
                s += rng.choice(["$", "`", "$x", "${y}"]) if rng.random() < 0.15 else "z"
        return '"' + s + '"'
    if k < 0.95:
        s = ""
        for _ in range(rng.randint(0, 8)):
            r = rng.random()
            if r < 0.4:
                s += rng.choice(list(PLAIN) + HIGH + [" ", "\n", "\t", '"', "$", "`", "!", "*", "\x01", "\x7f", ")", ";"])
            elif r < 0.6:
                s += "\\" + rng.choice(list("\\'\"?abeEfnrtv"))
            elif r < 0.72:
                s += "\\" + _txt(rng, rng.randint(1, 4), "01234567") + rng.choice(["", "8", "a"])
            elif r < 0.84:
                s += "\\x" + _txt(rng, rng.randint(0, 3), "0123456789abcdefABCDEFg")
            elif r < 0.9:
                s += "\\" + rng.choice(list("zgsdSq89 ") + ["\n", "\x01", "\x7f", "\xe9"])
            elif r < 0.93:
                s += "\\" + rng.choice(["cA", "u00e9", "U0001F600", "x{41}"])
            else:
                s += rng.choice(["\\\\", "\\'"]) * rng.randint(1, 3)
        return "$'" + s + "'"
    return rng.choice(["$x", "*", "~", "a\\ ", "`id`", "$(id)", "{a,b}", "#c", "!", "\\n"])


def gen_word(rng):
    return "".join(gen_part(rng) for _ in range(rng.choice([0, 1, 1, 1, 2, 3])))


def gen_script(rng):
    """a random script of (mostly) the evaluator's fragment, as a latin-1 string of bytes, and its variable names"""
    lines, names = [], []
    for _ in range(rng.choice([1, 1, 2, 3])):
        asg = []
        for _ in range(rng.choice([1, 1, 2, 3])):
            name = rng.choice(["VT_", "_v", "V", "export"]) + rng.choice(["a", "B1", "_", "x9"]) + str(len(names))
            names.append(name)
            if rng.random() < 0.25:
                idx = list(range(rng.randint(0, 3)))
                if idx and rng.random() < 0.1:
                    idx[-1] += 1
                asg.append(name + "=(" + " ".join(f"[{j}]=" + gen_word(rng) for j in idx) + ")")
            else:
                asg.append(name + "=" + gen_word(rng))
        sep = " " if rng.random() < 0.95 else rng.choice(["  ", "\t", ";"])
        lines.append(("export " if rng.random() < 0.5 else "") + sep.join(asg))
    return "\n".join(lines), names


BASH_CORPUS = [
    ("export VT_a=$'it\\'s a \\n backslash-n'", ["VT_a"]),            # the pre-fix text: bash (and the model) read a newline
    ("VT_a=([0]=\"a b\" [1]=\"c\\\"d\" [2]=\"\\$x \\` \\\\\")", ["VT_a"]),
    ("VT_a=$'\\101\\x41\\7\\08\\xg\\z\\e\\E\\?\\\"' VT_b=a'b'\"c\"$'d'", ["VT_a", "VT_b"]),
    ("VT_a=1 VT_b=2\nexport VT_c=3 VT_a", ["VT_a", "VT_b", "VT_c"]),
    ("export=5 VT_b=2", ["export", "VT_b"]),
    ("", []),
    ("VT_a=()", ["VT_a"]),
    ("export VT_a=([0]=x [1]='' [2]=$'\\'')", ["VT_a"]),
]


# ---------------------------------------------------------------- the real processor without a daemon

class StubProcessor:
    """a real EbuildProcessor object whose pipe to the daemon is a file and whose daemon always acknowledges"""

    def __init__(self, processor, ro):
        self.mod = processor
        self.dir = tempfile.mkdtemp(prefix="c31-stub-")
        self.path = os.path.join(self.dir, "pipe")
        p = processor.EbuildProcessor.__new__(processor.EbuildProcessor)
        p._readonly_vars = frozenset(ro)
        p._outstanding_expects = []
        p._metadata_paths = ("/dev/null",)
        p._eclass_caching = False
        p.pid = None
        self.p = p

    def _open(self, replies):
        # the real code does os.fdopen(fd, "w") on a pipe: same default encoding/errors as open(path, "w")
        self.p.ebd_write = open(self.path, "w")
        self.p.ebd_read = io.BytesIO(replies)

    def _written(self):
        self.p.ebd_write.close()
        with open(self.path, "rb") as f:
            return f.read()

    def send_env(self, env, tmpdir=None):
        self._open(b"env_received\n")
        ok = self.p.send_env(env, tmpdir=tmpdir)
        return ok, self._written()

    def depend(self, command, env, pkg):
        self._open(b"phases succeeded\n")
        # the mapping object itself, as _run_depend_like_phase's callers pass it (expected_ebuild_env adds the package's
        # PMS variables to it)
        self.p._run_depend_like_phase(command, pkg, None, env=env)
        return self._written()

    def close(self):
        shutil.rmtree(self.dir, ignore_errors=True)


class FakePkg:
    """just enough of a package for expected_ebuild_env(depends=True)"""
    category, PF, P, PN, PV, PR, PVR = "cat", "pkg-1", "pkg-1", "pkg", "1", "r0", "1"

    class ebuild:
        path = "/nonexistent/pkg-1.ebuild"

    class eapi:
        ebd_env = {}


# ---------------------------------------------------------------- hand-over histories of one mapping object

ROUTES = ["inline", "file", "depend"]


def snap(env):
    """an independent copy of a mapping, values included: the object that goes through the real code, while the original is
    kept aside as the specification"""
    return {k: (v if isinstance(v, str) else list(v)) for k, v in env.items()}


def drift(obj, ref):
    """how the object handed to the real code differs from what the caller built (entries a hand-over adds by design —
    expected_ebuild_env's PMS variables on the depend-like route — are not a difference)"""
    out = []
    for k, v in ref.items():
        if k not in obj:
            out.append(f"{k} removed")
        elif (obj[k] if isinstance(obj[k], str) else list(obj[k])) != v:
            out.append(f"{k} now {obj[k]!r}")
    return out


def gen_history(rng):
    return [rng.choice(ROUTES) for _ in range(rng.choice([2, 2, 3, 3, 4, 5]))]


def run_histories(stub, scratch, ro, lib, items):
    """items: [(env, routes, piped)].  For each item ONE object (a copy of env) is handed to the real framing code once per
    route, in order; every transfer is then received by the real bash with the daemon's own read functions and judged against
    `env` (the property: exactly those values, exported unless marked, pipe still synchronised).
    -> per item, per step: {how, chan, text, drift, st, got, failure}"""
    jobs, where, piped_jobs, out = [], [], set(), []
    tdir = os.path.join(scratch, "T ü")
    os.makedirs(tdir, exist_ok=True)
    for env, routes, piped in items:
        obj = snap(env)
        names = [k for k in env if k != MARKER and k not in ro]
        steps = []
        for how in routes:
            o = {"how": how, "drift": drift(obj, env), "failure": None, "st": None, "got": None}
            try:
                if how == "inline":
                    ok, chan = stub.send_env(obj)
                    o["text"] = chan.split(b"\n", 1)[1] if b"\n" in chan else b""
                    job = (chan + b"alive\n", names, "chan")
                elif how == "file":
                    ok, chan = stub.send_env(obj, tmpdir=tdir)
                    want_hdr = ("start_receiving_env file " + os.path.join(tdir, "ebd-env-transfer") + "\n").encode("utf-8")
                    if chan != want_hdr:
                        o["failure"] = f"send_env(tmpdir) wrote {chan!r} to the pipe, expected {want_hdr!r}"
                    o["text"] = open(os.path.join(tdir, "ebd-env-transfer"), "rb").read()
                    job = (o["text"], names, "source")
                else:
                    # expected_ebuild_env adds the PMS variables of the package to the mapping; strip nothing, just use it
                    chan = stub.depend("gen_metadata", obj, FakePkg)
                    o["text"] = chan.split(b"\n", 1)[1] if b"\n" in chan else b""
                    job = (chan + b"alive\n", names, "chan")
                o["chan"] = chan
            except Exception as e:  # noqa
                o["chan"] = o["text"] = b""
                o["failure"] = f"{type(e).__name__}: {str(e)[:200]} raised on a mapping inside the property's domain"
                steps.append(o)
                break
            if piped:
                piped_jobs.add(len(jobs))
            jobs.append(job)
            where.append(o)
            steps.append(o)
        out.append(steps)
    for (env_i, o), (st, tail, vars_) in zip(_owner(items, out, where), run_bash(jobs, lib=lib, piped=piped_jobs)):
        o["st"], o["got"] = st, store_of(vars_)
        if o["failure"] is not None:
            continue
        want = wanted_store(env_i, ro)
        how = o["how"]
        if how != "file" and tail != b"alive\n":
            o["failure"] = (f"after `read -N` of the announced count the pipe holds {tail[:60]!r} instead of the next "
                            f"command b'alive\\n' ({how} transfer desynchronised)")
        elif st != 0:
            o["failure"] = f"bash failed (status {st}) evaluating the {how} transfer"
        elif o["got"] != want:
            bad = sorted(k for k in set(o["got"]) | set(want) if o["got"].get(k) != want.get(k))[:3]
            o["failure"] = (f"{how} transfer: bash ends up with {[(k, o['got'].get(k)) for k in bad]!r}, "
                            f"the mapping asks for {[(k, want.get(k)) for k in bad]!r}")
    return out


def _owner(items, out, where):
    """(env, step) for every submitted job, in submission order"""
    ids = {id(o): env for (env, _, _), steps in zip(items, out) for o in steps}
    return [(ids[id(o)], o) for o in where]


def describe(o, j, routes, first_ok):
    """the violation text of step j of a history"""
    if j == 0:
        return o["failure"]
    d = f"hand-over #{j + 1} of one mapping object (routes {' -> '.join(routes[:j + 1])}; as_built = \"env\"): " + o["failure"]
    if o["drift"]:
        d += f"; the earlier hand-over(s) changed the caller's mapping: {'; '.join(o['drift'])}"
    if first_ok:
        d += "; hand-over #1 of the same mapping arrived exactly"
    return d


def first_failure(steps):
    for j, o in enumerate(steps):
        if o["failure"] is not None:
            return j, o
    return None


def shrink_history(stub, scratch, ro, lib, env, routes, rounds=12):
    """greedy reduction of a failing (mapping, hand-over sequence): drop an entry, a marked name, a hand-over, or replace a
    value by `v`, as long as the property still fails on the real code -> (env, routes, failing step, its index) or None"""
    cur = run_histories(stub, scratch, ro, lib, [(env, routes, False)])[0]
    ff = first_failure(cur)
    if ff is None:
        return None
    best = (env, routes[:ff[0] + 1], ff[1], ff[0])
    for _ in range(rounds):
        env, routes = best[0], best[1]
        cands = []
        for k in env:
            if k != MARKER:
                cands.append(({x: y for x, y in env.items() if x != k}, routes))
        if isinstance(env.get(MARKER), str):
            ws = env[MARKER].split()
            for w in ws:
                cands.append((dict(env, **{MARKER: " ".join(x for x in ws if x != w)}), routes))
            if not ws:
                cands.append(({x: y for x, y in env.items() if x != MARKER}, routes))
        for i in range(len(routes)):
            if len(routes) > 1:
                cands.append((env, routes[:i] + routes[i + 1:]))
        for k, v in env.items():
            if k != MARKER and v != "v":
                cands.append((dict(env, **{k: "v"}), routes))
        cands = [c for c in cands if any(k != MARKER for k in c[0])]
        if not cands:
            break
        res = run_histories(stub, scratch, ro, lib, [(e, r, False) for e, r in cands])
        for (e, r), steps in zip(cands, res):
            ff = first_failure(steps)
            if ff is not None:
                best = (e, r[:ff[0] + 1], ff[1], ff[0])
                break
        else:
            break
    return best


# ---------------------------------------------------------------- the real daemon

EBUILD_DUMP = r'''
__vt_dump() {
	local __n __c
	{
		for __n in "${!VT_@}" ${VTNAMES} PKGCORE_BLACKLIST_VARS; do
			declare -p "${__n}" &>/dev/null || continue
			local -n __r=${__n}
			__c=$(declare -p "${__n}")
			__c=${__c#declare -}
			printf '%s\0%s\0%s\0' "${__n}" "${__c%% *}" "${#__r[@]}"
			[[ ${#__r[@]} -gt 0 ]] && printf '%s\0' "${__r[@]}"
			unset -n __r
		done
	} > "${VTOUT}"
}
if [[ -n ${VTOUT} ]]; then __vt_dump; fi
'''


def harvest_locals(ebd_path):
    """every identifier the daemon's bash sources declare `local` (or `declare` inside a function): the names most at risk of
    being caught by a function frame when they are transferred"""
    import glob
    import re
    names = set()
    for f in sorted(glob.glob(os.path.join(ebd_path, "**", "*.bash"), recursive=True) +
                    glob.glob(os.path.join(ebd_path, "**", "*.lib"), recursive=True)):
        for m in re.finditer(r"^\s*(?:local|declare)\s+([^\n;#]*)", open(f, errors="replace").read(), re.M):
            for tok in m.group(1).split():
                n = tok.split("=")[0]
                if not tok.startswith("-") and re.fullmatch(r"[A-Za-z_][A-Za-z0-9_]*", n):
                    names.add(n)
    return names


def ordinary_names(ebd_path, blacklist, ro):
    """candidate names inside the property's domain: harvested locals + ORDINARY, minus what the daemon declares its own"""
    import re
    out = []
    for n in sorted(harvest_locals(ebd_path) | set(ORDINARY)):
        if n in ro or n.isupper() or n.startswith("__") or n.lower().startswith("pkgcore_") or n in ("VTOUT", "VTNAMES"):
            continue
        if any(re.fullmatch(b, n) for b in blacklist):
            continue
        out.append(n)
    return out


def parse_dump(path):
    data = open(path, "rb").read().split(b"\0")[:-1]
    out, i = {}, 0
    while i < len(data):
        name, flags, cnt = data[i].decode(), data[i + 1].decode().lstrip("-"), int(data[i + 2])
        out[name] = (flags, data[i + 3:i + 3 + cnt])
        i += 3 + cnt
    return out


class Recorder:
    """wraps the processor's write side; records every string written (the protocol as Python speaks it)"""

    def __init__(self, inner):
        self.inner, self.log = inner, []
        self.encoding, self.errors = inner.encoding, inner.errors

    def write(self, s):
        self.log.append(s)
        return self.inner.write(s)

    def flush(self):
        return self.inner.flush()

    def close(self):
        return self.inner.close()


class Watchdog:
    """kills the daemon if a round trip does not finish (a deadlocked/desynchronised daemon must not hang the check)"""

    def __init__(self, ebp, seconds=60):
        self.fired = False
        self.seconds, self.ebp = seconds, ebp
        self.t = threading.Timer(seconds, self._kill, [ebp])

    def _kill(self, ebp):
        self.fired = True
        try:
            os.killpg(ebp.pid, 9)
        except Exception:
            pass

    def __enter__(self):
        self.t.start()
        return self

    def kick(self):
        """restart the clock (unless it already fired)"""
        if not self.fired:
            self.t.cancel()
            self.t = threading.Timer(self.seconds, self._kill, [self.ebp])
            self.t.start()

    def __exit__(self, *a):
        self.t.cancel()


# ---------------------------------------------------------------- the caller's process environment

LOCALE_VARS = ("LANG", "LC_ALL", "LC_CTYPE", "LC_MESSAGES", "LC_COLLATE", "LANGUAGE", "NO_COLOR")


def utf8_locales():
    """UTF-8 locales installed on this machine (`locale -a`), most ordinary first"""
    try:
        names = subprocess.run(["locale", "-a"], stdout=subprocess.PIPE, stderr=subprocess.DEVNULL, timeout=60).stdout.decode().split()
    except Exception:  # noqa
        names = []
    u = [n for n in names if n.lower().replace("-", "").endswith("utf8")]
    pref = [n for n in u if n.lower().startswith("en_us")] + [n for n in u if n.lower().startswith("c.")]
    return pref + [n for n in u if n not in pref]


def caller_environments():
    """the process environments pkgcore is started from: the daemon is spawned by EbuildProcessor.__init__ out of whatever
    environment the caller has — a user's shell has a UTF-8 locale selected through LANG / LC_ALL / LC_CTYPE (and NO_COLOR, a
    message locale, …); the POSIX environment of a test runner is the unusual one"""
    u = utf8_locales()
    if not u:
        return [{}]
    a, b = u[0], u[-1]
    return [{"LANG": a}, {"LC_ALL": b}, {"LANG": "C", "LC_CTYPE": a}, {"LANG": b, "LC_MESSAGES": "C", "NO_COLOR": "1"},
            {"LANG": a, "LC_COLLATE": "C", "LANGUAGE": "en"}, {}]


class CallerEnv:
    """sets the locale part of os.environ (what a daemon spawned from now on is started from); restores on exit"""

    def __init__(self):
        self.saved = {k: os.environ.get(k) for k in LOCALE_VARS}
        self.current = None

    def set(self, env):
        for k in LOCALE_VARS:
            os.environ.pop(k, None)
        os.environ.update(env)
        self.current = dict(env)

    def restore(self):
        for k, v in self.saved.items():
            os.environ.pop(k, None)
            if v is not None:
                os.environ[k] = v


def daemon_ctype(pid):
    """the character-type locale the daemon process was started with (from its environment): None = C"""
    try:
        raw = open(f"/proc/{pid}/environ", "rb").read().split(b"\0")
    except OSError:
        return None
    env = dict(x.decode("latin-1").split("=", 1) for x in raw if b"=" in x)
    for k in ("LC_ALL", "LC_CTYPE", "LANG"):
        if env.get(k):
            return None if env[k] in ("C", "POSIX") else env[k]
    return None


# ---------------------------------------------------------------- the check

def to_model_env(env):
    return [[k, {"s": v} if isinstance(v, str) else {"a": list(v)}] for k, v in env.items()]


def run(ctx):
    from pkgcore.ebuild import processor
    rng = ctx.rng
    caller = ctx.caller = CallerEnv()
    envs = caller_environments()
    # quick: one caller environment per run (a UTF-8 one for every seed but the last of the cycle); thorough: all, in turn
    try:
        processor.shutdown_all_processors()       # daemons spawned earlier come from another environment
    except Exception:  # noqa
        pass
    caller.set(envs[ctx.seed % len(envs)])
    ctx.extra["caller_environment"] = dict(caller.current)
    ctx.extra["caller_environments_available"] = envs

    # ---- a real daemon gives the real readonly list (and is reused for the round trips below)
    scratch = tempfile.mkdtemp(prefix="c31-")
    try:
        _run(ctx, processor, rng, scratch)
    finally:
        try:
            processor.shutdown_all_processors()
        except Exception:
            pass
        caller.restore()
        shutil.rmtree(scratch, ignore_errors=True)


def _run(ctx, processor, rng, scratch):
    from pkgcore.ebuild import const as e_const
    ebd_path = e_const.EBD_PATH
    ebp = processor.request_ebuild_processor()
    ro = sorted(ebp._readonly_vars)
    processor.release_ebuild_processor(ebp)
    ctx.extra["daemon_readonly_vars"] = ro
    if "UID" not in ro:
        ctx.mismatch({"readonly": ro}, "the daemon no longer reports UID as readonly (corpus assumption)")

    # =================================================================== tier 1 + 2: pure + bash
    # Every mapping is kept twice: `env`, what the caller built — the specification, never shown to the real code — and an
    # object copied from it (`snap`) that goes through the real code, ONE object for all hand-overs of its history (ebd.py
    # builds self.env once and hands it to run_phase for every phase).  Each hand-over is judged against `env`.
    t0 = time.time()
    envs = []
    if ctx.replay_cases:
        envs += [(c["env"], c.get("kind", "replay"), c.get("handovers")) for c in ctx.replay_cases
                 if isinstance(c, dict) and "env" in c and "env_second_transfer" not in c]
    envs += [(e, "corpus", None) for e in CORPUS + ORACLE_ONLY_CORPUS]
    for i in range(ctx.n(1000, 15000)):
        envs.append((gen_env(rng, i, ro=ro), "random", None))
    for i in range(ctx.n(3, 30)):
        envs.append((gen_big(rng), "big", None))
    # histories on the transfer file: consecutive file-mode hand-overs through the same tmpdir whose texts differ but have
    # the same length (and one repeated unchanged)
    pairs = [e for e in CORPUS if same_length_sibling(e)] + [{"VT_flag": "4", "VT_ver": "1.2.3", "VT_phase": "compile"}]
    for i in range(ctx.n(40, 600)):
        e = gen_env(rng, 100000 + i, ro=ro)
        if same_length_sibling(e):
            pairs.append(e)
    for e in pairs:
        envs += [(e, "file-history", ["file"]), (same_length_sibling(e), "file-history", ["file"]),
                 (same_length_sibling(e), "file-history", ["file"])]
    # histories on the mapping: the same object handed over 2-5 times, routes mixed (the phases of one build)
    for e in CORPUS + ORACLE_ONLY_CORPUS:
        envs.append((e, "reuse-history", ["inline", "file", "depend", "inline"]))
    for i in range(ctx.n(150, 2500)):
        e = gen_env(rng, 200000 + i, ro=ro)
        if i % 2 and MARKER not in e:
            e[MARKER] = " ".join(k for k in e if rng.random() < 0.5)
        envs.append((e, "reuse-history", gen_history(rng)))
    keyerr = [(e, "keyerror", None) for e in KEYERR_CORPUS]

    stub = StubProcessor(processor, ro)
    lib = os.path.join(ebd_path, "ebuild-daemon-lib.bash")
    try:
        real = []
        for env, kind, _ in envs + keyerr:
            try:
                text = stub.p._generate_env_str(snap(env))
                err = None
            except (KeyError, IndexError):
                text, err = None, "reject"      # bad first character / empty name
            except Exception as e:  # noqa
                text, err = None, type(e).__name__
            real.append((text, err))
        reps = ctx.model([{"cmd": "c31.genenv", "ro": ro, "env": to_model_env(env)} for env, _, _ in envs + keyerr])

        items, iteminfo = [], []
        for (env, kind, routes), (text, err), rep in zip(envs + keyerr, real, reps):
            case = {"env": env, "kind": kind}
            if rep == "bad-op":
                ctx.mismatch(case, "driver rejected the request")
                continue
            if err is not None or "err" in rep:
                ctx.case(case, False)
                ctx.count("error_" + str(err))
                if kind != "keyerror":
                    ctx.violation(case, f"_generate_env_str raised {err} on a mapping inside the property's domain")
                elif {"KeyError": "reject"}.get(rep.get("err"), rep.get("err")) != err:
                    ctx.mismatch(case, f"_generate_env_str raised {err}, the model says {rep}")
                continue
            nontrivial = any((not v.isalnum()) if isinstance(v, str) else any(not x.isalnum() for x in v)
                             for k, v in env.items() if k != MARKER)
            ctx.count("entries_%d" % min(len(env), 12))
            ctx.count("kind_" + kind)
            for k, v in env.items():
                if k == MARKER:
                    ctx.count("has_marker")
                    continue
                for x in ([v] if isinstance(v, str) else v):
                    ctx.count("form_bare" if x.isalnum() else ("form_single" if "'" not in x else "form_ansi"))
                    if any(ord(c) > 127 for c in x):
                        ctx.count("value_non_ascii")
                    if "\\" in x and "'" in x:
                        ctx.count("value_quote_and_backslash")
                if not isinstance(v, str):
                    ctx.count("array_len_%d" % min(len(v), 5))
            # edge A: text of the real code == text of the model, byte for byte (also checks the UTF-8 encoder)
            if rep["ok"] != text:
                ctx.mismatch(case, f"_generate_env_str gives {text!r}, the model gives {rep['ok']!r}")
                rep = None      # the property itself is evaluated on the real code below, on every route and twice
                routes = routes or (ROUTES + ["inline"])
            elif rep["bytes"].encode("latin-1") != text.encode("utf-8"):
                ctx.mismatch(case, "the model's UTF-8 encoder disagrees with str.encode")
                rep = None
            # the real framing code: send_env inline, send_env file, _run_depend_like_phase (gen_metadata)
            piped = False
            if routes is None:
                routes = [ROUTES[len(items) % 3]]
                if kind == "big":
                    routes = ["inline" if len(items) % 2 == 0 else "depend"]
            if kind == "big":
                piped = True
                ctx.count("big_text_%d0KiB" % (len(text.encode("utf-8")) // 10240))
            ctx.case(dict(case, handovers=routes), nontrivial, key=text + "|" + ",".join(routes))
            ctx.count("handovers_of_one_object_%d" % len(routes))
            if len(routes) > 1 and MARKER in env and set(env[MARKER].split()) & set(env):
                ctx.count("reused_object_with_marked_names")
            items.append((env, routes, piped))
            iteminfo.append((case, rep))

        outcomes = run_histories(stub, scratch, ro, lib, items)

        # what the model says about the histories: the text of hand-over k of one object (heap model, theorem
        # every_handover_of_a_build_arrives) — asked for the part of each history before its first depend-like step (that
        # route legitimately adds the package's PMS variables to the caller's mapping)
        def pure_prefix(routes):
            return routes.index("depend") if "depend" in routes else len(routes)
        hidx = [i for i, (env, routes, _) in enumerate(items) if len(routes) > 1 and pure_prefix(routes) > 0 and iteminfo[i][1]]
        hreps = dict(zip(hidx, ctx.model([{"cmd": "c31.handovers", "ro": ro, "env": to_model_env(items[i][0]),
                                           "n": pure_prefix(items[i][1])} for i in hidx])))
        # model framing for the inline steps
        fidx = [(i, j) for i, (env, routes, _) in enumerate(items) if iteminfo[i][1] is not None
                for j, how in enumerate(routes) if how == "inline" and j < pure_prefix(routes)]
        freps = dict(zip(fidx, ctx.model([{"cmd": "c31.frame", "kind": "inline", "data": iteminfo[i][1]["ok"], "rest": "alive\n"}
                                          for i, j in fidx])))
        failures = []
        for i, ((env, routes, _), (case0, rep), steps) in enumerate(zip(items, iteminfo, outcomes)):
            first_ok = steps[0]["failure"] is None
            for j, o in enumerate(steps):
                how = o["how"]
                case = dict(case0, handovers=routes[:j + 1])
                ctx.count("route_" + how)
                if j:
                    ctx.count("later_handover_of_the_same_object")
                pure = j < pure_prefix(routes)
                if o["failure"] is not None:
                    failures.append((env, routes[:j + 1], describe(o, j, routes, first_ok), case))
                    break
                if o["drift"]:
                    # theorem handover_leaves_callers_mapping: an earlier hand-over must not have touched the caller's entries
                    ctx.mismatch(case, f"before hand-over #{j + 1} the mapping object differs from what the caller built "
                                       f"({'; '.join(o['drift'])}); the model's hand-over leaves the caller's mapping alone")
                if rep is None or not pure:
                    continue
                if (i, j) in freps:
                    fr = freps[(i, j)]
                    if fr["sent"].encode("latin-1") != o["chan"]:
                        ctx.mismatch(case, f"send_env wrote {o['chan'][:80]!r}…, the model frames {fr['sent'][:80]!r}…")
                    if fr["recv"] is None or fr["recv"][1] != "alive\n":
                        ctx.mismatch(case, "the model's daemon does not find the pipe synchronised after its own framing")
                if i in hreps:
                    hr = hreps[i]
                    if hr == "bad-op" or hr[j].get("ok") is None or hr[j]["ok"].encode("utf-8") != o["text"]:
                        ctx.mismatch(case, f"hand-over #{j + 1} of one mapping object sends {o['text'][:200]!r}, the model's "
                                           f"hand-over #{j + 1} sends {hr if hr == 'bad-op' else hr[j]!r}")
                elif how == "file" and rep["ok"].encode("utf-8") != o["text"]:
                    ctx.mismatch(case, f"the transfer file holds {o['text'][:200]!r}, the model gives {rep['ok'][:200]!r}")
                if rep["eval"] is None:
                    ctx.mismatch(case, "the Lean bash evaluator does not support the text the real code produced")
                elif store_of_assigns(rep["eval"]) != o["got"]:
                    ctx.mismatch(case, "the Lean bash evaluator and the real bash disagree on the produced text")
        # the failing inputs: the first few are reduced (entries, marked names, hand-overs and values dropped while the property
        # still fails on the real code) and reported first
        for env, routes, detail, case in failures[:2]:
            small = shrink_history(stub, scratch, ro, lib, env, routes)
            if small is not None:
                senv, sroutes, so, sj = small
                ctx.violation({"env": senv, "kind": "shrunk-" + case["kind"], "handovers": sroutes},
                              describe(so, sj, sroutes, sj > 0) + f" (reduced from a {len(env)}-entry mapping handed over "
                              f"{len(routes)} time(s))")
        ctx.extra["pure_tier_failing_histories"] = len(failures)
        for env, routes, detail, case in failures[:12]:      # (the list of violations is capped; leave room for the daemon tier)
            ctx.violation(case, detail)
    finally:
        stub.close()

    ctx.extra.setdefault("timing_s", {})["pure_and_bash"] = round(time.time() - t0, 1)
    t0 = time.time()
    # =================================================================== bash contract: random scripts of the fragment
    scripts = list(BASH_CORPUS) + [gen_script(rng) for _ in range(ctx.n(3000, 60000))]
    reps = ctx.model([{"cmd": "c31.bash", "script": s} for s, _ in scripts])
    idx = [i for i, r in enumerate(reps) if r is not None and r != "bad-op"]
    results = run_bash([(scripts[i][0].encode("latin-1"), scripts[i][1], "source" if i % 2 else len(scripts[i][0].encode("latin-1")))
                        for i in idx])
    ctx.extra["bash_scripts_generated"] = len(scripts)
    ctx.extra["bash_scripts_in_fragment_checked_against_real_bash"] = len(idx)
    for i, (st, tail, vars_) in zip(idx, results):
        s, names = scripts[i]
        ctx.evaluations += 1
        ctx.count("bash_contract_checked")
        if "$'" in s and "\\" in s:
            ctx.count("bash_contract_ansi_escape")
        if st != 0 or store_of(vars_) != store_of_assigns(reps[i]):
            ctx.mismatch({"script": s}, f"Lean bash evaluator gives {store_of_assigns(reps[i])!r}, real bash (status {st}) "
                                        f"gives {store_of(vars_)!r}")
    if reps[0] is None or store_of_assigns(reps[0]) != {"VT_a": (False, ["it's a \n backslash-n"], True)}:
        ctx.mismatch({"script": scripts[0][0]}, "the evaluator no longer reproduces the pre-fix defect witness")

    ctx.extra["timing_s"]["bash_contract"] = round(time.time() - t0, 1)
    t0 = time.time()
    # =================================================================== tier 3: the real daemon
    _daemon(ctx, processor, rng, scratch, ro)
    ctx.extra["timing_s"]["daemon"] = round(time.time() - t0, 1)


def _daemon(ctx, processor, rng, scratch, ro):
    from pkgcore.ebuild.atom import atom
    from pkgcore.pytest.plugin import EbuildRepo

    repo = EbuildRepo(os.path.join(scratch, "repo"))
    repo.create_ebuild("cat/pkg-1", data=EBUILD_DUMP, eapi="8")
    repo.sync()
    pkgs = list(repo.itermatch(atom("cat/pkg")))
    if not pkgs:
        ctx.broken.append("the one-ebuild repository does not yield its package (metadata regeneration failed)")
        return
    pkg = pkgs[0]
    tdir = os.path.join(scratch, "T")
    os.makedirs(tdir, exist_ok=True)

    routes = ["depend", "inline", "file"]
    corpus = [dict(e) for e in CORPUS if all(k.startswith("VT_") or k in (MARKER, "UID") for k in e)]
    # every corpus value in one mapping (unique names; every third name marked non-exported)
    merged, marked = {"UID": "5"}, []
    for i, e in enumerate(corpus):
        for k, v in e.items():
            if k.startswith("VT_"):
                merged["VT_c%d_%s" % (i, k[3:])] = v
                if len(merged) % 3 == 0:
                    marked.append("VT_c%d_%s" % (i, k[3:]))
    merged[MARKER] = " ".join(marked)
    # (first transfer, second transfer on the same daemon = "the next request", routes)
    if ctx.quick():
        # one route for the merged corpus (rotating with the seed; the two big transfers below always use the inline routes,
        # and all three routes go through the real framing code + real bash in the tier above)
        plans = [(merged, gen_env(rng, 1000, daemon=True, ro=ro), [routes[ctx.seed % 3]])]
    else:
        plans = [(merged, gen_env(rng, 1000 + i, daemon=True, ro=ro), [r]) for i, r in enumerate(routes)]
    # first a small mapping with one non-ASCII value on a size-prefixed route: the cheapest transfer on which byte count and
    # character count differ (a daemon that does not count bytes shows here within one round trip)
    small = ({"VT_p_ascii": "plain", "VT_p_nonascii": "é日本 ü"}, {"VT_p_second": "ß"})
    plans = [small + ([["inline", "depend"][ctx.seed % 2]] if ctx.quick() else ["inline", "depend", "file"],)] + plans
    # transfers several times the pipe capacity, inline (send_env without tmpdir, gen_ebuild_env)
    # (array / single value only: hundreds of variables make the daemon's own environment dump take half a minute)
    plans += [(gen_big(rng, kinds=(0, 1)), gen_env(rng, 2000, daemon=True, ro=ro), ["inline"]),
              (gen_big(rng, kinds=(0, 1)), gen_env(rng, 2001, daemon=True, ro=ro), ["depend"])]
    if not ctx.quick():
        plans += [(gen_big(rng, kinds=(0, 1)), gen_big(rng, kinds=(0, 1)), routes) for _ in range(2)]
        plans += [(e, e, [routes[i % 3]]) for i, e in enumerate(corpus)]
        plans += [(gen_env(rng, i, daemon=True, ro=ro), gen_env(rng, 5000 + i, daemon=True, ro=ro), [routes[i % 3]]) for i in range(30)]
        # big transfers (several pipe buffers)
        big = {"VT_big%d" % i: gen_value(rng) * 40 + "é'\\" * 2000 for i in range(8)}
        plans.append((big, merged, routes))
    frame_reqs, frame_seen = [], []
    from pkgcore.ebuild import const as e_const
    blacklist, ordinary = None, []
    slowest = [1.0]
    envs = caller_environments()
    hung = False
    for plan_no, (env1, env2, env_routes) in enumerate(plans):
        if not ctx.quick() and plan_no:
            # thorough: the caller's environment changes from plan to plan (fresh daemons)
            processor.shutdown_all_processors()
            ctx.caller.set(envs[(ctx.seed + plan_no) % len(envs)])
        for route in env_routes:
            if hung:
                ctx.note("a transfer hung (both sides waiting): the remaining daemon plans were skipped")
                ctx.count("daemon_plans_skipped_after_a_hang")
                continue
            if blacklist is not None:
                # ordinary names (words, letters, the daemon's own function locals) next to the VT_ ones: all of them in the first
                # transfer with short values, a random dozen with hostile values in the second
                env1 = dict(env1)
                env2 = dict(env2)
                for n in ordinary:
                    forms = ["", "1", "value of " + n, "it's \\ $x", ["a", "b c"]]
                    env1.setdefault(n, forms[4] if n == "error_output" else rng.choice(forms))
                for n in rng.sample(ordinary, min(12, len(ordinary))):
                    env2.setdefault(n, gen_value(rng) if rng.random() < 0.8 else [gen_value(rng), gen_value(rng)])
                ctx.count("daemon_transfers_with_ordinary_names")
            # the first plan (every plan in the thorough tier) hands its first mapping over once more at the end — the SAME
            # object, as ebd.py passes self.env to run_phase for every phase of a build
            again = plan_no == 1 or (not ctx.quick() and sum(len(str(v)) for v in env1.values()) < 20000)
            case = {"env": env1, "env_second_transfer": env2, "kind": "daemon-" + route,
                    "caller_environment": dict(ctx.caller.current)}
            ctx.count("daemon_caller_env_" + ("+".join(f"{k}={v}" for k, v in sorted(ctx.caller.current.items())) or "POSIX"))
            t_plan = time.time()
            # a transfer that does not finish is a failure of the property (desynchronised pipe: both ends wait) — but on a
            # heavily loaded machine a healthy round trip was seen to take 20-30 s; a plan stopped by the watchdog is therefore
            # run once more on a fresh daemon with a much longer limit, and only that second outcome is reported
            for attempt in (0, 1):
                # per transfer; scaled by the slowest healthy transfer seen in this run (the machine's present speed)
                limit = int(max(120, 6 * slowest[0])) if attempt == 0 else int(max(240, 20 * slowest[0]))
                out = os.path.join(scratch, "dump")
                if os.path.exists(out):
                    os.unlink(out)
                ebp = processor.request_ebuild_processor()
                ctype = daemon_ctype(ebp.pid)
                if ctype is not None:
                    # the model's assumption "the daemon runs in the C locale" does not hold for this daemon: `read -N` will count
                    # characters; a transfer that gets stuck is then not a matter of machine load
                    limit = 30 if attempt == 0 else 90
                    ctx.count("daemon_started_in_a_non_C_locale")
                rec = Recorder(ebp.ebd_write)
                ebp.ebd_write = rec
                err, seq = None, [env1, env2]
                try:
                    with Watchdog(ebp, limit) as wd:
                        seq = [env1, env2]          # the second transfer on the same daemon is the "next request"
                        if route == "file" and same_length_sibling(env2):
                            seq.append(same_length_sibling(env2))       # same tmpdir, same length, different text
                        if again:
                            seq.append(env1)
                        case["sequence"] = ["env", "env_second_transfer"] + ["same-length sibling of env_second_transfer"] * (len(seq) - 2 - again) \
                            + ["env (the same object as in the first transfer)"] * again
                        handed = {}         # id(mapping as built) -> the one object the processor gets for it, every time
                        for step, env in enumerate(seq):
                            wd.kick()           # the limit is per transfer
                            if step:
                                slowest[0] = max(slowest[0], time.time() - t_step)
                            t_step = time.time()
                            if os.path.exists(out):
                                os.unlink(out)
                            extra = " ".join(k for k in env if not k.startswith("VT_") and k != MARKER and k not in ro)
                            if id(env) in handed:
                                e = handed[id(env)]
                                ctx.count("daemon_handover_of_an_object_handed_over_before")
                            elif route == "depend":
                                e = dict(env, VTOUT=out, VTNAMES=extra)
                            else:
                                e = processor.expected_ebuild_env(pkg, depends=True)
                                e.update(env, VTOUT=out, VTNAMES=extra, PATH=os.environ.get("PATH", "/usr/bin:/bin"), T=tdir)
                            handed[id(env)] = e
                            if route == "depend":
                                ebp._run_depend_like_phase("gen_ebuild_env", pkg, repo.eclass_cache, env=e,
                                                           extra_commands={"receive_env": _receive_env})
                                ok = True
                            else:
                                ok = ebp.run_phase("pretend", e, tmpdir=tdir if route == "file" else None, sandbox=False)
                            nth = f"transfer #{step + 1} on this daemon ({case['sequence'][step]}): "
                            if not ok:
                                err = nth + "the phase failed"
                                break
                            if not ebp.is_responsive:
                                err = nth + "the daemon does not answer `alive` after the transfer"
                                break
                            got = {k: ("a" in f, [x.decode("latin-1") for x in v], "x" in f) for k, (f, v) in parse_dump(out).items()}
                            bl = got.pop("PKGCORE_BLACKLIST_VARS", None)
                            if blacklist is None and bl is not None:
                                blacklist = bl[1]
                                ordinary = ordinary_names(e_const.EBD_PATH, blacklist, ro)
                                ctx.extra["daemon_blacklist_entries"] = len(blacklist)
                                ctx.extra["ordinary_names_sent"] = ordinary
                            want = {k: v for k, v in wanted_store(env, ro).items() if k.startswith("VT_") or k in extra.split()}
                            if got != want:
                                bad = sorted(k for k in set(got) | set(want) if got.get(k) != want.get(k))[:3]
                                err = (nth + f"the daemon ends up with {[(k, got.get(k)) for k in bad]!r}, the mapping asks for "
                                       f"{[(k, want.get(k)) for k in bad]!r}")
                                d = drift(e, env)
                                if d:
                                    err += f"; earlier hand-overs changed the caller's mapping object: {'; '.join(d)}"
                                break
                except Exception as ex:  # noqa: the property failing shows up as all kinds of processor errors
                    err = f"{type(ex).__name__}: {str(ex)[:300]}"
                if wd.fired:
                    err = (f"the daemon did not finish a transfer in time, nor on a fresh daemon within {limit} s, {int(limit / max(slowest[0], 0.1))} "
                           f"times the slowest healthy transfer of this run (killed by the watchdog)"
                           + (f" [{err}]" if err else ""))
                if ctype is not None and err is not None:
                    err += (f" [the daemon was started with the character locale {ctype!r} taken from the caller's environment "
                            f"{ctx.caller.current!r}: its `read -N` counts characters, Python announces bytes]")
                ebp.ebd_write = rec.inner
                try:
                    if err is None:
                        processor.release_ebuild_processor(ebp)
                    else:
                        processor.drop_ebuild_processor(ebp)
                        ebp.shutdown_processor(force=True)
                except Exception:
                    pass
                if not wd.fired:
                    break
                hung = attempt == 1
                ctx.count("daemon_plan_repeated_after_watchdog")
            ctx.case(case, True, key=route + repr(sorted(env1.items())) + repr(sorted(env2.items())))
            ctx.count("daemon_" + route)
            ctx.extra.setdefault("daemon_plan_seconds", []).append([route, sum(len(str(v)) for v in env1.values()) // 1024, round(time.time() - t_plan, 1)])
            ctx.traces += len(seq) if err is None else 1
            if err is not None:
                ctx.violation(case, f"{route} transfer to a real daemon: {err}")
                continue
            # the recorded traffic: the transfer command as the model frames it
            for s in rec.log:
                if route == "inline" and s.startswith("start_receiving_env bytes "):
                    frame_reqs.append({"cmd": "c31.frame", "kind": "inline", "data": s.split("\n", 1)[1], "rest": ""})
                    frame_seen.append((case, s))
                elif route == "depend" and s.startswith("gen_ebuild_env "):
                    frame_reqs.append({"cmd": "c31.frame", "kind": "depend", "c": "gen_ebuild_env",
                                       "data": s.split("\n", 1)[1], "rest": ""})
                    frame_seen.append((case, s))
    for (case, s), fr in zip(frame_seen, ctx.model(frame_reqs)):
        if fr == "bad-op" or fr["sent"].encode("latin-1") != s.encode("utf-8"):
            ctx.mismatch(case, f"recorded transfer command {s[:60]!r}… is not what the model frames")
        elif fr["recv"] is None:
            ctx.mismatch(case, "the model's daemon cannot receive the recorded transfer command")
    ctx.extra["daemon_transfer_commands_matched_with_model"] = len(frame_seen)
    ctx.extra["daemon_round_trips"] = ctx.traces


def _receive_env(self, line):
    self.ebd_read.read(int(line.strip()))
