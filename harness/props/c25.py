"""C25 — binary package tarballs round-trip their contents."""
import os
import posixpath
import shutil
import stat
import tarfile as std_tarfile
import tempfile

PID = "C25"
LEAN_MODULES = ["Pkgcore.Props.C25"]
OBLIGATIONS = [
    "Pkgcore.C25.member_roundtrip",
    "Pkgcore.C25.write_links_to_first",
    "Pkgcore.C25.hardlink_chain",
    "Pkgcore.C25.tar_roundtrip_files",
    "Pkgcore.C25.empty_archive_empty",
    "Pkgcore.C25.convert_plain",
]
TRUSTED = [
    "the tar byte format and compression: contract 'the members handed to TarFile.addfile are the members read back, extractfile on a hard link "
    "yields the data of the member it names' — checked on every sampled archive by re-reading it with the stdlib tarfile and comparing with the "
    "model's member list, not proved",
    "os.path.abspath/normpath/join, str.strip('/') re-expressed in Lean (normpath shared with C24) and compared on every sampled path",
    "the relocation below symlinked directories, add_missing_directories and the final ordering of convert_archive are modelled executably and "
    "compared on every sampled archive, but the theorems cover only sets without entries below a symlink (partial strength, see LEVEL_NOTE)",
    "mtimes and file contents are opaque tokens in the model; add_missing_directories stamps the current time (ignored in comparisons)",
]
ASSUMPTIONS = [
    "locations are absolute and normalised (fs objects normalise them) and distinct; files that share (dev, inode) share mode/owner/mtime, as real hard links do",
    "no symlink cycle among symlinked directories that have entries below them",
]
RULE = ("trees built on disk (nested directories, files with random contents, hard-link groups of 2-4 names, symlinks to files/directories/dangling/"
        "absolute, fifos, odd names) scanned with livefs.scan, then optionally altered: a directory entry replaced by a symlink to a sibling (entries "
        "below a symlinked directory, 1-2 levels, relative and absolute targets), a directory entry dropped (missing directories), device nodes "
        "added, owners/modes changed, files without dev/inode, one name of a hard-link group given a different mode; written with write_set "
        "(bzip2, xz) or add_contents_to_tarfile into an uncompressed TarFile, re-read with generate_contents/convert_archive; plus empty sets and "
        "zero-member streams. non-trivial = at least 5 entries including a hard-link group or a symlinked directory with entries below it")


def gen_tree(rng, base):
    """create a tree on disk under base; returns nothing"""
    os.makedirs(base)
    dirs = [""]
    for _ in range(rng.choice([1, 2, 3, 5])):
        parent = rng.choice(dirs)
        name = rng.choice(["usr", "lib", "lib64", "bin", "share", "doc", "é", "a b", "x-1.0", "etc", ".hidden"])
        d = posixpath.join(parent, name)
        if d not in dirs:
            os.makedirs(os.path.join(base, d), exist_ok=True)
            dirs.append(d)
    files = []
    for _ in range(rng.choice([0, 1, 3, 5, 8])):
        d = rng.choice(dirs)
        name = rng.choice(["a", "b", "c.so.1", "README", "é", "sp ace", "-dash", "x.tar", "0", "lib.a"])
        p = posixpath.join(d, name)
        full = os.path.join(base, p)
        if os.path.lexists(full):
            continue
        with open(full, "wb") as f:
            f.write(rng.randbytes(rng.choice([0, 1, 10, 511, 512, 513, 3000])))
        os.chmod(full, rng.choice([0o644, 0o755, 0o600, 0o4755, 0o444]))
        t = rng.choice([1, 1000000000, 1700000000.5, 1234567890.123456789, 0])
        os.utime(full, (t, t))
        files.append(p)
    # hard-link groups
    for _ in range(rng.choice([0, 0, 1, 2])):
        if not files:
            break
        src = rng.choice(files)
        for i in range(rng.choice([1, 1, 2, 3])):
            d = rng.choice(dirs)
            p = posixpath.join(d, "hl%d-%s" % (rng.randrange(100), posixpath.basename(src)))
            full = os.path.join(base, p)
            if not os.path.lexists(full):
                os.link(os.path.join(base, src), full)
                files.append(p)
    for _ in range(rng.choice([0, 1, 2, 3])):
        d = rng.choice(dirs)
        p = os.path.join(base, d, rng.choice(["link", "l2", "to-dir", "abs", "dangling"]))
        if os.path.lexists(p):
            continue
        tgt = rng.choice(files + dirs[1:] + ["nowhere", "/abs/path", "../up", "./same"]) if (files or dirs[1:]) else "nowhere"
        os.symlink(rng.choice([posixpath.basename(tgt) or "x", "/" + tgt.lstrip("/"), tgt]), p)
    if rng.random() < 0.3:
        p = os.path.join(base, rng.choice(dirs), "fifo")
        if not os.path.lexists(p):
            os.mkfifo(p)
    for d in dirs[1:]:
        if rng.random() < 0.5:
            os.chmod(os.path.join(base, d), rng.choice([0o755, 0o700, 0o1777]))
            t = rng.choice([5, 1600000000.25])
            os.utime(os.path.join(base, d), (t, t))


def mt(x):
    return repr(float(x))


def canon(o, data_id):
    """fs object -> model/JSON form; data_id maps bytes -> token"""
    base = [o.mode, o.uid, o.gid, mt(o.mtime)]
    if o.is_reg:
        d = o.data.bytes_fileobj().read()
        return ["file", o.location] + base + [o.dev, o.inode, data_id(d)]
    if o.is_dir:
        return ["dir", o.location] + base
    if o.is_sym:
        return ["sym", o.location, o.target] + base
    if o.is_fifo:
        return ["fifo", o.location] + base
    if o.is_dev:
        return ["dev", o.location] + base + [stat.S_ISCHR(o.mode), o.major, o.minor]
    return ["?", o.location]


def renumber(objs):
    """replace (dev, inode) by class ids in order of first appearance"""
    ids, out = {}, []
    for o in objs:
        o = list(o)
        if o[0] == "file":
            key = (o[6], o[7])
            if None in key:
                o[6], o[7] = None, None
            else:
                o[6], o[7] = 0, ids.setdefault(key, len(ids))
        out.append(o)
    return out


class SymlinkLoop(Exception):
    pass


def merged_locations(objs):
    """independent oracle of a live merge: every entry goes into the directory its recorded parent resolves to in the target file
    system with all symlinks of the set in place (symlinks followed, '..' lexical), under its own name; the places of the symlinks
    themselves are computed as a fixpoint"""

    def final(nodes, loc):
        comps = loc.split("/")[1:]
        todo, cur, budget = list(comps[:-1]), "/", 64 * (len(comps) + 4)
        while todo:
            budget -= 1
            if budget < 0:
                raise SymlinkLoop()
            c = todo.pop(0)
            if c == "..":
                cur = posixpath.dirname(cur) or "/"
            elif c in ("", "."):
                continue
            else:
                nxt = posixpath.join(cur, c)
                t = nodes.get(nxt)
                if t is not None:
                    if t.startswith("/"):
                        cur = "/"
                    todo = t.split("/") + todo
                else:
                    cur = nxt
        return posixpath.join(cur, comps[-1])
    syms = sorted((o for o in objs if o[0] == "sym"), key=lambda o: o[1])
    nodes = {}
    for _ in range(len(syms) + 2):
        new = {}
        for o in syms:
            new[final(nodes, o[1])] = o[2]
        if new == nodes:
            break
        nodes = new
    return {o[1]: final(nodes, o[1]) for o in objs}


def run(ctx):
    from pkgcore.fs import contents, fs, livefs, tar
    from pkgcore.fs._tar import tarfile as ptar

    rng = ctx.rng
    root = os.path.realpath(tempfile.mkdtemp(prefix="verif-c25-"))
    tokens = {}

    def data_id(b):
        return tokens.setdefault(bytes(b), len(tokens) + 1)

    def read_back(path, comp):
        if comp is None:
            th = ptar.TarFile(name=path, mode="r")
            return list(tar.convert_archive(th))
        return list(tar.generate_contents(path, compressor=comp))

    def write(cs, path, comp):
        if comp is None:
            th = ptar.TarFile(name=path, mode="w")
            try:
                tar.add_contents_to_tarfile(cs, th)
            finally:
                th.close()
        else:
            tar.write_set(cs, path, compressor=comp)

    def members_of(path, comp):
        mode = {"bzip2": "r:bz2", "xz": "r:xz", None: "r:"}[comp]
        out = []
        with std_tarfile.open(path, mode) as t:
            for m in t:
                typ = {std_tarfile.REGTYPE: "reg", std_tarfile.AREGTYPE: "reg", std_tarfile.LNKTYPE: "lnk", std_tarfile.DIRTYPE: "dir", std_tarfile.SYMTYPE: "sym",
                       std_tarfile.FIFOTYPE: "fifo", std_tarfile.CHRTYPE: "chr", std_tarfile.BLKTYPE: "blk"}.get(m.type, "?")
                data = None
                if typ == "reg":
                    data = data_id(t.extractfile(m).read())
                dev = typ in ("chr", "blk")
                out.append([typ, m.name, m.linkname if typ in ("lnk", "sym") else "", m.mode, m.uid, m.gid, mt(m.mtime),
                            m.devmajor if dev else 0, m.devminor if dev else 0, data])
        return out

    try:
        reqs, meta = [], []
        ncases = ctx.n(450, 9000)
        for idx in range(ncases):
            base = os.path.join(root, "t%d" % idx)
            gen_tree(rng, base)
            cs = livefs.scan(base, offset=base, chksum_types=("size",))
            objs = [o for o in cs if o.location != "/"]
            alter = rng.choice(["none", "none", "symdir", "symdir", "dropdir", "dev", "chown", "nodev", "modegroup", "empty"])
            if alter == "empty":
                objs = []
            elif alter == "symdir":
                dirs = sorted(o.location for o in objs if o.is_dir and any(x.location.startswith(o.location + "/") for x in objs))
                for _ in range(rng.choice([1, 1, 2])):
                    if not dirs:
                        break
                    d = rng.choice(dirs)
                    dirs.remove(d)
                    old = [o for o in objs if o.location == d][0]
                    others = [x for x in dirs if x != d and not x.startswith(d + "/") and not d.startswith(x + "/")]
                    tgt = rng.choice([posixpath.basename(d) + "-real", "/" + "real" + d.replace("/", "_"), "../moved/" + posixpath.basename(d), "sub/inner"]
                                     + ([rng.choice(others) + "/via"] if others else []))     # a target that itself passes through another (possibly symlinked) directory
                    objs = [o for o in objs if o.location != d] + [fs.fsSymlink(d, tgt, mode=0o777, uid=0, gid=0, mtime=old.mtime)]
            elif alter == "dropdir":
                dirs = [o for o in objs if o.is_dir]
                if dirs:
                    victim = rng.choice(dirs)
                    objs = [o for o in objs if o is not victim]
            elif alter == "dev":
                objs.append(fs.fsDev("/dev-null", major=1, minor=3, mode=stat.S_IFCHR | 0o666, uid=0, gid=0, mtime=7.0))
                objs.append(fs.fsDev("/blk", major=8, minor=1, mode=stat.S_IFBLK | 0o660, uid=0, gid=6, mtime=8.0))
            elif alter == "chown":
                objs = [o.change_attributes(uid=rng.choice([0, 1000, 65534]), gid=rng.choice([0, 100])) if rng.random() < 0.5 else o for o in objs]
            elif alter == "nodev":
                objs = [fs.fsFile(o.location, strict=False, data=o.data, chksums={"size": o.chksums["size"]}, mode=o.mode, uid=o.uid, gid=o.gid, mtime=o.mtime)
                        if o.is_reg else o for o in objs]
            elif alter == "modegroup":
                groups = {}
                for o in objs:
                    if o.is_reg:
                        groups.setdefault((o.dev, o.inode), []).append(o)
                multi = [g for g in groups.values() if len(g) > 1]
                if multi:
                    victim = rng.choice(rng.choice(multi))
                    objs = [o.change_attributes(mode=0o700) if o is victim else o for o in objs]
            rng.shuffle(objs)
            cs2 = contents.contentsSet(objs)
            comp = rng.choice(["bzip2"] * 9 + [None] * 9 + ["xz"])      # xz at preset 9 costs 0.2 s per archive
            path = os.path.join(root, "a%d.tar" % idx)
            inp = [canon(o, data_id) for o in cs2]
            case = {"alter": alter, "compressor": comp, "set": inp}
            try:
                write(cs2, path, comp)
                mem = members_of(path, comp)
                got = [canon(o, data_id) for o in read_back(path, comp)]
                err = None
            except Exception as e:
                mem, got, err = None, None, f"{type(e).__name__}: {e}"
            reqs.append({"cmd": "c25.write", "set": inp})
            reqs.append({"cmd": "c25.read", "members": mem if mem is not None else [], "c": 1000})
            reqs.append({"cmd": "c25.merged", "set": inp})
            meta.append((case, alter, inp, mem, got, err))
            shutil.rmtree(base, ignore_errors=True)
            os.path.exists(path) and os.unlink(path)
        # zero-member streams
        import bz2
        import lzma
        for comp, blob in (("bzip2", bz2.compress(b"")), ("xz", lzma.compress(b"")), ("xz", b"")):
            p = os.path.join(root, "empty")
            with open(p, "wb") as f:
                f.write(blob)
            case = {"empty_stream": comp, "bytes": len(blob)}
            ctx.case(case, True)
            try:
                r = list(tar.generate_contents(p, compressor=comp))
                if r:
                    ctx.violation(case, f"an archive without members reads as {r}")
            except Exception as e:
                ctx.violation(case, f"an archive without members raised {type(e).__name__}: {e}")

        replies = ctx.model(reqs)
        for i, (case, alter, inp, mem, got, err) in enumerate(meta):
            mwrite, mread, mmerged = replies[3 * i], replies[3 * i + 1], replies[3 * i + 2]
            files = [o for o in inp if o[0] == "file"]
            groups = {}
            for o in files:
                if o[6] is not None and o[7] is not None:
                    groups.setdefault((o[6], o[7]) + tuple(o[2:6]), []).append(o[1])
            has_group = any(len(g) > 1 for g in groups.values())
            syms = {o[1] for o in inp if o[0] == "sym"}
            below = [o for o in inp if any(o[1].startswith(s + "/") for s in syms)]
            ctx.case(case, len(inp) >= 5 and (has_group or bool(below)), key=repr(case))
            ctx.count("alter_" + alter)
            ctx.count("compressor_%s" % case["compressor"])
            ctx.count("entries_%d" % min(len(inp), 12))
            if has_group:
                ctx.count("with_hardlink_group")
            if below:
                ctx.count("with_entries_below_symlink")
            for o in inp:
                ctx.count("kind_" + o[0])
            if err is not None:
                ctx.violation(case, f"writing/reading the tarball raised {err}")
                continue
            # --- edge A
            if mwrite != mem:
                ctx.mismatch(case, f"members in the archive {str(mem)[:300]} differ from the model's {str(mwrite)[:300]}")
            def norm_dirs(objs, known):
                return [(o[:5] + [""] if o[0] == "dir" and o[1] not in known else o) for o in objs]
            member_dirs = {posixpath.normpath("/" + m[1].strip("/")) for m in (mem or []) if m[0] == "dir"}
            if mread == "raise":
                ctx.mismatch(case, "the model raises on the archive, the code read it")
                continue
            got_n = renumber(norm_dirs(got, member_dirs))
            model_n = renumber(norm_dirs(mread["ok"], member_dirs))
            if got_n != model_n:
                ctx.mismatch(case, f"convert_archive result differs from the model: first difference "
                             f"{next(((a, b) for a, b in zip(got_n, model_n) if a != b), (len(got_n), len(model_n)))}")
            # --- edge C: the property
            try:
                merged = merged_locations(inp)
            except SymlinkLoop:
                merged = None
            if (mmerged == "loop") != (merged is None) or (merged is not None and {m[0]: m[1] for m in mmerged} != merged):
                ctx.mismatch(case, "Lean Spec.mergedLocs disagrees with the harness' live-merge oracle")
            if merged is None:
                ctx.count("symlink_loop_skipped")
                continue
            finals = list(merged.values())
            if len(set(finals)) != len(finals):
                ctx.count("relocation_collision_skipped")
                continue
            gotd = {o[1]: o for o in got}
            for o in inp:
                want_loc = merged[o[1]]
                g = gotd.get(want_loc)
                if g is None:
                    ctx.violation(case, f"entry {o[1]!r} (expected at {want_loc!r}) is missing after the round trip")
                    break
                if o[0] == "file":
                    if [g[0]] + g[2:6] + [g[8]] != [o[0]] + o[2:6] + [o[8]]:
                        ctx.violation(case, f"file {o[1]!r} came back as {g} instead of {o}")
                        break
                elif [g[0]] + g[2:] != [o[0]] + o[2:]:
                    ctx.violation(case, f"entry {o[1]!r} came back as {g} instead of {o}")
                    break
            else:
                extra = [g for g in got if g[1] not in set(finals)]
                if any(g[0] != "dir" for g in extra):
                    ctx.violation(case, f"entries appeared that were not in the set: {[g for g in extra if g[0] != 'dir'][:3]}")
                # hard links: same inode afterwards iff same (dev, inode) and link-compatible before
                bykey = {}
                for o in files:
                    if o[6] is not None and o[7] is not None:
                        bykey.setdefault((o[6], o[7]), set()).add(tuple(o[2:6]))
                inconsistent = {k for k, v in bykey.items() if len(v) > 1}      # same inode, different owner/mode/mtime: not a real hard-link group
                if inconsistent:
                    ctx.count("inconsistent_inode_group")
                fl = [(o, gotd[merged[o[1]]]) for o in files if (o[6], o[7]) not in inconsistent]
                for a in range(len(fl)):
                    for b in range(a + 1, len(fl)):
                        (o1, g1), (o2, g2) = fl[a], fl[b]
                        before = o1[6] is not None and o1[7] is not None and o1[6:8] == o2[6:8] and o1[2:6] == o2[2:6]
                        after = (g1[6], g1[7]) == (g2[6], g2[7])
                        if before != after:
                            ctx.violation(case, f"{o1[1]!r} and {o2[1]!r} were {'hard links' if before else 'separate files'} and are "
                                          f"{'sharing an inode' if after else 'separate'} after the round trip")
                            break
                    else:
                        continue
                    break
    finally:
        shutil.rmtree(root, ignore_errors=True)


LEVEL_TEXT = ("Kernel-checked Lean 4 theorems about a model of fs/tar.py over member lists: every entry converts to a TarInfo and back unchanged "
              "(member_roundtrip); the writer stores the first name of each (dev, inode) class with its data and every later link-compatible name as a "
              "hard link to it (write_links_to_first); the reader gives a hard link the inode and data of the member it names, also through chains "
              "x→y→z (hardlink_chain); composed: every regular file comes back with its attributes and data, two files share an inode afterwards iff "
              "they were hard links before (tar_roundtrip_files); an archive without members is the empty set (empty_archive_empty); without entries "
              "below a symlink and with all parent directories present convert_archive only reorders (convert_plain). The tar byte format, compression "
              "and the relocation below symlinked directories are covered by the differential run (members re-read with the stdlib tarfile; results "
              "compared with the executable model and with an independent live-merge oracle).")
LEVEL_NOTE = ("Partial: theorems do not cover convert_archive's relocation below symlinked directories nor add_missing_directories (sampled only); "
              "trusted: Lean kernel, standard axioms, the tarfile contract, path primitives as re-expressed.")
