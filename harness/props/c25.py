"""C25 — binary package tarballs round-trip their contents."""
import os
import posixpath
import shutil
import signal
import stat
import tarfile as std_tarfile
import tempfile

PID = "C25"
LEAN_MODULES = ["Pkgcore.Props.C25"]
OBLIGATIONS = [
    "Pkgcore.C25.member_roundtrip",
    "Pkgcore.C25.write_links_to_first",
    "Pkgcore.C25.hardlink_chain",
    "Pkgcore.C25.tar_roundtrip_files",
    "Pkgcore.C25.tar_roundtrip_inodes_iff",
    "Pkgcore.C25.empty_archive_empty",
    "Pkgcore.C25.convert_plain",
    "Pkgcore.C25.convert_relocates_partial",
    "Pkgcore.C25.convert_relocates_counterexample",
    "Pkgcore.C25.convert_passes_counterexample",
    "Pkgcore.C25.convert_cycle_rejected",
    "Pkgcore.C25.convert_terminates",
    "Pkgcore.C25.missing_dirs_exact",
    "Pkgcore.C25.convert_adds_missing_dirs_partial",
    "Pkgcore.C25.convert_order",
    "Pkgcore.C25.relocatable_of_check",
    "Pkgcore.C25.pathok_normalised",
]
TRUSTED = [
    "the tar byte format and compression: contract 'the members handed to TarFile.addfile are the members read back, extractfile on a hard link "
    "yields the data of the member it names' — checked on every sampled archive by re-reading it with the stdlib tarfile and comparing with the "
    "model's member list, not proved",
    "os.path.abspath/normpath/join/dirname, str.strip('/'), and the path tests of contentsSet.child_nodes/change_offset (isChild, moveLoc) "
    "re-expressed in Lean (normpath shared with C24) and compared on every sampled path; the relocation theorems use them as primitives "
    "(the specification resolveDir is stated with them, without the code's loops)",
    "locations are normalised absolute paths ('/' + components without '/', '.', '..'): for those PathOK (the name mangling is the identity) and "
    "LocNorm (child prefix = location + '/') are proved (pathok_normalised); that fs objects and archive_to_fsobj produce such locations is "
    "pkgcore's/abspath's normalisation, compared on every sampled location",
    "archives with a symlink entry recorded below another symlink entry are outside convert_relocates_partial (the code is order dependent "
    "there: convert_relocates_counterexample, open finding); they are compared model-vs-code and against the live-merge oracle only",
    "mtimes and file contents are opaque tokens in the model; add_missing_directories stamps the current time (ignored in comparisons)",
]
ASSUMPTIONS = [
    "locations are absolute and normalised (fs objects normalise them) and distinct; files that share (dev, inode) share mode/owner/mtime, as real hard links do",
    "relocation theorems: no symlink entry below another symlink entry; following at most as many symlinks as the archive holds settles every "
    "location (no cycle); different entries resolve to different locations (Relocatable; evaluated by the Lean driver on every sampled set, "
    "the theorem's conclusions are then checked on the real convert_archive result)",
]
RULE = ("trees built on disk (nested directories, files with random contents, hard-link groups of 2-4 names, symlinks to files/directories/dangling/"
        "absolute, fifos, odd names) scanned with livefs.scan, then optionally altered: a directory entry replaced by a symlink to a sibling (entries "
        "below a symlinked directory, 1-2 levels, relative and absolute targets), chains of 2-3 symlinked directories whose names sort in any order "
        "(current -> stable -> v2; targets spelled name, ./name, absolute, ../parent/name), a symlinked directory inside the target of a symlinked "
        "directory (recorded at its real place, or below the outer symlink), relative targets climbing with '..' (also beyond the root), a symlink to "
        "the parent directory with entries recorded once or twice through it, two directories replaced by symlinks to each other (cycle), a directory "
        "entry dropped (missing directories), device nodes added, owners/modes changed, files without dev/inode, one name of a hard-link group given "
        "a different mode; written with write_set (bzip2, xz) or add_contents_to_tarfile into an uncompressed TarFile, re-read with "
        "generate_contents/convert_archive under a watchdog timer; a hand-written corpus first (chains from the seeded-change demos, nests, the "
        "three counterexample archives of Props/C25.lean including the one convert_archive rejects as a symlink loop — it used to hang); plus empty sets and "
        "zero-member streams. non-trivial = at least 5 entries including a hard-link group or a symlinked directory with entries below it")

FINDING_ORDER = "C25-symlink-below-symlink-order"
FINDING_DEPTH = "C25-resolution-longer-than-symlinks"


def gen_tree(rng, base):
    """create a tree on disk under base; returns nothing"""
    os.makedirs(base)
    dirs = [""]
    for _ in range(rng.choice([1, 2, 3, 5])):
        parent = rng.choice(dirs)
        name = rng.choice(["usr", "lib", "lib64", "bin", "share", "doc", "é", "a b", "x-1.0", "etc", ".hidden"])
        d = posixpath.join(parent, name)
        if d not in dirs:
            os.makedirs(os.path.join(base, d), exist_ok=True)
            dirs.append(d)
    files = []
    for _ in range(rng.choice([0, 1, 3, 5, 8])):
        d = rng.choice(dirs)
        name = rng.choice(["a", "b", "c.so.1", "README", "é", "sp ace", "-dash", "x.tar", "0", "lib.a"])
        p = posixpath.join(d, name)
        full = os.path.join(base, p)
        if os.path.lexists(full):
            continue
        with open(full, "wb") as f:
            f.write(rng.randbytes(rng.choice([0, 1, 10, 511, 512, 513, 3000])))
        os.chmod(full, rng.choice([0o644, 0o755, 0o600, 0o4755, 0o444]))
        t = rng.choice([1, 1000000000, 1700000000.5, 1234567890.123456789, 0])
        os.utime(full, (t, t))
        files.append(p)
    # hard-link groups
    for _ in range(rng.choice([0, 0, 1, 2])):
        if not files:
            break
        src = rng.choice(files)
        for i in range(rng.choice([1, 1, 2, 3])):
            d = rng.choice(dirs)
            p = posixpath.join(d, "hl%d-%s" % (rng.randrange(100), posixpath.basename(src)))
            full = os.path.join(base, p)
            if not os.path.lexists(full):
                os.link(os.path.join(base, src), full)
                files.append(p)
    for _ in range(rng.choice([0, 1, 2, 3])):
        d = rng.choice(dirs)
        p = os.path.join(base, d, rng.choice(["link", "l2", "to-dir", "abs", "dangling"]))
        if os.path.lexists(p):
            continue
        tgt = rng.choice(files + dirs[1:] + ["nowhere", "/abs/path", "../up", "./same"]) if (files or dirs[1:]) else "nowhere"
        os.symlink(rng.choice([posixpath.basename(tgt) or "x", "/" + tgt.lstrip("/"), tgt]), p)
    if rng.random() < 0.3:
        p = os.path.join(base, rng.choice(dirs), "fifo")
        if not os.path.lexists(p):
            os.mkfifo(p)
    for d in dirs[1:]:
        if rng.random() < 0.5:
            os.chmod(os.path.join(base, d), rng.choice([0o755, 0o700, 0o1777]))
            t = rng.choice([5, 1600000000.25])
            os.utime(os.path.join(base, d), (t, t))


def mt(x):
    return repr(float(x))


def canon(o, data_id):
    """fs object -> model/JSON form; data_id maps bytes -> token"""
    base = [o.mode, o.uid, o.gid, mt(o.mtime)]
    if o.is_reg:
        d = o.data.bytes_fileobj().read()
        return ["file", o.location] + base + [o.dev, o.inode, data_id(d)]
    if o.is_dir:
        return ["dir", o.location] + base
    if o.is_sym:
        return ["sym", o.location, o.target] + base
    if o.is_fifo:
        return ["fifo", o.location] + base
    if o.is_dev:
        return ["dev", o.location] + base + [stat.S_ISCHR(o.mode), o.major, o.minor]
    return ["?", o.location]


def renumber(objs):
    """replace (dev, inode) by class ids in order of first appearance"""
    ids, out = {}, []
    for o in objs:
        o = list(o)
        if o[0] == "file":
            key = (o[6], o[7])
            if None in key:
                o[6], o[7] = None, None
            else:
                o[6], o[7] = 0, ids.setdefault(key, len(ids))
        out.append(o)
    return out


class SymlinkLoop(Exception):
    pass


def merged_locations(objs, hops=None):
    """independent oracle of a live merge: every entry goes into the directory its recorded parent resolves to in the target file
    system with all symlinks of the set in place (symlinks followed, '..' lexical), under its own name; the places of the symlinks
    themselves are computed as a fixpoint.  hops (optional dict) receives, per recorded location, how many symlinks were followed"""

    def final(nodes, loc, count=None):
        comps = loc.split("/")[1:]
        todo, cur, budget, n = list(comps[:-1]), "/", 64 * (len(comps) + 4), 0
        while todo:
            budget -= 1
            if budget < 0:
                raise SymlinkLoop()
            c = todo.pop(0)
            if c == "..":
                cur = posixpath.dirname(cur) or "/"
            elif c in ("", "."):
                continue
            else:
                nxt = posixpath.join(cur, c)
                t = nodes.get(nxt)
                if t is not None:
                    n += 1
                    if t.startswith("/"):
                        cur = "/"
                    todo = t.split("/") + todo
                else:
                    cur = nxt
        if count is not None:
            count[loc] = n
        return posixpath.join(cur, comps[-1])
    syms = sorted((o for o in objs if o[0] == "sym"), key=lambda o: o[1])
    nodes = {}
    for _ in range(len(syms) + 2):
        new = {}
        for o in syms:
            new[final(nodes, o[1])] = o[2]
        if new == nodes:
            break
        nodes = new
    return {o[1]: final(nodes, o[1], hops) for o in objs}


class Hang(Exception):
    pass


def watchdog(seconds, fn):
    """run fn(); Hang if it does not return in time (convert_archive loops forever on some symlink cycles)"""
    def on_alarm(signum, frame):
        raise Hang()
    old = signal.signal(signal.SIGALRM, on_alarm)
    signal.setitimer(signal.ITIMER_REAL, seconds)
    try:
        return fn()
    finally:
        signal.setitimer(signal.ITIMER_REAL, 0)
        signal.signal(signal.SIGALRM, old)


def below(objs, d):
    return [o for o in objs if o.location.startswith(d + "/")]


def alter_symlinks(rng, kind, objs, fs, mkfile):
    """replace directories of the scanned set by chains / nests of symlinked directories; returns the new list (or None)"""
    locs = {o.location for o in objs}
    dirs = sorted(o.location for o in objs if o.is_dir and below(objs, o.location))
    if not dirs:
        return None

    def sym(loc, tgt, like):
        return fs.fsSymlink(loc, tgt, mode=0o777, uid=0, gid=0, mtime=like.mtime)

    def entry(loc):
        return [o for o in objs if o.location == loc][0]

    if kind == "chain":
        d = rng.choice(dirs)
        par = posixpath.dirname(d)
        pool = [n for n in ["stable", "v2", "aaa", "zz-old", "legacy", "0cur", "Real", "m", "x", "c", "data"] if posixpath.join(par, n) not in locs]
        k = rng.choice([2, 2, 3])
        names = rng.sample(pool, k)
        hops = [d] + [posixpath.join(par, n) for n in names]
        out = [o for o in objs if o.location != d]
        for i in range(k):
            style = rng.choice(["base", "abs", "dot", "dotdot"])
            if style == "abs":
                tgt = hops[i + 1]
            elif style == "dot":
                tgt = "./" + names[i]
            elif style == "dotdot" and par != "/":
                tgt = "../" + posixpath.basename(par) + "/" + names[i]
            else:
                tgt = names[i]
            out.append(sym(hops[i], tgt, entry(d)))
        if rng.random() < 0.5:
            out.append(fs.fsDir(hops[-1], mode=0o755, uid=0, gid=0, mtime=entry(d).mtime))
        return out
    if kind in ("nest", "nestrec"):
        pairs = [(d, s) for d in dirs for s in dirs if posixpath.dirname(s) == d and d != "/"]
        if not pairs:
            return None
        d, sub = rng.choice(pairs)
        real = d + "-real"
        if real in locs:
            return None
        other = rng.choice([posixpath.basename(sub) + "-real", "/nest/target", "../" + posixpath.basename(sub) + ".d"])
        out = [o for o in objs if o.location not in (d, sub)]
        out.append(sym(d, rng.choice([posixpath.basename(real), real]), entry(d)))
        # the inner symlinked directory: recorded where it really is, or (nestrec) below the outer symlink
        inner = sub if kind == "nestrec" else posixpath.join(real, posixpath.basename(sub))
        out.append(sym(inner, other, entry(sub)))
        return out
    if kind == "dotdot":
        d = rng.choice(dirs)
        depth = d.count("/") - 1
        up = rng.randint(1, depth + 2)        # may climb beyond the root
        out = [o for o in objs if o.location != d]
        out.append(sym(d, "../" * up + "moved/" + posixpath.basename(d), entry(d)))
        return out
    if kind == "anclink":
        d = rng.choice(dirs)
        up = posixpath.join(d, "up")
        if up in locs:
            return None
        base = posixpath.basename(d)
        out = list(objs)
        out.append(sym(up, "..", entry(d)))
        out.append(mkfile(posixpath.join(up, base, "via-up"), b"via-up"))
        if rng.random() < 0.4:
            out.append(mkfile(posixpath.join(up, base, "up", base, "twice"), b"twice"))
        return out
    if kind == "cycle":
        cands = [(a, b) for a in dirs for b in dirs if a < b and not b.startswith(a + "/")]
        if not cands:
            return None
        a, b = rng.choice(cands)
        # symlinks recorded below the two make convert_archive raise its symlink-loop AssertionError (it used to loop forever)
        out = [o for o in objs if o.location not in (a, b)]
        out.append(sym(a, b, entry(a)))
        out.append(sym(b, rng.choice([a, posixpath.relpath(a, posixpath.dirname(b))]), entry(b)))
        return out
    return None


# hand-written archives that run first: (name, entries); ("d", loc) directory, ("s", loc, target) symlink, ("f", loc, data) file
CORPUS = [
    ("chain-current-stable-v2", [("d", "/opt"), ("d", "/opt/app"), ("s", "/opt/app/current", "stable"), ("s", "/opt/app/stable", "v2"),
                                 ("f", "/opt/app/current/tool", b"tool"), ("d", "/opt/app/current/share"), ("f", "/opt/app/current/share/doc.txt", b"doc"),
                                 ("d", "/opt/app/v2")]),
    ("chain-names-ascending", [("d", "/srv"), ("s", "/srv/m", "x"), ("s", "/srv/x", "c"), ("s", "/srv/c", "data"), ("f", "/srv/m/blob", b"blob")]),
    ("chain-names-descending", [("s", "/zz-old", "legacy"), ("s", "/legacy", "/v1"), ("f", "/zz-old/a", b"a"), ("f", "/zz-old/d/b", b"b")]),
    ("nest-real-place", [("s", "/usr/lib", "lib64"), ("s", "/usr/lib64/plug", "/opt/plug"), ("f", "/usr/lib/plug/p.so", b"p"), ("f", "/usr/lib/q.so", b"q"),
                         ("d", "/usr")]),
    ("dotdot-target", [("s", "/srv/app", "../opt/current"), ("s", "/opt/current", "stable"), ("s", "/opt/stable", "v2"), ("s", "/opt/v2/lib", "lib64"),
                       ("f", "/srv/app/lib/y.so", b"y"), ("f", "/opt/current/bin/tool", b"t"), ("d", "/opt/current/bin")]),
    ("dotdot-beyond-root", [("s", "/a/b", "../../../x/y"), ("f", "/a/b/f", b"f")]),
    ("nested-recorded-below-symlink", [("s", "/etc", "sub/inner"), ("s", "/etc/doc", "/real"), ("f", "/etc/doc/x", b"x")]),
    ("finding-order", [("s", "/p/a/b", "../z"), ("s", "/p/a/b/c", "tc"), ("s", "/q", "/p"), ("s", "/q/a", "/w")]),
    ("finding-order-with-file", [("s", "/m", "/n/o"), ("s", "/m/k", "../t"), ("f", "/m/k/j", b"j"), ("s", "/v", "/n"), ("s", "/v/o", "/w")]),
    ("finding-ancestor-link", [("s", "/l", "/d"), ("s", "/d/m", "/"), ("f", "/l/m/l/m/x", b"x")]),
    ("cycle-two-dirs", [("s", "/a", "b"), ("s", "/b", "a"), ("f", "/a/f", b"f")]),
    ("symlink-loop-rejected", [("s", "/a", "/a/x"), ("s", "/a/x", "foo")]),
]


def run(ctx):
    from pkgcore.fs import contents, fs, livefs, tar
    from pkgcore.fs._tar import tarfile as ptar
    from snakeoil.data_source import data_source

    rng = ctx.rng
    root = os.path.realpath(tempfile.mkdtemp(prefix="verif-c25-"))
    tokens = {}

    def data_id(b):
        return tokens.setdefault(bytes(b), len(tokens) + 1)

    def mkfile(loc, data):
        return fs.fsFile(loc, strict=False, data=data_source(data), chksums={"size": len(data)}, mode=0o644, uid=0, gid=0, mtime=5.0)

    def read_back(path, comp):
        if comp is None:
            th = ptar.TarFile(name=path, mode="r")
            return list(tar.convert_archive(th))
        return list(tar.generate_contents(path, compressor=comp))

    def write(cs, path, comp):
        if comp is None:
            th = ptar.TarFile(name=path, mode="w")
            try:
                tar.add_contents_to_tarfile(cs, th)
            finally:
                th.close()
        else:
            tar.write_set(cs, path, compressor=comp)

    def members_of(path, comp):
        mode = {"bzip2": "r:bz2", "xz": "r:xz", None: "r:"}[comp]
        out = []
        with std_tarfile.open(path, mode) as t:
            for m in t:
                typ = {std_tarfile.REGTYPE: "reg", std_tarfile.AREGTYPE: "reg", std_tarfile.LNKTYPE: "lnk", std_tarfile.DIRTYPE: "dir", std_tarfile.SYMTYPE: "sym",
                       std_tarfile.FIFOTYPE: "fifo", std_tarfile.CHRTYPE: "chr", std_tarfile.BLKTYPE: "blk"}.get(m.type, "?")
                data = None
                if typ == "reg":
                    data = data_id(t.extractfile(m).read())
                dev = typ in ("chr", "blk")
                out.append([typ, m.name, m.linkname if typ in ("lnk", "sym") else "", m.mode, m.uid, m.gid, mt(m.mtime),
                            m.devmajor if dev else 0, m.devminor if dev else 0, data])
        return out

    reqs, meta = [], []

    def process(objs, alter, idx, comp, limit):
        """write the set, read it back under a watchdog, queue the model requests"""
        cs2 = contents.contentsSet(objs)
        path = os.path.join(root, "a%d.tar" % idx)
        inp = [canon(o, data_id) for o in cs2]
        case = {"alter": alter, "compressor": comp, "set": inp}
        mem = got = err = None
        try:
            write(cs2, path, comp)
            mem = members_of(path, comp)
            got = [canon(o, data_id) for o in watchdog(limit, lambda: read_back(path, comp))]
        except Hang:
            err = "hang"
        except AssertionError as e:
            if "symlink loop" not in str(e):
                mem, got = None, None
            err = "symlink-loop" if "symlink loop" in str(e) else f"AssertionError: {e}"
        except Exception as e:
            mem, got, err = None, None, f"{type(e).__name__}: {e}"
        reqs.append({"cmd": "c25.write", "set": inp})
        reqs.append({"cmd": "c25.read", "members": mem if mem is not None else [], "c": 1000})
        reqs.append({"cmd": "c25.merged", "set": inp})
        reqs.append({"cmd": "c25.resolve", "set": inp})
        meta.append((case, alter, inp, mem, got, err))
        os.path.exists(path) and os.unlink(path)

    try:
        # --- corpus first
        for ci, (name, entries) in enumerate(CORPUS):
            objs = []
            for e in entries:
                if e[0] == "d":
                    objs.append(fs.fsDir(e[1], mode=0o755, uid=0, gid=0, mtime=3.0))
                elif e[0] == "s":
                    objs.append(fs.fsSymlink(e[1], e[2], mode=0o777, uid=0, gid=0, mtime=4.0))
                else:
                    objs.append(mkfile(e[1], e[2]))
            process(objs, "corpus:" + name, 100000 + ci, None, 20.0)
        ncases = ctx.n(440, 9000)
        xz_left = ctx.n(4, 80)
        for idx in range(ncases):
            base = os.path.join(root, "t%d" % idx)
            gen_tree(rng, base)
            cs = livefs.scan(base, offset=base, chksum_types=("size",))
            objs = [o for o in cs if o.location != "/"]
            alter = rng.choice(["none", "none", "symdir", "symdir", "dropdir", "dev", "chown", "nodev", "modegroup", "empty",
                                "chain", "chain", "nest", "nestrec", "dotdot", "anclink", "cycle"])
            if alter == "empty":
                objs = []
            elif alter in ("chain", "nest", "nestrec", "dotdot", "anclink", "cycle"):
                new = alter_symlinks(rng, alter, objs, fs, mkfile)
                if new is None:
                    alter = "none"
                else:
                    objs = new
            elif alter == "symdir":
                dirs = sorted(o.location for o in objs if o.is_dir and any(x.location.startswith(o.location + "/") for x in objs))
                for _ in range(rng.choice([1, 1, 2])):
                    if not dirs:
                        break
                    d = rng.choice(dirs)
                    dirs.remove(d)
                    old = [o for o in objs if o.location == d][0]
                    others = [x for x in dirs if x != d and not x.startswith(d + "/") and not d.startswith(x + "/")]
                    tgt = rng.choice([posixpath.basename(d) + "-real", "/" + "real" + d.replace("/", "_"), "../moved/" + posixpath.basename(d), "sub/inner"]
                                     + ([rng.choice(others) + "/via"] if others else []))     # a target that itself passes through another (possibly symlinked) directory
                    objs = [o for o in objs if o.location != d] + [fs.fsSymlink(d, tgt, mode=0o777, uid=0, gid=0, mtime=old.mtime)]
            elif alter == "dropdir":
                dirs = [o for o in objs if o.is_dir]
                if dirs:
                    victim = rng.choice(dirs)
                    objs = [o for o in objs if o is not victim]
            elif alter == "dev":
                objs.append(fs.fsDev("/dev-null", major=1, minor=3, mode=stat.S_IFCHR | 0o666, uid=0, gid=0, mtime=7.0))
                objs.append(fs.fsDev("/blk", major=8, minor=1, mode=stat.S_IFBLK | 0o660, uid=0, gid=6, mtime=8.0))
            elif alter == "chown":
                objs = [o.change_attributes(uid=rng.choice([0, 1000, 65534]), gid=rng.choice([0, 100])) if rng.random() < 0.5 else o for o in objs]
            elif alter == "nodev":
                objs = [fs.fsFile(o.location, strict=False, data=o.data, chksums={"size": o.chksums["size"]}, mode=o.mode, uid=o.uid, gid=o.gid, mtime=o.mtime)
                        if o.is_reg else o for o in objs]
            elif alter == "modegroup":
                groups = {}
                for o in objs:
                    if o.is_reg:
                        groups.setdefault((o.dev, o.inode), []).append(o)
                multi = [g for g in groups.values() if len(g) > 1]
                if multi:
                    victim = rng.choice(rng.choice(multi))
                    objs = [o.change_attributes(mode=0o700) if o is victim else o for o in objs]
            rng.shuffle(objs)
            comp = rng.choice(["bzip2"] * 9 + [None] * 9 + ["xz"])      # xz at preset 9 costs 0.2 s per archive (seconds on a loaded machine)
            if comp == "xz":
                if xz_left == 0:
                    comp = "bzip2"
                else:
                    xz_left -= 1
            process(objs, alter, idx, comp, 30.0)
            shutil.rmtree(base, ignore_errors=True)
        # zero-member streams
        import bz2
        import lzma
        for comp, blob in (("bzip2", bz2.compress(b"")), ("xz", lzma.compress(b"")), ("xz", b"")):
            p = os.path.join(root, "empty")
            with open(p, "wb") as f:
                f.write(blob)
            case = {"empty_stream": comp, "bytes": len(blob)}
            ctx.case(case, True)
            try:
                r = list(tar.generate_contents(p, compressor=comp))
                if r:
                    ctx.violation(case, f"an archive without members reads as {r}")
            except Exception as e:
                ctx.violation(case, f"an archive without members raised {type(e).__name__}: {e}")

        replies = ctx.model(reqs)
        for i, (case, alter, inp, mem, got, err) in enumerate(meta):
            mwrite, mread, mmerged, mres = replies[4 * i], replies[4 * i + 1], replies[4 * i + 2], replies[4 * i + 3]
            files = [o for o in inp if o[0] == "file"]
            groups = {}
            for o in files:
                if o[6] is not None and o[7] is not None:
                    groups.setdefault((o[6], o[7]) + tuple(o[2:6]), []).append(o[1])
            has_group = any(len(g) > 1 for g in groups.values())
            syms = {o[1] for o in inp if o[0] == "sym"}
            below_sym = [o for o in inp if any(o[1].startswith(s + "/") for s in syms)]
            sym_below_sym = any(o[0] == "sym" for o in below_sym)
            ctx.case(case, len(inp) >= 5 and (has_group or bool(below_sym)), key=repr(case))
            ctx.count("alter_" + alter.split(":")[0])
            ctx.count("compressor_%s" % case["compressor"])
            ctx.count("entries_%d" % min(len(inp), 12))
            if has_group:
                ctx.count("with_hardlink_group")
            if below_sym:
                ctx.count("with_entries_below_symlink")
            if sym_below_sym:
                ctx.count("with_symlink_recorded_below_symlink")
            for o in inp:
                ctx.count("kind_" + o[0])
            if err == "hang":
                ctx.violation(case, "convert_archive did not return within the watchdog limit (every loop of it is bounded: it must return or raise)")
                continue
            if err == "symlink-loop":
                # malformed archive (symlinks recorded below a symlink cycle): the code must reject it exactly when the model does
                ctx.count("symlink_loop_rejected")
                if mwrite != mem:
                    ctx.mismatch(case, f"members in the archive {str(mem)[:300]} differ from the model's {str(mwrite)[:300]}")
                if mread != "symlink-loop":
                    ctx.mismatch(case, "convert_archive raised its symlink-loop AssertionError, the model resolves the archive")
                try:
                    merged_locations(inp)
                    ctx.violation(case, "convert_archive rejects as a symlink loop an archive that a live merge resolves")
                except SymlinkLoop:
                    pass
                continue
            if err is not None:
                ctx.violation(case, f"writing/reading the tarball raised {err}")
                continue
            # --- edge A
            if mwrite != mem:
                ctx.mismatch(case, f"members in the archive {str(mem)[:300]} differ from the model's {str(mwrite)[:300]}")
            recorded_mtimes = {o[5] for o in inp if o[0] == "dir"}
            def norm_dirs(objs, known):
                # a synthesised directory carries the time of the conversion ('' in the model): it is recognised by its location not
                # being a member, or — when a recorded directory of that name was relocated away through a symlink and the name is
                # synthesised again — by a time stamp that no recorded directory has
                return [(o[:5] + [""] if o[0] == "dir" and (o[1] not in known or o[5] not in recorded_mtimes) else o) for o in objs]
            member_dirs = {posixpath.normpath("/" + m[1].strip("/")) for m in (mem or []) if m[0] == "dir"}
            if mread in ("raise", "symlink-loop"):
                ctx.mismatch(case, f"the model raises ({mread}) on the archive, the code read it")
                continue
            got_n = renumber(norm_dirs(got, member_dirs))
            model_n = renumber(norm_dirs(mread["ok"], member_dirs))
            if got_n != model_n:
                ctx.mismatch(case, f"convert_archive result differs from the model: first difference "
                             f"{next(((a, b) for a, b in zip(got_n, model_n) if a != b), (len(got_n), len(model_n)))}")
            # --- the relocation theorems, evaluated on the real result whenever their hypotheses hold for the set
            gotd = {o[1]: o for o in got}
            if mres["relocatable"]:
                ctx.count("relocation_theorem_hypotheses_hold")
                placed = {a: b for a, b in mres["placed"]}
                if any(a != b for a, b in placed.items()):
                    ctx.count("relocation_theorem_with_moved_entries")
                problems = []
                for o in inp:
                    g = gotd.get(placed[o[1]])
                    same = g is not None and ([g[0]] + g[2:6] + [g[8]] == [o[0]] + o[2:6] + [o[8]] if o[0] == "file" else [g[0]] + g[2:] == [o[0]] + o[2:])
                    if not same:
                        problems.append(f"convert_relocates: {o[1]!r} expected at {placed[o[1]]!r}, found {g}")
                final_locs = set(placed.values())
                want_dirs = set()       # the specification climbs all the way to the root from every entry
                for loc in final_locs:
                    a = posixpath.dirname(loc)
                    while a not in ("/", ""):
                        if a not in final_locs:
                            want_dirs.add(a)
                        a = posixpath.dirname(a)
                extra = {g[1]: g for g in got if g[1] not in final_locs}
                if set(extra) != want_dirs or any(g[0] != "dir" for g in extra.values()) or len(got) != len(final_locs) + len(want_dirs):
                    problems.append(f"convert_adds_missing_dirs: created {sorted(extra)}, missing ancestors are {sorted(want_dirs)}")
                rsyms = [g[1] for g in got if g[0] == "sym"]
                if any(g[1].startswith(s + "/") for g in got for s in rsyms):
                    problems.append("fixpoint: an entry of the result lies below a symlink of the result")
                kinds = [0 if g[0] == "dir" else 2 if g[0] == "file" else 1 for g in got]
                if kinds != sorted(kinds) or any(a[1] > b[1] for a, b in zip(got, got[1:]) if a[0] == b[0] == "dir") or \
                        any(a[1] > b[1] for a, b in zip(got, got[1:]) if a[0] not in ("dir", "file") and b[0] not in ("dir", "file")):
                    problems.append("convert_order: the result is not directories / others / files, each group sorted")
                if problems:
                    ctx.mismatch(case, "the real convert_archive result contradicts a proved theorem although it equals the model's: " + "; ".join(problems[:3]))
            # --- edge C: the property
            hops = {}
            try:
                merged = merged_locations(inp, hops)
            except SymlinkLoop:
                merged = None
            if (mmerged == "loop") != (merged is None) or (merged is not None and {m[0]: m[1] for m in mmerged} != merged):
                ctx.mismatch(case, "Lean Spec.mergedLocs disagrees with the harness' live-merge oracle")
            if merged is None:
                ctx.count("symlink_loop_skipped")
                continue
            finals = list(merged.values())
            if len(set(finals)) != len(finals):
                ctx.count("relocation_collision_skipped")
                continue
            # known classes in which the code's relocation differs from a live merge (open findings)
            known = None
            if sym_below_sym:
                known = FINDING_ORDER
            elif hops and max(hops.values()) > len(syms):
                known = FINDING_DEPTH
            if mres["relocatable"] and {a: b for a, b in mres["placed"]} != merged:
                ctx.count("resolveDir_differs_from_live_merge")
            for o in inp:
                want_loc = merged[o[1]]
                g = gotd.get(want_loc)
                if g is None:
                    ctx.violation(case, f"entry {o[1]!r} (expected at {want_loc!r}) is missing after the round trip", finding=known)
                    break
                if o[0] == "file":
                    if [g[0]] + g[2:6] + [g[8]] != [o[0]] + o[2:6] + [o[8]]:
                        ctx.violation(case, f"file {o[1]!r} came back as {g} instead of {o}", finding=known)
                        break
                elif [g[0]] + g[2:] != [o[0]] + o[2:]:
                    ctx.violation(case, f"entry {o[1]!r} came back as {g} instead of {o}", finding=known)
                    break
            else:
                extra = [g for g in got if g[1] not in set(finals)]
                if any(g[0] != "dir" for g in extra):
                    ctx.violation(case, f"entries appeared that were not in the set: {[g for g in extra if g[0] != 'dir'][:3]}", finding=known)
                # hard links: same inode afterwards iff same (dev, inode) and link-compatible before
                bykey = {}
                for o in files:
                    if o[6] is not None and o[7] is not None:
                        bykey.setdefault((o[6], o[7]), set()).add(tuple(o[2:6]))
                inconsistent = {k for k, v in bykey.items() if len(v) > 1}      # same inode, different owner/mode/mtime: not a real hard-link group
                if inconsistent:
                    ctx.count("inconsistent_inode_group")
                fl = [(o, gotd[merged[o[1]]]) for o in files if (o[6], o[7]) not in inconsistent]
                for a in range(len(fl)):
                    for b in range(a + 1, len(fl)):
                        (o1, g1), (o2, g2) = fl[a], fl[b]
                        before = o1[6] is not None and o1[7] is not None and o1[6:8] == o2[6:8] and o1[2:6] == o2[2:6]
                        after = (g1[6], g1[7]) == (g2[6], g2[7])
                        if before != after:
                            ctx.violation(case, f"{o1[1]!r} and {o2[1]!r} were {'hard links' if before else 'separate files'} and are "
                                          f"{'sharing an inode' if after else 'separate'} after the round trip")
                            break
                    else:
                        continue
                    break
    finally:
        shutil.rmtree(root, ignore_errors=True)


LEVEL_TEXT = ("Kernel-checked Lean 4 theorems about a model of fs/tar.py over member lists: every entry converts to a TarInfo and back unchanged "
              "(member_roundtrip); the writer stores the first name of each (dev, inode) class with its data and every later link-compatible name as a "
              "hard link to it (write_links_to_first); the reader gives a hard link the inode and data of the member it names, also through chains "
              "x→y→z (hardlink_chain); composed: every entry comes back with its attributes and data and hard links still share an inode "
              "(tar_roundtrip_files), and two different names share an inode afterwards iff they shared (dev, inode) and were link-compatible before "
              "(tar_roundtrip_inodes_iff); an archive without members is the empty set (empty_archive_empty). convert_archive: for every archive "
              "without a symlink recorded below another symlink whose resolution chains are no longer than its number of symlinks (no cycle) and "
              "collision free, every entry ends at resolveDir of its recorded path (a specification stated without the code's loops: chains "
              "current→stable→v2, nests, relative '..' targets), nothing is lost or duplicated, untouched entries stay, and no entry of the result lies "
              "below a symlink of the result (convert_relocates_partial); add_missing_directories creates exactly the missing proper ancestors, for any "
              "set (missing_dirs_exact, convert_adds_missing_dirs_partial); the result is ordered directories / others / files-in-archive-order for "
              "every archive (convert_order); convert_plain (nothing below a symlink ⇒ only reordering); normalised absolute locations satisfy the "
              "path hypotheses PathOK and LocNorm of all these theorems (pathok_normalised). Outside the guard the full statement is false "
              "of the code: convert_relocates_counterexample (order dependence with symlinks recorded below symlinks), convert_passes_counterexample "
              "(len(syms)+1 passes too few with a symlink to an ancestor) — two open findings; symlinks recorded below a symlink cycle made the code "
              "loop forever, since the fix every loop is bounded and the archive is rejected (convert_terminates, convert_cycle_rejected). The "
              "hypotheses are evaluated by the Lean driver on every sampled set (relocatable_of_check) and the theorems' conclusions are then checked "
              "on the real convert_archive result; the tar byte format and compression are covered by the differential run (members re-read with the "
              "stdlib tarfile; results compared with the executable model and with an independent live-merge oracle).")
LEVEL_NOTE = ("Partial where named _partial: the relocation theorem needs 'no symlink entry below a symlink entry' (the code is order dependent "
              "otherwise: open finding) and 'resolution no longer than the number of symlinks'; trusted: Lean kernel, standard axioms, the tarfile "
              "contract, path primitives (normpath, dirname, the prefix test and offset rewrite of contentsSet) as re-expressed.")
