"""C02 — equality, ordering and hashing of package versions (CPV) and atoms agree."""
import copy
import itertools
import operator
import string

PID = "C02"
LEAN_MODULES = ["Pkgcore.Props.C02"]
OBLIGATIONS = [
    "Pkgcore.C02.cpv_richcmp_from_order",
    "Pkgcore.C02.cpv_eq_iff_canon",
    "Pkgcore.C02.cpv_eq_hash",
    "Pkgcore.C02.cpvOrd_total_order",
    "Pkgcore.C02.cpv_consistent",
    "Pkgcore.C02.cpv_trichotomy",
    "Pkgcore.C02.atom_richcmp_from_order",
    "Pkgcore.C02.atom_eq_iff_canon",
    "Pkgcore.C02.atom_eq_hash",
    "Pkgcore.C02.atom_use_order_irrelevant",
    "Pkgcore.C02.atomOrd_total_order",
    "Pkgcore.C02.atom_consistent",
    "Pkgcore.C02.atom_trichotomy",
]
TRUSTED = [
    "objects are modelled by the attributes the comparison methods read (category, package, lexed version, revision text, op, blocker flags, "
    "slot, sub-slot, slot operator, written USE deps, repo id); the parsing that produces them (CPV.__init__, atom.__init__) is exercised but not "
    "modelled here: every generated object is rendered to text, parsed by the real constructor and its attributes are compared with the model input",
    "CPython hash(): only the value passed to hash() is modelled (equal values => equal hashes is a CPython guarantee for tuples/str/int/bool/None)",
    "CPV.cpvstr equality is modelled as equality of (category, package, version text, integer revision): rendering is injective on valid CPVs",
    "Python str/tuple ordering = code-point lexicographic = Lean `compare` on List Char / List (List Char)",
]
ASSUMPTIONS = [
    "objects of the domain come into being through the constructors, copy/deepcopy, or pickle (in-process or written by another interpreter with a "
    "different string-hash seed); each of these must give objects interchangeable with freshly parsed ones — checked on the real code, not modelled in Lean "
    "(the model's hashed value is a function of the compared attributes; a hash carried over from elsewhere breaks the correspondence and is reported)",
    "CPV pairs are both versioned or both unversioned: ordering a versioned against an unversioned CPV raises TypeError (checked: model and code agree on "
    "that, and on == being False), which is outside 'package versions'",
    "comparison operands are atoms/CPVs; atom.__cmp__ with a non-atom raises TypeError by design, atom == non-atom is False",
    "versions are valid (isvalid_version_re) — the constructors reject anything else",
]
RULE = ("ordered pairs of CPVs / atoms over category/package pools of 2-3 names; the second object is (40%) a PMS-equal respelling of the first "
        "(leading zeros on the first component, extra trailing zeros on a leading-zero component, suffix number ''/'0'/'00', -r0/-r00/-r01, permuted "
        "USE deps), (40%) a copy differing in exactly one attribute (category, package, version, revision, op, !/!!, negate_vers, slot, sub-slot, slot "
        "operator, USE deps, repo), (20%) independent; non-trivial = the two rendered texts (plus negate_vers flag) differ and category and package agree")

SUFS = ["alpha", "beta", "pre", "rc", "p"]
CATS = ["a", "a-b", "b"]
PKGS = ["b", "bb", "b-c"]
OPS = ["", "<", "<=", "=", "=*", ">=", ">", "~"]
# slot / sub-slot names as the tree really uses them (small numbers, dotted "version" slots, words, mixed case, the odd punctuation) — every valid
# spelling class of PMS 3.1.3: [A-Za-z0-9+_][A-Za-z0-9+_.-]*
SLOT_POOL = ["0", "1", "2", "3", "10", "01", "0.9", "1.2", "2.7", "3.11", "1.2.3", "a_b", "stable", "Stable", "live", "LIVE", "2a", "2A",
             "5.1-LTS", "5.1-lts", "+x", "_", "0-1"]
SLOT_HEAD = "abzABZ0129+_"
SLOT_TAIL = SLOT_HEAD + ".-"
FLAGS = ["x", "y", "z", "foo"]
REPOS = [None, "gentoo", "r-1"]


# ---------------------------------------------------------------- version structures (same shape as C01)

def render_ver(v):
    s = ".".join(v["comps"]) + (v["letter"] or "")
    for n, d in v["sufs"]:
        s += "_" + n + d
    return s


def gen_comp(rng):
    k = rng.random()
    if k < 0.3:
        return rng.choice(["0", "1", "2", "9", "10"])
    if k < 0.55:
        return "0" * rng.randint(1, 2) + rng.choice(["", "1", "10", "5", "50"])
    if k < 0.8:
        return rng.choice(["1", "2", "12"]) + "0" * rng.randint(0, 2)
    if k < 0.95:
        return str(rng.randint(0, 30))
    return str(rng.randint(10 ** 15, 10 ** 20))


def gen_ver(rng):
    comps = [gen_comp(rng) for _ in range(rng.choice([1, 1, 2, 2, 3]))]
    letter = rng.choice([None, None, None, "a", "b"])
    sufs = [[rng.choice(SUFS), rng.choice(["", "", "0", "1", "2", "01"])] for _ in range(rng.choice([0, 0, 0, 1, 1, 2]))]
    return {"comps": comps, "letter": letter, "sufs": sufs}


def mutate_ver(rng, v):
    v = copy.deepcopy(v)
    k = rng.randrange(7)
    if k == 0:
        i = rng.randrange(len(v["comps"]))
        v["comps"][i] = gen_comp(rng)
    elif k == 1:
        i = rng.randrange(len(v["comps"]))
        v["comps"][i] = v["comps"][i] + "0"
    elif k == 2:
        v["comps"].append(gen_comp(rng))
    elif k == 3 and len(v["comps"]) > 1:
        v["comps"].pop()
    elif k == 4:
        v["letter"] = rng.choice([None, "a", "b", "z"])
    elif k == 5:
        v["sufs"].append([rng.choice(SUFS), rng.choice(["", "0", "1"])])
    elif v["sufs"]:
        i = rng.randrange(len(v["sufs"]))
        v["sufs"][i] = [rng.choice(SUFS), rng.choice(["", "0", "1", "2"])]
    else:
        v["comps"][0] = str(int(v["comps"][0]) + 1)
    return v


def respell(rng, v, rev, keep_rev=False):
    """a different spelling of the same PMS value (may return the input unchanged when nothing applies)"""
    v = copy.deepcopy(v)
    for _ in range(rng.choice([1, 1, 2])):
        k = rng.randrange(4)
        if k == 0:
            v["comps"][0] = "0" * rng.randint(1, 2) + v["comps"][0]
        elif k == 1:
            idx = [i for i in range(1, len(v["comps"])) if v["comps"][i][0] == "0"]
            if idx:
                i = rng.choice(idx)
                v["comps"][i] += "0" * rng.randint(1, 2)
            else:
                v["comps"][0] = "0" + v["comps"][0]
        elif k == 2 and v["sufs"]:
            i = rng.randrange(len(v["sufs"]))
            n = v["sufs"][i][1]
            v["sufs"][i][1] = {"": "0", "0": rng.choice(["", "00"])}.get(n, "0" + n)
        elif not keep_rev:
            rev = {"": rng.choice(["0", "00"]), "0": rng.choice(["", "00"])}.get(rev, "0" + rev)
        else:
            v["comps"][0] = "0" + v["comps"][0]
    return v, rev


REVS = ["", "", "", "0", "1", "01", "2", "10"]

# ---------------------------------------------------------------- CPVs


def gen_cpv(rng):
    c = {"cat": rng.choice(CATS), "pkg": rng.choice(PKGS), "ver": None, "rev": None}
    if rng.random() < 0.9:
        c["ver"] = gen_ver(rng)
        c["rev"] = rng.choice(REVS)
    return c


def cpv_text(c):
    s = f"{c['cat']}/{c['pkg']}"
    if c["ver"] is not None:
        s += "-" + render_ver(c["ver"]) + ("-r" + c["rev"] if c["rev"] != "" else "")
    return s


def vary_cpv(rng, a):
    """(b, relation)"""
    k = rng.random()
    b = copy.deepcopy(a)
    if k < 0.4 and a["ver"] is not None:
        b["ver"], b["rev"] = respell(rng, a["ver"], a["rev"])
        return b, "respelled"
    if k < 0.8:
        f = rng.choice(["cat", "pkg", "ver", "ver", "rev", "rev"])
        if f in ("cat", "pkg") or a["ver"] is None:
            f = f if f in ("cat", "pkg") else "pkg"
            b[f] = rng.choice([x for x in (CATS if f == "cat" else PKGS) if x != a[f]])
        elif f == "ver":
            b["ver"] = mutate_ver(rng, a["ver"])
        else:
            b["rev"] = rng.choice([r for r in REVS if r != a["rev"]])
        return b, "one:" + f
    return gen_cpv(rng), "random"


def build_cpv(rng, cpvmod, c):
    """construct through the public API, alternating between the call forms"""
    if c["ver"] is None:
        return cpvmod.UnversionedCPV(c["cat"], c["pkg"]) if rng.random() < 0.5 else cpvmod.CPV(cpv_text(c), versioned=False)
    full = render_ver(c["ver"]) + ("-r" + c["rev"] if c["rev"] != "" else "")
    k = rng.randrange(3)
    if k == 0:
        return cpvmod.VersionedCPV(cpv_text(c))
    if k == 1:
        return cpvmod.CPV(c["cat"], c["pkg"], full, versioned=True)
    return cpvmod.CPV.versioned(cpv_text(c))


# ---------------------------------------------------------------- atoms

def gen_use(rng):
    if rng.random() < 0.55:
        return None
    out = []
    for f in rng.sample(FLAGS, rng.randint(1, 3)):
        k = rng.random()
        d = rng.choice(["", "", "(+)", "(-)"])
        if k < 0.4:
            out.append(f + d)
        elif k < 0.75:
            out.append("-" + f + d)
        elif k < 0.85:
            out.append(f + d + "?")
        elif k < 0.92:
            out.append("!" + f + d + "?")
        else:
            out.append(rng.choice(["", "!"]) + f + d + "=")
    if rng.random() < 0.1:
        out.append(out[0])          # duplicates are legal text and are kept by tuple(sorted(...))
    return out


SLOT_OK_HEAD = frozenset(string.ascii_letters + string.digits + "+_")
SLOT_OK_TAIL = SLOT_OK_HEAD | frozenset(".-")


def valid_slot_name(s):
    return bool(s) and s[0] in SLOT_OK_HEAD and all(c in SLOT_OK_TAIL for c in s)


def gen_slot_name(rng):
    k = rng.random()
    if k < 0.55:
        return rng.choice(SLOT_POOL)
    if k < 0.7:
        return str(rng.choice([rng.randint(0, 12), rng.randint(0, 120)]))
    if k < 0.85:
        return ".".join(str(rng.randint(0, 12)) for _ in range(rng.randint(2, 3)))
    return rng.choice(SLOT_HEAD) + "".join(rng.choice(SLOT_TAIL) for _ in range(rng.randint(0, 4)))


def near_slot_name(rng, s):
    """a different valid name close to s: other letter case, a numeric neighbour, one more / one less dotted component, a leading zero, one character
    added, dropped or replaced"""
    for _ in range(50):
        k = rng.randrange(9)
        t = s
        if k == 0:
            t = s.swapcase()
        elif k == 1:
            i = rng.randrange(len(s))
            t = s[:i] + s[i].swapcase() + s[i + 1:]
        elif k == 2 and s.isdigit():
            t = rng.choice([str(int(s) + 1), str(max(int(s) - 1, 0)), s + "0", "0" + s, str(int(s) * 10 + rng.randint(0, 9))])
        elif k == 3 and s.isdigit():
            t = rng.choice([s, str(max(int(s) - 1, 0)), str(int(s) + 1)]) + "." + str(rng.randint(0, 11))
        elif k == 4 and "." in s:
            head, _, rest = s.partition(".")
            t = rng.choice([head, s.rpartition(".")[0], (str(int(head) + 1) if head.isdigit() else head + "1"),
                            (str(int(head) + 1) + "." + rest if head.isdigit() else rest)])
        elif k == 5:
            t = s + rng.choice(SLOT_TAIL)
        elif k == 6 and len(s) > 1:
            t = s[:-1] if rng.random() < 0.5 else s[1:]
        elif k == 7:
            i = rng.randrange(len(s))
            t = s[:i] + rng.choice(SLOT_TAIL) + s[i + 1:]
        elif k == 8:
            t = s + rng.choice([".0", "a", "-r1", "_p"])
        if t != s and valid_slot_name(t):
            return t
    return s + "_"


def other_slot_name(rng, cur, allow_none=True):
    """a slot / sub-slot name (or None) different from `cur`"""
    for _ in range(50):
        k = rng.random()
        if cur is not None and k < 0.45:
            t = near_slot_name(rng, cur)
        elif allow_none and k < 0.55:
            t = None
        else:
            t = gen_slot_name(rng)
        if t != cur:
            return t
    return "0" if cur != "0" else "1"


def gen_atom(rng):
    a = {"cat": rng.choice(CATS), "pkg": rng.choice(PKGS), "op": rng.choice(OPS), "ver": None, "rev": None,
         "blocks": False, "strong": False, "negate": False, "slot": None, "subslot": None, "slotop": None, "use": None, "repo": None}
    if a["op"]:
        a["ver"] = gen_ver(rng)
        a["rev"] = "" if a["op"] == "~" else rng.choice(REVS)
    k = rng.random()
    if k < 0.2:
        a["blocks"] = True
    elif k < 0.35:
        a["blocks"] = a["strong"] = True
    a["negate"] = rng.random() < 0.1
    k = rng.random()
    if k < 0.35:
        a["slot"] = gen_slot_name(rng)
        if rng.random() < 0.4:
            a["subslot"] = gen_slot_name(rng)
        if rng.random() < 0.3:
            a["slotop"] = "="
    elif k < 0.45:
        a["slotop"] = rng.choice(["=", "*"])
    a["use"] = gen_use(rng)
    a["repo"] = rng.choice(REPOS) if rng.random() < 0.3 else None
    return a


def atom_text(a):
    cpv = f"{a['cat']}/{a['pkg']}"
    if a["op"]:
        cpv += "-" + render_ver(a["ver"]) + ("-r" + a["rev"] if a["rev"] != "" else "")
    s = ("=" + cpv + "*") if a["op"] == "=*" else a["op"] + cpv
    s = ("!!" if a["strong"] else "!" if a["blocks"] else "") + s
    if a["slot"]:
        s += ":" + a["slot"] + ("/" + a["subslot"] if a["subslot"] else "") + ("=" if a["slotop"] == "=" else "")
    elif a["slotop"]:
        s += ":" + a["slotop"]
    if a["repo"]:
        s += "::" + a["repo"]
    if a["use"] is not None:
        s += "[" + ",".join(a["use"]) + "]"
    return s


def vary_atom(rng, a):
    b = copy.deepcopy(a)
    k = rng.random()
    if k < 0.4:
        what = []
        if a["op"]:
            b["ver"], b["rev"] = respell(rng, a["ver"], a["rev"], keep_rev=(a["op"] == "~"))
            what.append("ver")
        if a["use"] and len(a["use"]) > 1 and rng.random() < 0.7:
            rng.shuffle(b["use"])
            what.append("use")
        return b, "respelled" if what else "identical"
    if k < 0.8:
        f = rng.choice(["cat", "pkg", "ver", "rev", "op", "blocker", "negate", "slot", "subslot", "slotop", "use", "repo"])
        if f in ("cat", "pkg"):
            b[f] = rng.choice([x for x in (CATS if f == "cat" else PKGS) if x != a[f]])
        elif f == "ver" and a["op"]:
            b["ver"] = mutate_ver(rng, a["ver"])
        elif f == "rev" and a["op"] and a["op"] != "~":
            b["rev"] = rng.choice([r for r in REVS if r != a["rev"]])
        elif f == "op" and a["op"]:
            b["op"] = rng.choice([o for o in OPS if o and o != a["op"]])
            if b["op"] == "~":
                b["rev"] = ""
        elif f == "blocker":
            cur = (a["blocks"], a["strong"])
            b["blocks"], b["strong"] = rng.choice([x for x in [(False, False), (True, False), (True, True)] if x != cur])
        elif f == "negate":
            b["negate"] = not a["negate"]
        elif f == "slot":
            b["slot"] = other_slot_name(rng, a["slot"])
            if b["slot"] is None:
                b["subslot"] = None
            elif b["slotop"] == "*":
                b["slotop"] = None
        elif f == "subslot" and a["slot"]:
            b["subslot"] = other_slot_name(rng, a["subslot"])
        elif f == "slotop":
            opts = [None, "="] if a["slot"] else [None, "=", "*"]
            b["slotop"] = rng.choice([x for x in opts if x != a["slotop"]])
        elif f == "use":
            b["use"] = gen_use(rng)
        elif f == "repo":
            b["repo"] = rng.choice([x for x in REPOS if x != a["repo"]])
        else:
            b["negate"] = not a["negate"]
            f = "negate"
        return b, "one:" + f
    return gen_atom(rng), "random"


def A(cat="a", pkg="b", op="", ver=None, rev=None, blocks=False, strong=False, negate=False, slot=None, subslot=None, slotop=None, use=None, repo=None):
    if isinstance(ver, str):
        ver = parse_ver(ver)
    if op and rev is None:
        rev = ""
    return dict(cat=cat, pkg=pkg, op=op, ver=ver, rev=rev, blocks=blocks, strong=strong, negate=negate, slot=slot, subslot=subslot, slotop=slotop, use=use, repo=repo)


def parse_ver(s):
    import re
    parts = s.split("_")
    comps = parts[0].split(".")
    letter = None
    if comps[-1][-1].isalpha():
        letter = comps[-1][-1]
        comps[-1] = comps[-1][:-1]
    sufs = [list(re.match(r"^(alpha|beta|rc|pre|p)(\d*)$", p).groups()) for p in parts[1:]]
    return {"comps": comps, "letter": letter, "sufs": sufs}


def C(cat="a", pkg="b", ver=None, rev=None):
    if isinstance(ver, str):
        ver = parse_ver(ver)
    if ver is not None and rev is None:
        rev = ""
    return dict(cat=cat, pkg=pkg, ver=ver, rev=rev)


# the defects found in the pinned tree (all fixed in the repo worktree) and the property's `why_tests_cant`
CPV_CORPUS = [
    (C(ver="1.0"), C(ver="1.00")),                  # == with different hash before the fix
    (C(ver="1_alpha"), C(ver="1_alpha0")),
    (C(ver="1", rev="0"), C(ver="1")),
    (C(ver="1", rev="01"), C(ver="1", rev="1")),
    (C(ver="6.01.0"), C(ver="6.010.0")),            # the suite's own example
    (C(ver="01"), C(ver="1")),
    (C(ver="1.10"), C(ver="1.010")),
    (C(ver="1"), C(pkg="bb", ver="1")),
    (C(ver="1"), C(cat="b", ver="1")),
    (C(ver="1.1"), C(ver="1.02")),
    (C(), C()),
    (C(), C(pkg="bb")),
    (C(), C(ver="1")),                              # mixed kinds: TypeError / != ; not part of the property
    (C(ver="1"), C()),
]
ATOM_CORPUS = [
    (A(blocks=True, strong=True), A(blocks=True)),                     # was == yet >
    (A(use=["x", "y"]), A(use=["y", "x"])),                            # == with different hash
    (A(slot="1", subslot="2"), A(slot="1", subslot="3")),              # unequal, neither < nor >
    (A(slot="1", slotop="="), A(slot="1")),
    (A(slotop="="), A(slotop="*")),
    (A(slotop="="), A()),
    (A(op="=", ver="1.0"), A(op="=", ver="1.00")),                     # unequal, neither < nor >
    (A(op="=", ver="1", rev="0"), A(op="=", ver="1")),
    (A(op="=", ver="1", rev="01"), A(op="=", ver="1", rev="1")),
    (A(op="=", ver="1_alpha"), A(op="=", ver="1_alpha0")),
    (A(op="~", ver="1.0"), A(op="~", ver="1.00")),
    (A(op="=*", ver="1"), A(op="=", ver="1")),
    (A(op="=", ver="1", negate=True), A(op="=", ver="1")),
    (A(repo="r"), A()),
    (A(repo="r"), A(repo="s")),
    (A(use=["x"]), A()),
    (A(use=["x", "x"]), A(use=["x"])),
    (A(use=["x?"]), A(use=["x"])),
    (A(use=["-x(+)", "y"]), A(use=["y", "-x(+)"])),
    (A(slot="0"), A()),
    (A(op="<", ver="2"), A(op=">", ver="2")),
    (A(), A(pkg="bb")),
    (A(), A(op=">=", ver="0")),
    (A(blocks=True), A()),
    (A(op="=", ver="1"), A(op="=", ver="1", rev="1")),
    # slot / sub-slot names of different spelling classes (number, dotted, word, letter case)
    (A(slot="3"), A(slot="2.7")), (A(slot="0", subslot="10"), A(slot="0", subslot="1.2")), (A(slot="2"), A(slot="10")),
    (A(slot="stable"), A(slot="Stable")), (A(slot="1"), A(slot="01")), (A(slot="0", subslot="2a"), A(slot="0", subslot="2A")),
    (A(slot="0", subslot="1"), A(slot="0.1")), (A(slot="0"), A(slot="0", subslot="0")),
]

SLOT_SHAPES = [dict(), dict(op=">=", ver="2.7.5", rev="1"), dict(blocks=True, strong=True, use=["x"]), dict(op="~", ver="3.11.0_p2", repo="gentoo"),
               dict(slotop="=")]

OPS6 = [operator.eq, operator.ne, operator.lt, operator.le, operator.gt, operator.ge]
NAMES6 = ["==", "!=", "<", "<=", ">", ">="]


def observe(a, b):
    """([eq, ne, lt, le, gt, ge] | 'raise', eq, unexpected exception text | None)"""
    eq = a == b
    ne = a != b
    out = [bool(eq), bool(ne)]
    for f in OPS6[2:]:
        try:
            out.append(bool(f(a, b)))
        except TypeError:
            return "raise", bool(eq), None
        except Exception as e:  # noqa
            return "raise", bool(eq), f"{type(e).__name__}: {e}"
    return out, bool(eq), None


def consistent(ab, ba, hasheq):
    """the property sentence on observations; returns a list of the clauses that fail"""
    eq, ne, lt, le, gt, ge = ab
    eq2, ne2, lt2, le2, gt2, ge2 = ba
    bad = []
    if eq and not hasheq:
        bad.append("equal but hashes differ")
    if eq and (lt or gt):
        bad.append("equal yet ordered")
    if not eq and (lt == gt):
        bad.append("unequal but not strictly ordered one way (lt=%s gt=%s)" % (lt, gt))
    if ne != (not eq):
        bad.append("!= is not the negation of ==")
    if le != (lt or eq):
        bad.append("<= differs from (< or ==)")
    if ge != (gt or eq):
        bad.append(">= differs from (> or ==)")
    if eq != eq2:
        bad.append("== is not symmetric")
    if lt != gt2 or gt != lt2:
        bad.append("a<b differs from b>a")
    if le != ge2 or ge != le2:
        bad.append("a<=b differs from b>=a")
    return bad


def pool_checks(ctx, kind, objs, texts):
    """set/dict/sort agreement and transitivity on a pool of real objects"""
    n = len(objs)
    LE = [[objs[i] <= objs[j] for j in range(n)] for i in range(n)]
    EQ = [[objs[i] == objs[j] for j in range(n)] for i in range(n)]
    ntr = 0
    for i, j, k in itertools.product(range(n), repeat=3):
        if LE[i][j] and LE[j][k]:
            ntr += 1
            if not LE[i][k]:
                ctx.violation({"kind": kind, "a": texts[i], "b": texts[j], "c": texts[k]}, "transitivity: a<=b and b<=c but not a<=c")
        if EQ[i][j] and EQ[j][k] and not EQ[i][k]:
            ctx.violation({"kind": kind, "a": texts[i], "b": texts[j], "c": texts[k]}, "== is not transitive")
    ctx.evaluations += ntr
    # classes of ==
    reps = []
    for i in range(n):
        if not any(EQ[i][r] for r in reps):
            reps.append(i)
    if len(set(objs)) != len(reps):
        ctx.violation({"kind": kind, "pool": texts}, f"set() keeps {len(set(objs))} elements, == has {len(reps)} classes")
    d = {}
    for o in objs:
        d[o] = d.get(o, 0) + 1
    if len(d) != len(reps):
        ctx.violation({"kind": kind, "pool": texts}, f"dict has {len(d)} keys, == has {len(reps)} classes")
    order = sorted(range(n), key=lambda i: _Key(objs[i]))
    for x in range(n):
        for y in range(x + 1, n):
            if objs[order[y]] < objs[order[x]]:
                ctx.violation({"kind": kind, "a": texts[order[x]], "b": texts[order[y]]}, "sorted() output is out of order")
                return
    ctx.count(kind + "_pools")


class _Key:
    __slots__ = ("o",)

    def __init__(self, o):
        self.o = o

    def __lt__(self, other):
        return self.o < other.o


# ---------------------------------------------------------------- other ways objects come into being
# The property is about objects, not about the constructor: a CPV/atom obtained by copy, deepcopy, a pickle round trip in this process, or a
# pickle written by *another interpreter* (spawned worker, earlier run: different str-hash seed) must be interchangeable with a freshly parsed one.

CHILD = r"""
import json, pickle, sys, operator
from pkgcore.ebuild.atom import atom
from pkgcore.ebuild import cpv
import logging; logging.disable(logging.CRITICAL)
def build(kind, text, negate):
    if kind == "atom":
        return atom(text, negate_vers=negate)
    return cpv.VersionedCPV(text) if kind == "vcpv" else cpv.UnversionedCPV(text)
def observe(a, b):
    out = []
    for f in (operator.eq, operator.ne, operator.lt, operator.le, operator.gt, operator.ge):
        try:
            out.append(bool(f(a, b)))
        except Exception as e:
            out.append(type(e).__name__)
    return out + [hash(a) == hash(b), len({a, b}), (b in {a: 1})]
# one request: objects pickled elsewhere to be judged *here*, and specs of objects to be built and pickled *here*
req = pickle.loads(sys.stdin.buffer.read())
res = []
for obj, spec, pspec in req["rows"]:
    fresh, partner = build(*spec), build(*pspec)
    res.append([observe(obj, fresh), observe(fresh, obj), observe(obj, partner), observe(partner, obj), observe(fresh, partner), observe(partner, fresh)])
sys.stdout.buffer.write(pickle.dumps({"observations": res, "produced": pickle.dumps([build(*s) for s in req["specs"]], req["protocol"])}, 2))
"""


def _child(repo, seed, args, data):
    import os
    import subprocess
    import sys
    env = dict(os.environ, PYTHONHASHSEED=str(seed), PYTHONPATH=os.path.join(repo, "src"))
    p = subprocess.run([sys.executable, "-c", CHILD] + [str(a) for a in args], input=data, stdout=subprocess.PIPE, stderr=subprocess.PIPE, env=env, timeout=300)
    if p.returncode != 0:
        raise RuntimeError("child interpreter failed: " + p.stderr.decode("utf-8", "replace")[-1500:])
    return p.stdout


def full_observe(a, b):
    """six operators + hash agreement + set/dict behaviour of the ordered pair"""
    out = []
    for f in OPS6:
        try:
            out.append(bool(f(a, b)))
        except Exception as e:  # noqa
            out.append(type(e).__name__)
    return out + [hash(a) == hash(b), len({a, b}), (b in {a: 1})]


def judge(ctx, case, how, x_fresh, x_y, y_x, f_y, y_f):
    """x came into being by `how`; fresh is the same text parsed here; y is the partner.  Returns False after reporting."""
    want_self = [True, False, False, True, False, True, True, 1, True]
    if x_fresh != want_self:
        ctx.violation(case, f"{how}: the object is not interchangeable with the same text parsed here: "
                            f"[==, !=, <, <=, >, >=, hash equal, len(set), dict hit] = {x_fresh}")
        return False
    if any(isinstance(v, str) for v in x_y + y_x):
        if x_y != f_y or y_x != y_f:
            ctx.violation(case, f"{how}: comparison raises differently than for the freshly parsed object: {x_y} vs {f_y}")
            return False
        return True
    bad = consistent(x_y[:6], y_x[:6], x_y[6])
    if x_y[0] and (x_y[7] != 1 or not x_y[8]):
        bad.append("a set keeps both of two equal objects / dict lookup by an equal object misses")
    if bad:
        ctx.violation(case, f"{how}: against the partner: " + "; ".join(bad) + f" ({dict(zip(NAMES6, x_y[:6]))}, hash equal={x_y[6]})")
        return False
    if x_y != f_y or y_x != y_f:
        ctx.violation(case, f"{how}: behaves differently from the freshly parsed object against the partner: {x_y} vs {f_y}")
        return False
    return True


def provenance_checks(ctx, cpvmod, atom, cpv_cases, atom_cases):
    import copy as _copy
    import os
    import pickle

    repo = os.environ.get("VERIF_REPO", "/repo")
    rows = []      # (kind-for-child, spec_a, spec_b, case)
    for a, b, rel in cpv_cases[: ctx.n(150, 1500)]:
        if (a["ver"] is None) != (b["ver"] is None):
            continue
        k = "vcpv" if a["ver"] is not None else "ucpv"
        rows.append(([k, cpv_text(a), False], [k, cpv_text(b), False], {"kind": "cpv", "a": a, "b": b, "text_a": cpv_text(a), "text_b": cpv_text(b), "relation": rel}))
    for a, b, rel in atom_cases[: ctx.n(260, 3000)]:
        rows.append((["atom", atom_text(a), a["negate"]], ["atom", atom_text(b), b["negate"]],
                     {"kind": "atom", "a": a, "b": b, "text_a": atom_text(a), "text_b": atom_text(b), "negate_vers": [a["negate"], b["negate"]], "relation": rel}))

    def build(spec):
        k, text, neg = spec
        if k == "atom":
            return atom(text, negate_vers=neg, disable_inst_caching=True)
        return cpvmod.VersionedCPV(text) if k == "vcpv" else cpvmod.UnversionedCPV(text)

    ways = [("copy.copy", _copy.copy), ("copy.deepcopy", _copy.deepcopy)]
    for proto in sorted({0, 2, pickle.HIGHEST_PROTOCOL}):
        ways.append((f"pickle round trip in this process (protocol {proto})", lambda o, proto=proto: pickle.loads(pickle.dumps(o, proto))))
    built = []
    for sa, sb, case in rows:
        try:
            built.append((build(sa), build(sa), build(sb)))
        except Exception as e:
            ctx.mismatch(case, f"generated object rejected by the constructor: {type(e).__name__}: {e}")
            built.append(None)
    # ---- in this process
    for (sa, sb, case), objs in zip(rows, built):
        if objs is None:
            continue
        orig, fresh, partner = objs
        f_y, y_f = full_observe(fresh, partner), full_observe(partner, fresh)
        for how, way in ways:
            try:
                x = way(orig)
            except Exception as e:
                ctx.violation(case, f"{how} raised {type(e).__name__}: {e}")
                continue
            ctx.evaluations += 1
            ctx.count("provenance_" + how.split(" (")[0].replace(" ", "_"))
            judge(ctx, case, how, full_observe(x, fresh), full_observe(x, partner), full_observe(partner, x), f_y, y_f)
    # ---- across interpreters with other string-hash seeds, both directions
    live = [(r, o) for r, o in zip(rows, built) if o is not None]
    specs = [r[0] for r, _ in live]
    own = os.environ.get("PYTHONHASHSEED", "")
    seeds = [x for x in (1, 2, 3) if str(x) != own][: ctx.n(1, 2)]
    for seed in seeds:
        proto = pickle.HIGHEST_PROTOCOL if seed != 2 else 2
        try:
            req = {"rows": [(orig, sa, sb) for (sa, sb, _), (orig, _, _) in live], "specs": specs, "protocol": proto}
            ans = pickle.loads(_child(repo, seed, [], pickle.dumps(req, proto)))
            loaded = pickle.loads(ans["produced"])
            res = ans["observations"]
        except Exception as e:
            ctx.violation({"kind": "pickle-across-interpreters", "seed": seed},
                          f"objects cannot be exchanged by pickle with another interpreter: {type(e).__name__}: {e}")
            continue
        # produced there, used here
        how = f"pickle written by another interpreter (PYTHONHASHSEED={seed}, protocol {proto}), loaded here"
        for ((sa, sb, case), (orig, fresh, partner)), x in zip(live, loaded):
            ctx.evaluations += 1
            ctx.count("provenance_pickle_from_other_interpreter")
            judge(ctx, case, how, full_observe(x, fresh), full_observe(x, partner), full_observe(partner, x),
                  full_observe(fresh, partner), full_observe(partner, fresh))
        # produced here, used there
        how = f"pickle written here, loaded by another interpreter (PYTHONHASHSEED={seed}, protocol {proto})"
        for ((sa, sb, case), _), (x_f, f_x, x_y, y_x, f_y, y_f) in zip(live, res):
            ctx.evaluations += 1
            ctx.count("provenance_pickle_to_other_interpreter")
            judge(ctx, case, how, x_f, x_y, y_x, f_y, y_f)
    ctx.extra["provenance_pairs"] = len(live)


def run(ctx):
    from pkgcore.ebuild import cpv as cpvmod
    from pkgcore.ebuild.atom import atom

    rng = ctx.rng

    # ================================================================ CPVs
    cases = [(a, b, "corpus") for a, b in CPV_CORPUS]
    if ctx.replay_cases:
        cases = [(c["a"], c["b"], "replay") for c in ctx.replay_cases if c.get("kind") == "cpv"] + cases
    for _ in range(ctx.n(8000, 60000)):
        a = gen_cpv(rng)
        b, rel = vary_cpv(rng, a)
        cases.append((a, b, rel))
    if not ctx.quick():
        vers = ["1", "01", "1.0", "1.00", "1.01", "1.010", "1.1", "1.10", "1a", "1_alpha", "1_alpha0", "1_alpha1", "1_p", "1_p0", "1_rc1_p"]
        small = [C(cat=c, pkg=p, ver=v, rev=r) for c in ["a", "b"] for p in ["b", "bb"] for v in vers for r in ["", "0", "1", "01"]]
        small += [C(cat=c, pkg=p) for c in ["a", "b"] for p in ["b", "bb"]]
        for a, b in itertools.product(small, small):
            cases.append((a, b, "exhaustive"))
        ctx.extra["exhaustive_cpv_pairs"] = len(small) ** 2
    reqs = [{"cmd": "c02.cpv", "a": a, "b": b} for a, b, _ in cases]
    built = []
    for (a, b, rel), rep in zip(cases, ctx.model(reqs)):
        ta, tb = cpv_text(a), cpv_text(b)
        case = {"kind": "cpv", "a": a, "b": b, "text_a": ta, "text_b": tb, "relation": rel}
        if rep == "bad-op":
            ctx.mismatch(case, "driver rejected the request")
            continue
        try:
            oa, ob = build_cpv(rng, cpvmod, a), build_cpv(rng, cpvmod, b)
        except Exception as e:
            ctx.mismatch(case, f"generated CPV rejected by the constructor: {type(e).__name__}: {e}")
            continue
        # glue: the constructor produced the attributes the model was given
        for c, o in ((a, oa), (b, ob)):
            want = (c["cat"], c["pkg"], None if c["ver"] is None else render_ver(c["ver"]),
                    None if c["ver"] is None else int(c["rev"] or 0))
            got = (o.category, o.package, o.version, None if o.revision is None else int(o.revision or 0))
            if want != got:
                ctx.mismatch(case, f"CPV constructor parsed {got}, model input is {want}")
        ab, eq_ab, exc = observe(oa, ob)
        ba, eq_ba, exc2 = observe(ob, oa)
        if exc or exc2:
            ctx.violation(case, f"comparison raised {exc or exc2}")
            continue
        hasheq = hash(oa) == hash(ob)
        samekind = (a["ver"] is None) == (b["ver"] is None)
        nontriv = samekind and ta != tb and a["cat"] == b["cat"] and a["pkg"] == b["pkg"]
        ctx.case(case, nontriv, key=f"cpv|{ta}|{tb}")
        ctx.count("cpv_rel_" + rel)
        ctx.count("cpv_" + ("mixed_kinds" if not samekind else "unversioned" if a["ver"] is None else "versioned"))
        if samekind and a["ver"] is not None and len(built) < ctx.n(90, 240):
            built.append((oa, ta))
        # (C) the property on the real objects
        if samekind:
            if ab == "raise" or ba == "raise":
                ctx.violation(case, "an ordering operator raised TypeError on two CPVs of the same kind")
                continue
            ctx.count("cpv_sign_%d" % ((ab[4]) - (ab[2])))
            if eq_ab:
                ctx.count("cpv_equal_pairs")
                if ta != tb:
                    ctx.count("cpv_equal_pairs_spelled_differently")
            bad = consistent(ab, ba, hasheq)
            if bad:
                ctx.violation(case, "CPV: " + "; ".join(bad) + f" (a?b={dict(zip(NAMES6, ab))}, hash equal={hasheq})")
                continue
            # spec: the order is the canonical one
            want = [rep["ord"] == 0, rep["ord"] != 0, rep["ord"] < 0, rep["ord"] <= 0, rep["ord"] > 0, rep["ord"] >= 0]
            if ab != want:
                ctx.violation(case, f"CPV operators {dict(zip(NAMES6, ab))} are not those of the canonical order (sign {rep['ord']})")
                continue
        # (A) model vs code
        if rep["obs"] != ab or rep["eq"] != eq_ab:
            ctx.mismatch(case, f"code: ==:{eq_ab} ops:{ab}; model: ==:{rep['eq']} ops:{rep['obs']}")
        if rep["hasheq"] and not hasheq:
            ctx.mismatch(case, "model hashes equal values, real hashes differ")
        if hasheq and not rep["hasheq"]:
            ctx.note("real hash collision on unequal hashed values (allowed): " + ta + " / " + tb)
        vhk = getattr(cpvmod, "ver_hash_key", None)
        if vhk is None:
            ctx.mismatch(case, "cpv.ver_hash_key (the modelled hash key function) no longer exists")
        else:
            ka = (oa.category, oa.package, vhk(oa.version, oa.revision))
            kb = (ob.category, ob.package, vhk(ob.version, ob.revision))
            if (ka == kb) != rep["hasheq"]:
                ctx.mismatch(case, f"ver_hash_key: code keys equal={ka == kb}, model keys equal={rep['hasheq']}")
    objs = list({t: o for o, t in built}.items())
    for lo in range(0, len(objs), 30):
        chunk = objs[lo:lo + 30]
        if len(chunk) >= 3:
            pool_checks(ctx, "cpv", [o for _, o in chunk], [t for t, _ in chunk])

    cpv_cases = cases

    # ================================================================ atoms
    cases = [(a, b, "corpus") for a, b in ATOM_CORPUS]
    if ctx.replay_cases:
        cases = [(c["a"], c["b"], "replay") for c in ctx.replay_cases if c.get("kind") == "atom"] + cases
    for _ in range(ctx.n(12000, 100000)):
        a = gen_atom(rng)
        b, rel = vary_atom(rng, a)
        cases.append((a, b, rel))
    if not ctx.quick():
        small = []
        for op, ver, rev in [("", None, None), ("=", "1.0", ""), ("=", "1.00", "0"), ("=", "1.0", "1"), ("~", "1.0", ""), (">=", "1.0", ""), ("=*", "1.0", ""), ("=*", "1.00", "")]:
            for bl in [(False, False), (True, False), (True, True)]:
                for slot, sub, sop in [(None, None, None), ("0", None, None), ("0", "1", None), ("0", None, "="), (None, None, "="), (None, None, "*")]:
                    for use in [None, ["x", "-y"], ["-y", "x"]]:
                        small.append(A(op=op, ver=ver, rev=rev, blocks=bl[0], strong=bl[1], slot=slot, subslot=sub, slotop=sop, use=use))
        small += [A(repo="gentoo"), A(pkg="bb"), A(op="=", ver="1.0", negate=True)]
        for a, b in itertools.product(small, small):
            cases.append((a, b, "exhaustive"))
        ctx.extra["exhaustive_atom_pairs"] = len(small) ** 2
    # bounded universe of slot / sub-slot names: every ordered pair of atoms that differ in the slot only, resp. in the sub-slot only
    slot_groups = []
    for shape in SLOT_SHAPES if not ctx.quick() else [SLOT_SHAPES[rng.randrange(len(SLOT_SHAPES))]]:
        by_slot = [A(**shape)] + [A(slot=n, **shape) for n in SLOT_POOL]
        by_sub = [A(slot="0", **shape)] + [A(slot="0", subslot=n, **shape) for n in SLOT_POOL]
        for group in (by_slot, by_sub):
            slot_groups.append(group)
            for a, b in itertools.product(group, group):
                cases.append((a, b, "slot-universe"))
    reqs = [{"cmd": "c02.atom", "a": a, "b": b} for a, b, _ in cases]
    built = []
    for (a, b, rel), rep in zip(cases, ctx.model(reqs)):
        ta, tb = atom_text(a), atom_text(b)
        case = {"kind": "atom", "a": a, "b": b, "text_a": ta, "text_b": tb, "negate_vers": [a["negate"], b["negate"]], "relation": rel}
        if rep == "bad-op":
            ctx.mismatch(case, "driver rejected the request")
            continue
        nocache = rng.random() < 0.7
        try:
            oa = atom(ta, negate_vers=a["negate"], disable_inst_caching=True) if nocache else atom(ta, negate_vers=a["negate"])
            ob = atom(tb, negate_vers=b["negate"], disable_inst_caching=True) if nocache else atom(tb, negate_vers=b["negate"])
        except Exception as e:
            ctx.mismatch(case, f"generated atom rejected by the constructor: {type(e).__name__}: {e}")
            continue
        glue_ok = True
        for c, o in ((a, oa), (b, ob)):
            want = (c["cat"], c["pkg"], c["op"], None if c["ver"] is None else render_ver(c["ver"]),
                    None if c["ver"] is None else int(c["rev"] or 0), c["blocks"], c["strong"], c["negate"], c["slot"], c["subslot"], c["slotop"],
                    None if c["use"] is None else tuple(sorted(c["use"])), c["repo"])
            got = (o.category, o.package, o.op, o.version, None if o.revision is None else int(o.revision or 0), o.blocks, o.blocks_strongly,
                   o.negate_vers, o.slot, o.subslot, o.slot_operator, o.use, o.repo_id)
            if want != got:
                glue_ok = False
                ctx.mismatch(case, f"atom constructor parsed {got}, model input is {want}")
        if (None if oa.use is None else list(oa.use)) != rep["use"]:
            ctx.mismatch(case, f"atom.use is {oa.use}, the model's sort gives {rep['use']}")
        if not glue_ok:
            continue
        ab, eq_ab, exc = observe(oa, ob)
        ba, eq_ba, exc2 = observe(ob, oa)
        if exc or exc2 or ab == "raise" or ba == "raise":
            ctx.violation(case, f"atom comparison raised ({exc or exc2 or 'TypeError'})")
            continue
        hasheq = hash(oa) == hash(ob)
        nontriv = (ta, a["negate"]) != (tb, b["negate"]) and a["cat"] == b["cat"] and a["pkg"] == b["pkg"]
        ctx.case(case, nontriv, key=f"atom|{ta}|{a['negate']}|{tb}|{b['negate']}")
        ctx.count("atom_rel_" + rel)
        ctx.count("atom_op_" + (a["op"] or "none"))
        ctx.count("atom_sign_%d" % (ab[4] - ab[2]))
        if a["use"] is not None:
            ctx.count("atom_with_use")
        if a["slot"] or a["slotop"]:
            ctx.count("atom_with_slot_or_operator")
        if a["blocks"]:
            ctx.count("atom_blocker_" + ("strong" if a["strong"] else "weak"))
        if oa is ob:
            ctx.count("atom_same_instance(cache)")
        if eq_ab:
            ctx.count("atom_equal_pairs")
            if ta != tb:
                ctx.count("atom_equal_pairs_spelled_differently")
        if len(built) < ctx.n(120, 300):
            built.append((oa, ta + ("|negate_vers" if a["negate"] else "")))
        bad = consistent(ab, ba, hasheq)
        if bad:
            ctx.violation(case, "atom: " + "; ".join(bad) + f" (a?b={dict(zip(NAMES6, ab))}, hash equal={hasheq})")
            continue
        o = rep["ord"]
        want = [o == 0, o != 0, o < 0, o <= 0, o > 0, o >= 0]
        if ab != want:
            ctx.violation(case, f"atom operators {dict(zip(NAMES6, ab))} are not those of the canonical order (sign {o}): "
                                "objects with equal canonical form must be equal, others strictly ordered")
            continue
        c = oa.__cmp__(ob)
        if rep["cmp"] != (c > 0) - (c < 0) or rep["obs"] != ab:
            ctx.mismatch(case, f"code: __cmp__={c} ops:{ab}; model: __cmp__={rep['cmp']} ops:{rep['obs']}")
        if rep["hasheq"] and not hasheq:
            ctx.mismatch(case, "model hashes equal values, real hashes differ")
        if hasheq and not rep["hasheq"] and not eq_ab and a["negate"] == b["negate"]:
            ctx.note("real hash collision on unequal hashed values (allowed): " + ta + " / " + tb)
    objs = list({t: o for o, t in built}.items())
    for lo in range(0, len(objs), 30):
        chunk = objs[lo:lo + 30]
        if len(chunk) >= 3:
            pool_checks(ctx, "atom", [o for _, o in chunk], [t for t, _ in chunk])
    for group in slot_groups:
        texts = [atom_text(d) for d in group]
        rng.shuffle(texts)
        pool_checks(ctx, "atom", [atom(t, disable_inst_caching=True) for t in texts], texts)
    # ================================================================ objects that did not come out of the constructor
    import time as _time
    _t = _time.time()
    provenance_checks(ctx, cpvmod, atom, cpv_cases, cases)
    ctx.extra["provenance_phase_s"] = round(_time.time() - _t, 1)

    # non-atoms: == is False, != is True, no exception
    x = atom("a/b")
    for other in ("a/b", None, 1, cpvmod.UnversionedCPV("a/b")):
        try:
            if (x == other) or not (x != other):
                ctx.violation({"kind": "atom-vs-other", "other": repr(other)}, "atom compares equal to a non-atom")
        except Exception as e:
            ctx.violation({"kind": "atom-vs-other", "other": repr(other)}, f"atom == non-atom raised {type(e).__name__}")


LEVEL_TEXT = ("Kernel-checked Lean 4 theorems over all well-formed CPVs and atoms (unbounded versions, any USE list): the six CPV operators and the six "
              "atom operators are exactly those induced by one total order — the lexicographic order on a canonical form in which the version is replaced "
              "by its PMS value — so == holds iff canonical forms are equal, equal objects are never < or >, unequal ones are strictly ordered one way, "
              "a<b iff b>a, the order is transitive; the value passed to hash() is equal whenever the objects are equal (for CPVs: iff); atom.__cmp__ "
              "never raises; permuting USE deps gives an equal atom. The model is tied to the code by a differential run on generated pairs through the "
              "public constructors, which also evaluates the property itself (operators, real hash(), set/dict/sorted agreement, transitivity) on the "
              "real objects.")
LEVEL_NOTE = ("Trusted: Lean kernel; standard axioms only; the constructors' parsing (checked by comparing parsed attributes with the model input on "
              "every case, not proved); CPython's hash() on equal tuples; C01's theorem that ver_cmp is the PMS order (imported).")
