"""C17 — planner rollback restores the exact earlier state (pkgcore.resolver.state / pigeonholes)."""
import itertools

PID = "C17"
LEAN_MODULES = ["Pkgcore.Props.C17"]
OBLIGATIONS = [
    "Pkgcore.C17.revert_apply_partial",
    "Pkgcore.C17.refused_apply_noop_partial",
    "Pkgcore.C17.backtrack_eq_replay_partial",
    "Pkgcore.C17.rollback_never_raises_partial",
    "Pkgcore.C17.reachable_inv",
    "Pkgcore.C17.revert_apply_counterexample_forced_readd",
    "Pkgcore.C17.revert_apply_counterexample_foreign_choices",
    "Pkgcore.C17.backtrack_eq_replay_counterexample_double_occupancy",
]
TRUSTED = [
    "objects are modelled as identities with attributes (pkg.key, pkg.slot, blocker.key, blocker.match); the harness builds "
    "package/blocker/choice objects whose == is identity and reads the attribute tables off the very objects it hands to the code",
    "dict-of-lists containers are modelled as flat insertion-ordered lists (per-key order is compared exactly against the code every run)",
]
ASSUMPTIONS = [
    "distinct package / blocker / choice-point objects used in one history compare unequal (== is identity)",
    "the key a blocker is registered under (the `key` argument of add_blocker / incref / decref, defaulting to blocker.key) is a function of "
    "the blocker; it need NOT be the blocker's own .key attribute: the resolver registers the mangled blocker of a virtual under the key of "
    "the original atom (an AndRestriction without any .key), so blockers whose own key differs from the registration key, or that have no "
    ".key at all, are part of the histories (the model's blkKey is the registration key; the own key must never be consulted)",
    "rollback positions are positions recorded between operations (plan_state.current_state before/after an apply), as the resolver does; "
    "raw mid-operation positions are only compared model-vs-code",
    "operations respect their contract (`applicable`): a forced add_op is not given an already slotted object, remove_op names the "
    "choice point the package was added with, replace_op is used on a slot holding exactly one package; operations that raise end the history",
]
RULE = ("histories of 4-40 steps over 3-7 packages (1-3 keys, 1-2 slots), 1-4 blockers with random match sets (incl. self-blocking; a third of "
        "them registered under a key that is not their own .key, some without a .key attribute), "
        "2-5 choice points, generated against the live plan_state so that most operations are valid: add (forced/unforced), hardref, backref, "
        "remove, replace (forced/unforced, also refused), incref/decref, rollbacks to random recorded positions; a separate stream breaks the "
        "contract or uses raw positions (model-vs-code only); non-trivial = in-contract history in which some rollback reverted at least one "
        "logged operation and at least one remove/replace/incref/decref was applied")


# ---------------------------------------------------------------- objects handed to the real code

def make_classes():
    from pkgcore.restrictions import restriction

    class Pkg:
        __slots__ = ("i", "key", "slot")

        def __init__(self, i, key, slot):
            self.i, self.key, self.slot = i, key, slot

        def __repr__(self):
            return "p%d" % self.i

    class Blk(restriction.base):
        __slots__ = ("i", "key", "ms")

        def __init__(self, i, key, ms):
            sf = object.__setattr__
            sf(self, "i", i)
            sf(self, "key", key)
            sf(self, "ms", ms)

        def match(self, pkg):
            return pkg.i in self.ms

        def __repr__(self):
            return "b%d" % self.i

    class BlkNoKey(restriction.base):
        """like the AndRestriction the resolver builds for a virtual's blocker: no .key of its own"""
        __slots__ = ("i", "ms")

        def __init__(self, i, ms):
            sf = object.__setattr__
            sf(self, "i", i)
            sf(self, "ms", ms)

        def match(self, pkg):
            return pkg.i in self.ms

        def __repr__(self):
            return "b%d" % self.i

    class Choice:
        __slots__ = ("i",)

        def __init__(self, i):
            self.i = i

        def __repr__(self):
            return "c%d" % self.i

    return Pkg, Blk, BlkNoKey, Choice


class World:
    """objects + the real plan_state; executes steps on the real code"""

    def __init__(self, pkgs, blks, nchoices=8, nrestr=4):
        from pkgcore.resolver import state
        self.state_mod = state
        Pkg, Blk, BlkNoKey, Choice = make_classes()
        # a blocker is [registration key, matched packages] or [registration key, matched packages, own key | None]:
        # own key = the blocker's .key attribute (None: no such attribute); absent = the registration key
        blks = [list(b) + [b[0]] if len(b) == 2 else list(b) for b in blks]
        self.pkgs_spec, self.blks_spec = pkgs, blks
        self.P = [Pkg(i, "k%d" % k, s) for i, (k, s) in enumerate(pkgs)]
        self.B = [(BlkNoKey(i, frozenset(ms), disable_inst_caching=True) if own is None else
                   Blk(i, "k%d" % own, frozenset(ms), disable_inst_caching=True)) for i, (k, ms, own) in enumerate(blks)]
        self.regkey = ["k%d" % k for k, _, _ in blks]
        self.C = [Choice(i) for i in range(nchoices)]
        self.R = ["r%d" % i for i in range(nrestr)]
        self.idmap = {id(p): p.i for p in self.P}
        self.ps = state.plan_state()
        self.marks = [0]

    def fresh(self):
        w = World.__new__(World)
        w.__dict__.update(self.__dict__)
        w.ps = self.state_mod.plan_state()
        w.marks = [0]
        return w

    def conf(self, x):
        return ["p", x.i] if x in self.P else ["b", x.i]

    def apply(self, st):
        """returns ("ok", out) | ("raises", excname) | ("badmark", None)"""
        S, ps, kind = self.state_mod, self.ps, st[0]
        try:
            if kind == "rollback":
                if st[1] >= len(self.marks):
                    return ("badmark", None)
                ps.backtrack(self.marks[st[1]])
                del self.marks[st[1] + 1:]
                return ("ok", [])
            if kind == "backtrack":
                ps.backtrack(st[1])
                return ("ok", [])
            if kind == "add":
                out = S.add_op(self.C[st[1]], self.P[st[2]], force=st[3]).apply(ps)
            elif kind == "hardref":
                out = S.add_hardref_op(self.R[st[1]]).apply(ps)
            elif kind == "backref":
                out = S.add_backref_op(self.C[st[1]], self.P[st[2]]).apply(ps)
            elif kind == "remove":
                out = S.remove_op(self.C[st[1]], self.P[st[2]]).apply(ps)
            elif kind == "replace":
                out = S.replace_op(self.C[st[1]], self.P[st[2]], force=st[3]).apply(ps)
            elif kind == "incref":
                b = self.B[st[2]]
                # the public entry point of the resolver; the key is passed explicitly whenever it is not the blocker's own
                # (as insert_blockers does), else half of the time
                own = self.blks_spec[st[2]][2] == self.blks_spec[st[2]][0]
                out = ps.add_blocker(self.C[st[1]], b, key=(None if own and (st[1] + st[2]) % 2 else self.regkey[st[2]]))
            elif kind == "decref":
                b = self.B[st[2]]
                out = S.decref_forward_block_op(self.C[st[1]], b, self.regkey[st[2]]).apply(ps)
            else:
                raise ValueError(kind)
        except Exception as e:  # noqa: BLE001 — any exception is "raises"
            return ("raises", type(e).__name__)
        self.marks.append(len(ps.plan))
        return ("ok", [self.conf(x) for x in (out or [])])

    def entry(self, op):
        n = type(op).__name__
        if n == "add_op":
            return ["add", op.choices.i, op.pkg.i, bool(op.force)]
        if n == "add_hardref_op":
            return ["hardref", int(op.restriction[1:])]
        if n == "add_backref_op":
            return ["backref", op.choices.i, op.pkg.i]
        if n == "remove_op":
            return ["remove", op.choices.i, op.pkg.i]
        if n == "replace_op":
            return ["replace", op.choices.i, op.pkg.i, bool(op.force), op.old_pkg.i, op.old_choices.i]
        if n == "incref_forward_block_op":
            return ["incref", op.choices.i, op.blocker.i]
        if n == "decref_forward_block_op":
            return ["decref", op.choices.i, op.blocker.i]
        raise ValueError(n)

    def snap(self):
        """exact snapshot: per-key / per-choice lists in the code's order, counted sets as sorted multisets"""
        ps = self.ps
        problems = []
        for name, d in (("slot_dict", ps.state.slot_dict), ("limiters", ps.state.limiters), ("rev_blockers", ps.rev_blockers)):
            if any(not v for v in d.values()):
                problems.append("empty list kept in " + name)
        for c, l in ps.rev_blockers.items():
            for b, key in l:
                if key != self.regkey[b.i]:
                    problems.append("rev_blockers records %r for b%d, registered under %r" % (key, b.i, self.regkey[b.i]))
        for k, l in ps.state.limiters.items():
            for b in l:
                if k != self.regkey[b.i]:
                    problems.append("limiter b%d filed under %r, registered under %r" % (b.i, k, self.regkey[b.i]))

        def multiset(rc):
            return sorted(x for k, n in rc.items() for x in [k if isinstance(k, str) else k.i] * n)
        return {
            "slots": {k: [p.i for p in v] for k, v in ps.state.slot_dict.items() if v},
            "limiters": {k: [b.i for b in v] for k, v in ps.state.limiters.items() if v},
            # pkg_choices is keyed by id(pkg) (fix 9b18cc1); unknown ids would be a defect
            "choices": sorted([self.idmap.get(k, -1), c.i] for k, c in ps.pkg_choices.items()),
            "revb": {c.i: [b.i for b, _ in l] for c, l in ps.rev_blockers.items() if l},
            "refcnt": multiset(ps.blockers_refcnt),
            "vdb": multiset(ps.vdb_filter),
            "forced": sorted(int(k[1:]) for k, n in ps.forced_restrictions.items() for _ in range(n)),
            "plan": [self.entry(op) for op in ps.plan],
            "problems": problems,
        }

    def model_snap(self, m):
        """the driver's flat lists grouped the way the code stores them"""
        slots, lims, revb = {}, {}, {}
        for p in m["slots"]:
            slots.setdefault("k%d" % self.pkgs_spec[p][0], []).append(p)
        for b in m["limiters"]:
            lims.setdefault("k%d" % self.blks_spec[b][0], []).append(b)
        for c, b in m["revb"]:
            revb.setdefault(c, []).append(b)
        return {"slots": slots, "limiters": lims, "choices": sorted(m["choices"]), "revb": revb,
                "refcnt": sorted(m["refcnt"]), "vdb": sorted(m["vdb"]), "forced": sorted(m["forced"]),
                "plan": m["plan"], "problems": []}


def observable(s):
    """the property's notion of equal state: everything as multisets, plan by length (+ multiset of its entries)"""
    return {
        "slots": {k: sorted(v) for k, v in s["slots"].items()},
        "limiters": {k: sorted(v) for k, v in s["limiters"].items()},
        "choices": s["choices"],
        "revb": {k: sorted(v) for k, v in s["revb"].items()},
        "refcnt": s["refcnt"], "vdb": s["vdb"], "forced": s["forced"],
        "plan_len": len(s["plan"]), "plan_entries": sorted(map(repr, s["plan"])),
    }


def py_surviving(steps):
    acc = []
    for st in steps:
        if st[0] == "rollback":
            del acc[st[1]:]
        else:
            acc.append(st)
    return acc


# ---------------------------------------------------------------- generators

def gen_universe(rng):
    nkeys = rng.choice([1, 1, 2, 2, 3])
    nslots = rng.choice([1, 2, 2])
    npk = rng.randint(3, 7)
    pkgs = [[rng.randrange(nkeys), rng.randrange(nslots)] for _ in range(npk)]
    blks = []
    for _ in range(rng.randint(1, 4)):
        k = rng.randrange(nkeys)
        same = [i for i, (kk, _) in enumerate(pkgs) if kk == k]
        ms = [i for i in same if rng.random() < 0.45]
        if rng.random() < 0.15:
            ms += [i for i in range(npk) if rng.random() < 0.3]   # matches across keys are never consulted
        # the blocker's own .key: usually the key it is registered under; else another key (of some package, or of none), or no attribute
        o = rng.random()
        own = k if o < 0.64 else (rng.randrange(nkeys + 1) if o < 0.88 else None)
        blks.append([k, sorted(set(ms)), own])
    return pkgs, blks


def gen_history(rng, w, n, contract=True):
    """generate step by step against the live real state `w` (executing as it goes); returns (steps, results, snaps)"""
    steps, results, snaps = [], [], []
    npk, nb, nc = len(w.P), len(w.B), rng.randint(2, 5)
    own = {}   # package -> the choice point it was (last) added with, as the generator believes
    for _ in range(n):
        ps = w.ps
        slotted = [p for l in ps.state.slot_dict.values() for p in l]
        k = rng.random()
        st = None
        if k < 0.22:
            p = rng.randrange(npk)
            force = rng.random() < 0.3
            if contract and force and w.P[p] in slotted:
                force = False
            st = ["add", own.get(p, rng.randrange(nc)) if rng.random() < 0.7 else rng.randrange(nc), p, force]
        elif k < 0.27:
            st = ["hardref", rng.randrange(len(w.R))]
        elif k < 0.31:
            st = ["backref", rng.randrange(nc), rng.randrange(npk)]
        elif k < 0.43 and slotted:
            p = rng.choice(slotted)
            c = ps.pkg_choices[id(p)].i if (contract or rng.random() < 0.6) and id(p) in ps.pkg_choices else rng.randrange(nc)
            st = ["remove", c, p.i]
        elif k < 0.60 and slotted:
            old = rng.choice(slotted)
            cands = [i for i, q in enumerate(w.P) if q.key == old.key and q.slot == old.slot and (q is not old or rng.random() < 0.1)]
            if contract:
                cands = [i for i in cands if len([x for x in ps.state.slot_dict.get(old.key, ()) if x.slot == old.slot]) == 1]
            if cands:
                st = ["replace", rng.randrange(nc), rng.choice(cands), rng.random() < 0.25]
        elif k < 0.75:
            pc = list(ps.pkg_choices.values())
            c = rng.choice(pc).i if pc and rng.random() < 0.7 else rng.randrange(nc)
            st = ["incref", c, rng.randrange(nb)]
        elif k < 0.82 and ps.rev_blockers:
            c = rng.choice(list(ps.rev_blockers))
            b, _ = rng.choice(ps.rev_blockers[c])
            st = ["decref", c.i, b.i]
        elif k < 0.84 and not contract:
            st = ["decref", rng.randrange(nc), rng.randrange(nb)]
        if st is None:
            if len(w.marks) > 1 or rng.random() < 0.3:
                j = rng.randrange(len(w.marks)) if rng.random() < 0.85 else len(w.marks) - 1
                st = ["rollback", j]
            else:
                st = ["add", rng.randrange(nc), rng.randrange(npk), False]
        if not contract and rng.random() < 0.08:
            st = ["backtrack", rng.randint(0, len(ps.plan) + (1 if rng.random() < 0.1 else 0))]
        if st[0] == "add":
            own[st[2]] = st[1]
        res = w.apply(st)
        steps.append(st)
        results.append(res)
        if res[0] != "ok":
            break
        snaps.append(w.snap())
    return steps, results, snaps


def P(k, s):
    return [k, s]


# universe of the corpus: p0,p1,p2 share key 0 slot 0; p3 key 0 slot 1; p4 key 1 slot 0
CU_PK = [P(0, 0), P(0, 0), P(0, 0), P(0, 1), P(1, 0)]
# b0 matches p0 (self blocker material), b1 matches p2, b2 matches p0 and p2, b3 matches p4;
# b4 matches p3, registered under key 0 but its own .key is key 1; b5 matches p4, registered under key 1, has no .key attribute
CU_BL = [[0, [0]], [0, [2]], [0, [0, 2]], [1, [4]], [0, [3], 1], [1, [4], None]]
CORPUS = [
    # the vdb_filter defect (fix 4f41f65): add p; remove p; add p; remove p; backtrack(3)
    [["add", 0, 0, False], ["remove", 0, 0], ["add", 0, 0, False], ["remove", 0, 0], ["rollback", 3]],
    [["add", 0, 0, False], ["replace", 1, 1, False], ["replace", 0, 0, False], ["replace", 1, 1, False], ["rollback", 3], ["rollback", 1]],
    # forced replace that conflicts with a limiter (fix 6fe237f): must go through and be undoable
    [["add", 0, 0, False], ["incref", 1, 1], ["replace", 2, 2, True], ["rollback", 2], ["rollback", 0]],
    # refused replace of a force-added, itself blocked package (fix 7be093f): p0 and p2 both matched by b2
    [["incref", 1, 2], ["add", 0, 0, True], ["replace", 2, 2, False], ["rollback", 2], ["rollback", 1]],
    # self blocker of a force-added package, replaced, rolled back (fix 3e2d1a1)
    [["incref", 0, 0], ["add", 0, 0, True], ["replace", 1, 1, False], ["rollback", 2], ["rollback", 0]],
    # blocker shared by two choice points: reference counts survive remove + rollback
    [["add", 0, 0, False], ["add", 3, 3, False], ["incref", 0, 1], ["incref", 3, 1], ["incref", 0, 3], ["remove", 0, 0],
     ["rollback", 5], ["remove", 3, 3], ["rollback", 6], ["rollback", 2]],
    # second reference to an active blocker after a matching package was forced in: must report it (fix 0a3cc5d)
    [["incref", 0, 0], ["add", 0, 0, True], ["incref", 1, 0], ["rollback", 2], ["rollback", 0]],
    # same blocker twice for one choice point
    [["add", 0, 0, False], ["incref", 0, 1], ["incref", 0, 1], ["decref", 0, 1], ["rollback", 3], ["remove", 0, 0], ["rollback", 1]],
    # replace displacing a package that carries blockers; refused add; hard references counted
    [["add", 0, 0, False], ["incref", 0, 1], ["incref", 0, 3], ["add", 1, 1, False], ["replace", 1, 1, False], ["hardref", 0], ["hardref", 0],
     ["rollback", 6], ["rollback", 3], ["add", 2, 2, False], ["rollback", 0]],
    # rollback to the current position and to 0 on an empty plan
    [["rollback", 0], ["add", 4, 4, False], ["rollback", 1], ["rollback", 0], ["rollback", 0]],
    # blockers registered under a key that is not their own .key (what insert_blockers does for the mangled blocker of a virtual): the
    # last reference dropped by a remove / a replace / a decref and restored by a rollback must be filed under the registration key again
    [["add", 0, 0, False], ["incref", 0, 4], ["remove", 0, 0], ["rollback", 2], ["add", 3, 3, False], ["rollback", 1], ["rollback", 0]],
    [["add", 0, 0, False], ["incref", 0, 5], ["replace", 1, 1, False], ["rollback", 2], ["add", 4, 4, False], ["rollback", 0]],
    [["incref", 0, 4], ["incref", 1, 4], ["incref", 1, 5], ["decref", 0, 4], ["decref", 1, 4], ["decref", 1, 5], ["rollback", 4], ["add", 3, 3, False],
     ["rollback", 3], ["add", 4, 4, False], ["rollback", 0]],
    # order change inside a slot list: remove + rollback re-appends
    [["add", 0, 0, False], ["add", 3, 3, False], ["remove", 0, 0], ["rollback", 2], ["replace", 1, 1, False], ["rollback", 0]],
]
# contract breakers (property evaluated, failures belong to the open findings) and raw positions (model/code comparison only)
CORPUS_RAW = [
    [["add", 0, 0, False], ["add", 1, 1, True], ["replace", 2, 2, True], ["rollback", 2]],      # doubly occupied slot
    # doubly occupied slot whose list order a rollback changed: the forced replace displaces p1, the replay p0 (open finding)
    [["add", 0, 0, False], ["add", 1, 1, True], ["remove", 0, 0], ["rollback", 2], ["replace", 2, 2, True], ["rollback", 3]],
    [["add", 0, 0, False], ["add", 1, 0, True], ["rollback", 1]],                                # same object slotted twice
    [["add", 0, 0, False], ["remove", 1, 0], ["rollback", 1]],                                   # wrong choice point
    [["remove", 0, 0]], [["replace", 0, 0, False]], [["decref", 0, 0]], [["rollback", 3]],       # raising
    [["add", 0, 0, False], ["incref", 0, 1], ["incref", 0, 3], ["remove", 0, 0], ["backtrack", 4], ["backtrack", 2], ["backtrack", 9]],
    [["add", 0, 0, False], ["add", 1, 1, True], ["replace", 2, 2, False], ["backtrack", 1]],     # refused in a doubly occupied slot
]


def run_fixed(w, steps):
    results, snaps = [], []
    for st in steps:
        res = w.apply(st)
        results.append(res)
        if res[0] != "ok":
            break
        snaps.append(w.snap())
    return steps[: len(results)], results, snaps


def run(ctx):
    rng = ctx.rng
    batch = []   # (universe, steps, results, snaps, world, tag)

    def world(pk, bl):
        return World(pk, bl)

    for steps in CORPUS:
        w = world(CU_PK, CU_BL)
        batch.append((CU_PK, CU_BL) + run_fixed(w, steps) + (w, "corpus"))
    for steps in CORPUS_RAW:
        w = world(CU_PK, CU_BL)
        batch.append((CU_PK, CU_BL) + run_fixed(w, steps) + (w, "corpus-raw"))
    if ctx.replay_cases:
        for c in ctx.replay_cases:
            if "steps" in c:
                w = world(c["pkgs"], c["blks"])
                batch.append((c["pkgs"], c["blks"]) + run_fixed(w, c["steps"]) + (w, "replay"))
    for _ in range(ctx.n(1400, 25000)):
        pk, bl = gen_universe(rng)
        w = world(pk, bl)
        contract = rng.random() < 0.82
        n = rng.choice([4, 8, 12, 16, 24, 40])
        batch.append((pk, bl) + gen_history(rng, w, n, contract) + (w, "random" if contract else "random-raw"))
    if not ctx.quick():
        # bounded-exhaustive: every history of length <= 4 over a small alphabet on the corpus universe
        alpha = [["add", 0, 0, False], ["add", 1, 1, False], ["add", 0, 0, True], ["add", 2, 2, True], ["remove", 0, 0], ["remove", 1, 1],
                 ["replace", 1, 1, False], ["replace", 2, 2, True], ["incref", 0, 0], ["incref", 1, 2], ["incref", 0, 1], ["incref", 0, 4], ["decref", 0, 0],
                 ["rollback", 0], ["rollback", 1], ["rollback", 2]]
        cnt = 0
        for n in range(1, 5):
            for steps in itertools.product(alpha, repeat=n):
                w = world(CU_PK, CU_BL)
                batch.append((CU_PK, CU_BL) + run_fixed(w, list(steps)) + (w, "exhaustive"))
                cnt += 1
        ctx.extra["exhaustive_histories_len_le_4"] = cnt

    # the model is given the key each blocker is registered under, not its own .key: the code must never consult that one
    replies = ctx.model([{"cmd": "c17.run", "pkgs": pk, "blks": [b[:2] for b in bl], "steps": steps} for pk, bl, steps, *_ in batch])

    for (pk, bl, steps, results, snaps, w, tag), rep in zip(batch, replies):
        case = {"pkgs": pk, "blks": bl, "steps": steps, "tag": tag}
        if rep == "bad-op":
            ctx.mismatch(case, "driver rejected the request")
            continue
        msteps = rep["steps"]
        # ---- edge A: model vs code, step by step (exact order of every list the code keeps).  A difference does not end the evaluation:
        # the property itself (edge C) is still decided on the real code, so that a defect is reported with the state it corrupts
        ok = True
        finding = None          # contract clause broken first (-> open finding class), None = in contract
        if len(msteps) != len(results):
            ctx.mismatch(case, f"model stopped after {len(msteps)} steps, code after {len(results)}")
            ok = False
        for i, (res, m) in enumerate(zip(results, msteps)):
            if res[0] == "ok" and m["r"] == "ok" and not m.get("app", True) and finding is None:
                finding = FINDING_OF[steps[i][0]]
            if not ok:
                continue        # past the first difference only the contract flags are read
            if res[0] != m["r"]:
                ctx.mismatch(case, f"step {i} {steps[i]}: code {res}, model {m['r']}")
                ok = False
            elif res[0] != "ok":
                ctx.count("ended_by_" + res[0] + ("_" + res[1] if res[1] else ""))
            elif snaps[i]["problems"]:
                ctx.mismatch(case, f"step {i} {steps[i]}: {snaps[i]['problems']}")
                ok = False
            elif res[1] != m["out"]:
                ctx.mismatch(case, f"step {i} {steps[i]}: code returned {res[1]}, model {m['out']}")
                ok = False
            else:
                ms = w.model_snap(m["snap"])
                if ms != snaps[i]:
                    diff = {k: (snaps[i][k], ms[k]) for k in ms if ms[k] != snaps[i][k]}
                    ctx.mismatch(case, f"step {i} {steps[i]}: state differs (code, model): {diff}")
                    ok = False
        nok = sum(1 for res in results if res[0] == "ok")      # number of steps that ran through on the real code
        for st in steps:
            ctx.count("op_" + st[0])
        ctx.count("len_%02d" % (len(steps) // 8 * 8))
        raw = any(st[0] == "backtrack" for st in steps)
        ended = results[-1][0] if results else "ok"
        in_contract = finding is None and not raw
        # ---- edge C: the property on the real code (out-of-contract histories: failures go to the finding class)
        reverted = False
        compound = any(st[0] in ("remove", "replace", "incref", "decref") for st in steps[:nok])
        if raw:
            ctx.count("raw_position_history")
        else:
            if finding is not None:
                ctx.count("out_of_contract_history")
            prev_obs = observable(World(pk, bl).snap())
            prev_len = 0
            for i, st in enumerate(steps[:nok]):
                obs = observable(snaps[i])
                if st[0] == "rollback":
                    if obs["plan_len"] < prev_len:
                        reverted = True
                    surv = py_surviving(steps[: i + 1])
                    f = w.fresh()
                    bad = None
                    for s2 in surv:
                        r2 = f.apply(s2)
                        if r2[0] != "ok":
                            bad = f"replay of the remaining operation {s2} gave {r2}"
                            break
                    if bad is None:
                        want = observable(f.snap())
                        if want != obs:
                            bad = {k: (obs[k], want[k]) for k in want if want[k] != obs[k]}
                            bad = (f"after the rollback at step {i} the state differs from the replay of the {len(surv)} remaining "
                                   f"operations (rollback, replay): {bad}")
                    if bad:
                        ctx.violation(case, bad, finding=finding)
                        break
                    ctx.count("rollback_checked")
                elif obs["plan_len"] == prev_len:
                    # refused operation (returned its conflicts, logged nothing): must not change the state
                    if obs != prev_obs:
                        ctx.violation(case, f"step {i} {st} was refused (returned {results[i][1]}) but changed the state", finding=finding)
                        break
                    ctx.count("refused_checked")
                prev_obs, prev_len = obs, obs["plan_len"]
            if ended == "raises" and steps[nok][0] == "rollback":
                ctx.violation(case, f"rollback at step {nok} raised {results[nok][1]}", finding=finding)
            # the specification's own replay (Lean) against the real final state
            if ok and in_contract and ended == "ok":
                if rep["replay"] is None:
                    ctx.mismatch(case, "Lean replay of the remaining operations failed on an in-contract history")
                else:
                    if rep["surviving"] != py_surviving(steps):
                        ctx.mismatch(case, "Lean `surviving` differs from the harness's")
                    if observable(w.model_snap(rep["replay"])) != observable(snaps[-1] if snaps else World(pk, bl).snap()):
                        ctx.violation(case, "final state of the real planner differs from the specification's replay of the remaining operations")
        ctx.case(case, in_contract and reverted and compound, key=repr((pk, bl, steps)))


FINDING_OF = {"add": "C17-forced-add-of-slotted-package", "remove": "C17-remove-with-foreign-choice-point",
              "replace": "C17-replace-in-multiply-occupied-slot"}

LEVEL_TEXT = ("Kernel-checked Lean 4 theorems about an executable model of plan_state, PigeonHoledSlots and all seven operation classes "
              "(apply, revert, backtrack, the nested rollback inside a refused replace): undoing any operation restores the state; a refused "
              "operation changes nothing; for every history of operations and rollbacks to recorded positions — any length, any objects — the "
              "state equals the replay of the remaining operations and no rollback raises. The model is compared with the real classes step by "
              "step (exact list order) on generated and bounded-exhaustive histories, and the property itself is evaluated on the real code by "
              "replaying the remaining operations on a fresh plan_state after every rollback.")
LEVEL_NOTE = ("Trusted: Lean kernel, standard axioms; object identity/equality abstraction (packages, blockers, choice points are identities with "
              "attribute tables); the operation contract `applicable` (forced add of a fresh object, remove with the right choice point, "
              "replace on a singly occupied slot) under which the theorems are stated.")
