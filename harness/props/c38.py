"""C38 — package-list rewriting touches only the lines it must."""
import re

PID = "C38"
LEAN_MODULES = ["Pkgcore.Props.C38"]
OBLIGATIONS = [
    "Pkgcore.C38.lines_identity",
    "Pkgcore.C38.parse_render_identity",
    "Pkgcore.C38.build_parse_roundtrip",
    "Pkgcore.C38.rewrite_preserves_spec_spacing_comment_eol",
    "Pkgcore.C38.rewrite_blank_noop",
    "Pkgcore.C38.expand_keywords_semantics",
    "Pkgcore.C38.expand_touches_only_changed",
    "Pkgcore.C38.expand_keeps_sentinel_free_lines",
    "Pkgcore.C38.expand_rewritten_lines_keep_layout",
]
TRUSTED = [
    "CPython primitives are modelled structurally: str.splitlines(keepends=True) (boundary table incl. the \\r\\n pair), str.rstrip, "
    "str.split() / re \\S+ (`scan`), re (?:^|\\s)# (`splitComment`); their character classes (str.isspace, splitlines boundaries) are "
    "regenerated from the running interpreter on every run and the harness asserts that re \\s, str.split() and str.isspace agree "
    "and that the two regular expressions are unchanged",
    "parse_atom is an external component: the model receives it as an oracle token -> canonical atom text computed by the real "
    "parse_atom for every token of the generated text (MalformedAtom = absent)",
    "slices body[:tokens[1].start()], body[tokens[-1].end():] are concatenations of the pieces found by `scan`",
]
ASSUMPTIONS = [
    "suggestion functions are pure and return proper keyword tokens (non-empty, no whitespace, not starting with '#') — hypothesis "
    "`hsug`/`hk` of the layout theorems; the touched/untouched theorem needs no such assumption",
    "build_parse_roundtrip: str(atom) is a proper token that parse_atom maps back to the atom (checked on every built list)",
]
RULE = ("random package lists: 0-6 lines from package lines (6 spec spellings incl. bare cat/pkg-ver, slots, operators; 0-3 keywords incl. "
        "the sentinels * ^ -, tokens with an inner #; leading/trailing/irregular whitespace incl. tabs, NBSP, U+3000), blank lines, "
        "comment lines, trailing comments (also followed by trailing blanks, which belong to the comment), line endings \\n \\r\\n \\r none and occasionally \\v \\f \\x1c \\x85 U+2028, a few malformed "
        "specs; random suggestion tables (empty, one, several keywords, a literal sentinel); with_keywords on random parsed entries "
        "with random new keywords; build from random (atom, keywords) lists, the entries and each entry's keywords handed over as every kind of "
        "Iterable (list, tuple, deque, dict keys, and one-shot: generator, map, iterator, a class with only __iter__). non-trivial = at least two package lines and (a sentinel, "
        "a comment or irregular spacing). The property is evaluated on the real code for every text before any model comparison; a "
        "failing text is shrunk (lines, then characters) before it is reported; where model and code disagree the property is "
        "evaluated (incl. with_keywords on every line) on the text and its neighbours (single lines, keywords replaced by sentinels, "
        "blanks/comments appended at the line end) and only if it holds on all of them is the disagreement filed as a mismatch")


def gen_tables(repo):
    """character classes of the CPython primitives the code uses + the sentinel constants of the imported module"""
    from pkgcore.bugzilla import pkglist
    space = [c for c in range(0x110000) if chr(c).isspace()]
    # str.split(), re \s (as used by _TOKEN_RE / _COMMENT_RE) and str.isspace must be one class for the model to be right
    if [c for c in range(0x110000) if bool(re.match(r"\s", chr(c))) != chr(c).isspace()]:
        raise RuntimeError("re \\s differs from str.isspace")
    if [c for c in space if len(("a" + chr(c) + "b").split()) != 2]:
        raise RuntimeError("str.split() whitespace differs from str.isspace")
    if pkglist._TOKEN_RE.pattern != r"\S+" or pkglist._COMMENT_RE.pattern != r"(?:^|\s)#" or pkglist._TOKEN_RE.flags != pkglist._COMMENT_RE.flags:
        raise RuntimeError(f"regexes changed: {pkglist._TOKEN_RE.pattern!r} {pkglist._COMMENT_RE.pattern!r}")
    breaks = [c for c in range(0x110000) if len(("a" + chr(c) + "b").splitlines()) == 2]
    sent = [pkglist.ALL_KEYWORDS, pkglist.SAME_KEYWORDS, pkglist.NO_KEYWORDS]
    if any(len(s) != 1 for s in sent):
        raise RuntimeError("sentinels are no longer single characters")
    text = ("-- GENERATED from /repo and CPython by harness/props/c38.py (gen_tables); do not edit\n"
            "namespace Pkgcore.Generated.C38\n"
            f"def spaceTable : List Nat := {space}\n"
            f"def breakTable : List Nat := {breaks}\n"
            f"def allKeywords : Char := Char.ofNat {ord(sent[0])}\n"
            f"def sameKeywords : Char := Char.ofNat {ord(sent[1])}\n"
            f"def noKeywords : Char := Char.ofNat {ord(sent[2])}\n"
            "end Pkgcore.Generated.C38\n")
    return {"Pkgcore/Generated/C38Tables.lean": text}


# ------------------------------------------------------------------ generators

SPECS = ["dev-libs/a", "dev-libs/a-1.2.3", "=dev-libs/b-2", ">=x11-libs/c-3-r1", "app/d:2", "~app/e-1"]
BAD_SPECS = ["not-an-atom", "dev-libs/foo[bar]", "!dev-libs/foo", "dev-libs/foo::gentoo", "=dev-libs/foo-1:="]
KWS = ["amd64", "~arm64", "x86", "*", "^", "-", "arm#x", "ppc", "*", "^"]
WS = [" ", " ", "  ", "\t", " \t ", "   "]
ODD_WS = ["\xa0", "\u2003", "\u3000 "]
EOLS = ["\n", "\n", "\r\n", "\r"]
ODD_EOLS = ["\x0b", "\x0c", "\x1c", "\x1d", "\x1e", "\x85", "\u2028", "\u2029", "\n\r", "\r\r\n"]
AFTER_COMMENT = ["", "", "", "", " ", "  ", "\t", " \t ", "\xa0"]     # trailing blanks after a comment (part of the comment text)
SUGGESTIONS = [[], ["amd64"], ["arm", "~x86"], ["hppa", "ppc", "sparc"], ["*"], ["-"], ["^"], ["a#b"]]


def gen_line(rng):
    k = rng.random()
    if k < 0.08:
        return rng.choice(["", " ", "\t", "   "])
    if k < 0.18:
        return rng.choice(["", " ", "\t "]) + "#" + rng.choice(["", " note", "# x *", " dev-libs/a *"]) + rng.choice(AFTER_COMMENT)
    ws = lambda: rng.choice(ODD_WS) if rng.random() < 0.04 else rng.choice(WS)
    s = rng.choice(["", "", "", " ", "   ", "\t"])
    s += rng.choice(BAD_SPECS) if rng.random() < 0.03 else rng.choice(SPECS)
    for _ in range(rng.choice([0, 1, 1, 1, 2, 2, 3])):
        s += ws() + rng.choice(KWS)
    s += rng.choice(["", "", "", " ", "   ", "\t"])
    if rng.random() < 0.3:
        # the comment runs to the end of the line, including any blanks typed after it
        s += rng.choice([" ", "\t", "  "]) + "#" + rng.choice(["", " c", " ^ *", "#", "keep me", " two  words # twice", "\tx"]) + rng.choice(AFTER_COMMENT)
    elif rng.random() < 0.03:
        s += "#glued"          # no whitespace before '#': part of the last token, not a comment
    return s


def gen_text(rng):
    n = rng.choice([0, 1, 1, 2, 2, 3, 3, 4, 5, 6])
    out = ""
    for i in range(n):
        line = gen_line(rng)
        last = i == n - 1
        if last and rng.random() < 0.4:
            eol = ""
        elif rng.random() < 0.05:
            eol = rng.choice(ODD_EOLS)
        else:
            eol = rng.choice(EOLS)
        out += line + eol
    return out


CORPUS_TEXTS = [
    "",
    "\n",
    "  dev-python/foo-1.2 amd64 x86  # careful\ndev-libs/bar\n\n# standalone comment\n",
    "dev-libs/a amd64#x86",
    "  dev-libs/a amd64  # note\r\ndev-libs/b *\r\n\r\ndev-libs/c",
    "dev-libs/a *\ndev-libs/b ^\ndev-libs/c ^",
    "dev-libs/a ^",
    "dev-libs/a\ndev-libs/b ^ amd64",
    "dev-libs/a -\ndev-libs/b ^",
    "dev-libs/a amd64\n\n# note\ndev-libs/b ^",
    "dev-libs/a-1        *   # aligned\n",
    "   dev-libs/a amd64   # keep me\ndev-libs/b *\n",
    # comments followed by trailing blanks, on rewritten and on untouched lines
    "dev-libs/a *   # first pass  \n",
    "  dev-libs/a-1.2 amd64\t# keep \t\r\ndev-libs/b ^ ppc # same as above \r\n# done \r\n",
    "dev-libs/a * #\t",
    "dev-libs/a amd64 # x \ndev-libs/b ^\t#  \n \t# only a comment\t \n",
    "dev-libs/a * ppc",
    "dev-libs/a *\r\ndev-libs/b ^\r\n",
    "dev-libs/a\t*\t\t^\x0bdev-libs/b ^ \x1c",      # exotic line boundaries end a line (and stay in raw)
    "dev-libs/a *\u2028dev-libs/b\xa0^\u3000#c\x85",
    "dev-libs/a * #\n#\n #\ndev-libs/b ^#x ^",
    "not an atom\n",
    "dev-libs/a *\nnot-an-atom *\n",
    "dev-libs/a\r\r\ndev-libs/b ^\n\r",
]


def split_spec(line_raw):
    """independent left-to-right scanner of one line: (lead, spec, sep, kwtext, trail, comment) or None for blank/comment lines.
    A comment starts at the first '#' that is at index 0 or directly after a whitespace character."""
    ca = len(line_raw)
    for i, c in enumerate(line_raw):
        if c == "#" and (i == 0 or line_raw[i - 1].isspace()):
            ca = i
            break
    body, comment = line_raw[:ca], line_raw[ca:]
    i = 0
    while i < len(body) and body[i].isspace():
        i += 1
    if i == len(body):
        return None
    j = i
    while j < len(body) and not body[j].isspace():
        j += 1
    k = j
    while k < len(body) and body[k].isspace():
        k += 1
    if k == len(body):
        return (body[:i], body[i:j], "", "", body[j:], comment)
    e = len(body)
    while body[e - 1].isspace():
        e -= 1
    return (body[:i], body[i:j], body[j:k], body[k:e], body[e:], comment)


def layout_of(raw):
    """independent reading of a line into the model's layout shape: items [[ws, tok]...], trail, comment"""
    ca = len(raw)
    for i, c in enumerate(raw):
        if c == "#" and (i == 0 or raw[i - 1].isspace()):
            ca = i
            break
    body, comment = raw[:ca], raw[ca:]
    items, i = [], 0
    while True:
        j = i
        while j < len(body) and body[j].isspace():
            j += 1
        if j == len(body):
            return {"layout": {"items": items, "trail": body[i:]}, "comment": comment}
        k = j
        while k < len(body) and not body[k].isspace():
            k += 1
        items.append([body[i:j], body[j:k]])
        i = k


class RefError(Exception):
    def __init__(self, kind, lineno):
        self.kind, self.lineno = kind, lineno


def ref_expand(text, valid, suggest):
    """the property as a reference implementation on the line structure: only lines whose keywords change are rewritten, and a
    rewritten line keeps lead, spec, separator (single space if it had no keywords), trailing whitespace, comment, ending"""
    out, prev = [], None
    for lineno, line in enumerate(text.splitlines(keepends=True), 1):
        raw = line.rstrip("\r\n")
        eol = line[len(raw):]
        sc = split_spec(raw)
        if sc is None:
            out.append(line)
            continue
        lead, spec, sep, kwtext, trail, comment = sc
        if spec not in valid:
            raise RefError("malformed", lineno)
        out.append((lineno, line, raw, eol, sc))
    res = []
    for item in out:
        if isinstance(item, str):
            res.append(item)
            continue
        lineno, line, raw, eol, (lead, spec, sep, kwtext, trail, comment) = item
        kws = kwtext.split()
        new = []
        for kw in kws:
            if kw == "*":
                new.extend(suggest(valid[spec]) or ["-"])
            elif kw == "^":
                if prev is None:
                    raise RefError("nothing_above", lineno)
                if not prev and len(kws) > 1:
                    raise RefError("copies_empty", lineno)
                new.extend(prev)
            else:
                new.append(kw)
        prev = new
        if new != kws:
            first_sep = sep if kws else (" " if new else "")
            res.append(lead + spec + first_sep + " ".join(new) + trail + comment + eol)
        else:
            res.append(line)
    return "".join(res)


# ------------------------------------------------------------------ the property on the real code
DEFAULT_SUGGESTION = ["arm", "x86"]
PROBE_KEYWORDS = [[], ["amd64"], ["~x86", "-"]]


def expand_outcome(pl, by_atom):
    """real expand -> ("ok", text, list object) / ("err", kind, lineno) / ("raised", description)"""
    from pkgcore.bugzilla.errors import PackageListError
    try:
        got_pl = pl.expand(lambda pkg: tuple(by_atom.get(str(pkg), DEFAULT_SUGGESTION)))
        return ("ok", str(got_pl), got_pl)
    except PackageListError as e:
        msg = str(e)
        kind = "nothing_above" if "no line above" in msg else "copies_empty" if "copies an empty line" in msg else "malformed"
        return ("err", kind, e.lineno)
    except Exception as e:
        return ("raised", f"expand raised {type(e).__name__}: {e}")


def rewrite_failure(e, new):
    """with_keywords(new) on one real parsed entry against the layout the property demands; None when it holds"""
    try:
        got = e.with_keywords(iter(new))
    except Exception as ex:
        return f"with_keywords({new}) on line {e.raw!r} raised {type(ex).__name__}: {ex}"
    if e.pkg is None:
        return None if got is e else f"with_keywords on the line {e.raw!r} without package did not return the entry itself"
    lead, spec, sep, kwtext, trail, comment = split_spec(e.raw)
    first_sep = sep if kwtext else (" " if new else "")
    want_raw = lead + spec + first_sep + " ".join(new) + trail + comment
    if got.raw != want_raw:
        return f"line {e.raw!r} rewritten with keywords {new} gives {got.raw!r}; keeping spec, spacing and comment gives {want_raw!r}"
    if (got.lineno, got.pkg, got.eol, got.keywords) != (e.lineno, e.pkg, e.eol, tuple(new)):
        return f"rewriting line {e.raw!r} changed more than raw/keywords: {entry_json(got)}"
    return None


def text_property(text, by_atom, deep=False, info=None):
    """the property itself on the real code for one text and one suggestion table: parse/render identity, expansion = the
    reference (only lines whose keywords change are rewritten; spec, spacing, comment, ending kept); with deep=True also
    with_keywords on every parsed line for a few keyword lists.  None when it holds, else the description of the failure."""
    from pkgcore.bugzilla.errors import PackageListError
    from pkgcore.bugzilla.pkglist import PackageList
    info = {} if info is None else info
    pl = PackageList(text, bug_id=7)
    try:
        entries = pl.entries
    except PackageListError as e:
        entries = None
        info["perr"] = e.lineno
    except Exception as e:
        return f"parsing raised {type(e).__name__}: {e}"
    info["pl"], info["entries"] = pl, entries
    if entries is not None:
        rendered = "".join(e.raw + e.eol for e in entries)
        if rendered != text:
            return f"rendering the parsed entries gives {rendered!r}"
        if str(pl) != text:
            return "str(PackageList(text)) != text"
    valid = atom_oracle(text)
    got = info["got"] = expand_outcome(pl, by_atom)
    if got[0] == "raised":
        return got[1]
    try:
        want = ("ok", ref_expand(text, valid, lambda a: list(by_atom.get(a, DEFAULT_SUGGESTION))))
    except RefError as e:
        want = ("err", e.kind, e.lineno)
    if got[:2] != want[:2] or (got[0] == "err" and got != want):
        if got[0] == "ok" and want[0] == "ok":
            gl, wl = got[1].splitlines(keepends=True), want[1].splitlines(keepends=True)
            diff = next(((i + 1, a, b) for i, (a, b) in enumerate(zip(gl, wl)) if a != b), None)
            return (f"expand gives {got[1]!r}; touching only the changed lines and keeping their layout gives {want[1]!r}; "
                    f"first differing line {diff}")
        return f"expand gives {got[:3] if got[0] == 'err' else got[:2]}, the reference gives {want}"
    if deep and entries is not None:
        for e in entries:
            for new in PROBE_KEYWORDS:
                d = rewrite_failure(e, new)
                if d is not None:
                    return d
    return None


def neighbours(text):
    """texts near `text` on which damage done to one line becomes observable: every line alone and with its predecessor; every
    package line with its keywords replaced by a sentinel (`^` below a plain line), with blanks appended / stripped at its end and
    with a comment (followed by blanks or not) appended"""
    lines = text.splitlines(keepends=True)
    out = []

    def add(t):
        if t not in out and t != text:
            out.append(t)
    for i, line in enumerate(lines):
        add(line)
        if i:
            add(lines[i - 1] + line)
        raw = line.rstrip("\r\n")
        eol = line[len(raw):]
        sc = split_spec(raw)
        if sc is None:
            continue
        lead, spec, sep, kwtext, trail, comment = sc
        tails = [trail + comment, trail + comment + " ", trail + comment + "\t ", (trail + comment).rstrip()]
        if not comment:
            tails += [trail + " # c", trail + "\t# c  "]
        for tail in tails:
            for kw in ("*", "^ x86", (kwtext + " *").strip(), kwtext):
                variant = lead + spec + (sep or " ") + kw + tail + eol
                add(variant)
                add("dev-libs/zz amd64 ~arm\n" + variant)
    return out[:400]


def shrink_text(text, fails, budget=400):
    """greedy reduction of a failing text: drop whole lines, then single characters, while `fails` still reports a failure"""
    detail = fails(text)
    spent = 0
    progress = True
    while progress and spent < budget:
        progress = False
        lines = text.splitlines(keepends=True)
        for i in range(len(lines)):
            cand = "".join(lines[:i] + lines[i + 1:])
            spent += 1
            d = fails(cand)
            if d is not None:
                text, detail, progress = cand, d, True
                break
    i = 0
    while i < len(text) and spent < budget:
        cand = text[:i] + text[i + 1:]
        spent += 1
        d = fails(cand)
        if d is not None:
            text, detail = cand, d
        else:
            i += 1
    return text, detail


def report_failure(ctx, text, by_atom, detail, deep, origin=None):
    """shrink a text on which the property fails and report it as a violation"""
    small, sdetail = shrink_text(text, lambda t: text_property(t, by_atom, deep))
    table = {a: by_atom.get(a, DEFAULT_SUGGESTION) for a in sorted(set(atom_oracle(small).values()))}
    case = {"text": small, "suggest": table}
    note = "" if small == text and origin is None else f"  [shrunk from {text!r}" + (f", found next to {origin}" if origin else "") + "]"
    ctx.violation(case, sdetail + note)


def explore(ctx, text, by_atom, why):
    """model and code disagree on `text`: evaluate the property on the real code for this text (deep) and its neighbours, with the
    case's suggestion table and the default one; report the (shrunk) failing input and return True, or return False"""
    for t in [text] + neighbours(text):
        for table in (by_atom, {}):
            d = text_property(t, table, deep=True)
            if d is not None:
                report_failure(ctx, t, table, d, True, origin=f"{text!r}, where {why}")
                return True
    return False


# ------------------------------------------------------------------ run

def atom_oracle(text):
    """token -> canonical atom text, through the real parse_atom, for every whitespace separated token of the text"""
    from pkgcore.bugzilla.pkglist import parse_atom
    from pkgcore.ebuild.errors import MalformedAtom
    out = {}
    for tok in set(text.split()):
        try:
            out[tok] = str(parse_atom(tok))
        except MalformedAtom:
            pass
    return out


class OneShot:
    """an Iterable with nothing but __iter__, every call handing out the same (single) iterator: the minimal typing.Iterable"""

    def __init__(self, items):
        self._it = iter(list(items))

    def __iter__(self):
        return self._it


ENTRY_SHAPES = ["list", "tuple", "generator", "iter", "oneshot"]
KW_SHAPES = ["tuple", "list", "generator", "map", "iter", "dict_keys", "deque", "oneshot"]


def shaped(shape, items):
    """the same sequence of items as another kind of Iterable"""
    import collections
    items = list(items)
    if shape == "list":
        return items
    if shape == "tuple":
        return tuple(items)
    if shape == "generator":
        return (x for x in items)
    if shape == "map":
        return map(lambda x: x, items)
    if shape == "iter":
        return iter(items)
    if shape == "dict_keys":          # keeps the first occurrence of a repeated keyword only: fall back to a tuple when there is one
        return dict.fromkeys(items).keys() if len(set(items)) == len(items) else tuple(items)
    if shape == "deque":
        return collections.deque(items)
    if shape == "oneshot":
        return OneShot(items)
    raise ValueError(shape)


def entry_json(e):
    return [e.lineno, e.raw, None if e.pkg is None else str(e.pkg), list(e.keywords), e.comment, e.eol]


def run(ctx):
    from pkgcore.bugzilla.errors import PackageListError
    from pkgcore.bugzilla.pkglist import PackageList, parse_atom
    from pkgcore.ebuild.atom import atom
    rng = ctx.rng
    texts = list(CORPUS_TEXTS)
    deep_texts = set()
    if ctx.replay_cases:
        deep_texts = {c["text"] for c in ctx.replay_cases if "text" in c}
        for c in ctx.replay_cases:      # recorded with_keywords cases: re-read the line with the real parser and rewrite it again
            if "entry" in c and "new_keywords" in c:
                try:
                    (e,) = PackageList(c["entry"][1]).entries
                except Exception:
                    continue
                d = rewrite_failure(e, c["new_keywords"])
                if d is not None:
                    ctx.violation(c, d)
        texts = [(c["text"], c.get("suggest") or {}) for c in ctx.replay_cases if "text" in c] + texts
    texts += [gen_text(rng) for _ in range(ctx.n(5000, 120000))]
    if not ctx.quick():
        # bounded-exhaustive: every line of a small layout grammar alone, and every ordered pair from a reduced grammar
        import itertools
        kwseqs = [[]] + [[a] for a in "*^x"] + [[a, b] for a in "*^x" for b in "*^x"]
        full = [lead + "dev-libs/a" + "".join(sep + k for k in ks) + trail + cm + eol
                for lead in ("", " ") for ks in kwseqs for sep in (" ", "  ") for trail in ("", " ")
                for cm in ("", " #c") for eol in ("\n", "\r\n", "")]
        small = ["dev-libs/a" + "".join(sep + k for k in ks) + cm + eol
                 for ks in kwseqs for sep in (" ",) for cm in ("", " #c") for eol in ("\n", "\r\n")] + ["\n", "# c\n"]
        exhaustive = sorted(set(full)) + [a + b for a, b in itertools.product(small, repeat=2)]
        ctx.extra["exhaustive_small_grammar_texts"] = len(exhaustive)
        texts += exhaustive

    # ---------------- parse + expand
    cases = []
    for text in texts:
        recorded = {}
        if isinstance(text, tuple):
            text, recorded = text
        valid = atom_oracle(text)
        ids = sorted(set(valid.values()))
        table = {a: recorded[a] if a in recorded else rng.choice(SUGGESTIONS) for a in ids}
        cases.append((text, valid, table))
    reqs = []
    for text, valid, table in cases:
        reqs.append({"cmd": "c38.parse", "text": text, "atoms": valid})
        reqs.append({"cmd": "c38.expand", "text": text, "atoms": valid, "suggest": table})
    replies = ctx.model(reqs)
    wk_cases = []
    explored = 0
    for idx, (text, valid, table) in enumerate(cases):
        rp, re_ = replies[2 * idx], replies[2 * idx + 1]
        case = {"text": text, "suggest": table}
        if not isinstance(rp, dict) or not isinstance(re_, dict):
            ctx.mismatch(case, f"driver answered {rp!r} / {re_!r}")
            continue
        # ---- edge C: the property on the real code (render identity; reference = only changed lines rewritten, layout kept)
        info = {}
        deep = text in deep_texts
        detail = text_property(text, table, deep=deep, info=info)
        entries, perr, got, pl = info.get("entries"), info.get("perr"), info.get("got"), info.get("pl")
        npk = 0 if entries is None else sum(1 for e in entries if e.pkg is not None)
        has_sentinel = entries is not None and any(k in ("*", "^") for e in entries for k in e.keywords)
        irregular = bool(re.search(r"[ \t]{2,}|\t|#|^\s", text, flags=re.M))
        ctx.case(case, npk >= 2 and (has_sentinel or irregular), key=repr((text, sorted(table.items()))))
        ctx.count("lines_%d" % min(len(text.splitlines()), 6))
        ctx.count("pkg_lines_%d" % min(npk, 5))
        if has_sentinel:
            ctx.count("has_sentinel")
        if "\r\n" in text:
            ctx.count("has_crlf")
        if any(c in text for c in "\x0b\x0c\x1c\x1d\x1e\x85\u2028\u2029"):
            ctx.count("has_exotic_line_boundary")
        if "#" in text:
            ctx.count("has_comment_or_hash")
        if entries is not None:
            if any(e.comment and e.comment != e.comment.rstrip() for e in entries):
                ctx.count("has_blanks_after_comment")
            if any(e.pkg is not None and e.comment and e.raw != e.raw.rstrip() and any(k in ("*", "^") for k in e.keywords) for e in entries):
                ctx.count("has_sentinel_line_with_comment_and_trailing_blanks")
        if detail is not None:
            report_failure(ctx, text, table, detail, deep)
            continue
        if perr is not None:
            ctx.count("parse_error")
        ctx.count("expand_" + (got[0] if got[0] == "ok" else got[1]))
        if got[0] == "ok" and got[1] != text:
            ctx.count("expand_changed_something")
        if got[0] == "ok" and got[1] == text and got[2] is not pl:
            ctx.note("expand built a new (equal) PackageList although nothing changed — allowed by the property, noted only")
        # ---- edge A: model vs implementation; on a disagreement the property is evaluated on the real code for this text (incl.
        # with_keywords on each of its lines) and for the neighbouring texts before it is filed as a mere mismatch
        why = None
        model = ("ok", re_["ok"]) if "ok" in re_ else ("err", re_["err"][0], re_["err"][1])
        if (perr is None) != ("entries" in rp):
            why = f"impl parse {'ok' if perr is None else 'error line %s' % perr}, model {rp}"
        elif perr is not None and rp["err"] != perr:
            why = f"impl reports line {perr}, model line {rp['err']}"
        elif perr is None and [entry_json(e) for e in entries] != rp["entries"]:
            why = f"impl entries {[entry_json(e) for e in entries]} != model {rp['entries']}"
        elif got[:2] != model[:2] or (got[0] == "err" and got != model):
            why = f"impl expand {got[:3] if got[0] == 'err' else got[:2]} != model {model}"
        if why is not None:
            explored += 1
            if explored > 25 or not explore(ctx, text, table, why):
                ctx.mismatch(case, why)
            continue
        if entries:
            wk_cases.append((text, entries))

    # ---------------- with_keywords on parsed entries
    picks = []
    for text, entries in wk_cases[: ctx.n(2500, 40000)]:
        e = rng.choice(entries)
        new = [rng.choice(["amd64", "~x86", "-", "*", "^", "a#b", "ppc64"]) for _ in range(rng.choice([0, 0, 1, 2, 3]))]
        picks.append((e, new))
    reqs = [{"cmd": "c38.with_keywords", "entry": entry_json(e), "keywords": new} for e, new in picks]
    for (e, new), rep in zip(picks, ctx.model(reqs)):
        case = {"entry": entry_json(e), "new_keywords": new}
        if not isinstance(rep, dict):
            ctx.mismatch(case, f"driver answered {rep!r}")
            continue
        try:
            got = e.with_keywords(iter(new))
        except Exception as ex:
            ctx.case(case, True)
            ctx.violation(case, f"with_keywords raised {type(ex).__name__}: {ex}")
            continue
        ctx.case(case, e.pkg is not None and (bool(e.comment) or e.raw != e.raw.strip() or len(e.keywords) != len(new)), key=repr(case))
        ctx.count("wk_blank" if e.pkg is None else "wk_old%d_new%d" % (min(len(e.keywords), 3), min(len(new), 3)))
        sc = split_spec(e.raw)
        if e.pkg is None:
            if got is not e:
                ctx.violation(case, "with_keywords on a line without package did not return the entry itself")
                continue
        else:
            lead, spec, sep, kwtext, trail, comment = sc
            first_sep = sep if kwtext else (" " if new else "")
            want_raw = lead + spec + first_sep + " ".join(new) + trail + comment
            if got.raw != want_raw:
                ctx.violation(case, f"rewritten line {got.raw!r}; keeping spec, spacing and comment gives {want_raw!r}")
                continue
            if (got.lineno, got.pkg, got.comment, got.eol, got.keywords) != (e.lineno, e.pkg, e.comment, e.eol, tuple(new)):
                ctx.violation(case, f"rewritten entry changed more than raw/keywords: {entry_json(got)}")
                continue
            # reading the rewritten line back with the real parser
            try:
                (back,) = PackageList(got.raw).entries
                if (back.pkg, back.keywords, back.comment) != (e.pkg, tuple(new), e.comment):
                    ctx.violation(case, f"the rewritten line {got.raw!r} parses as {entry_json(back)}")
                    continue
            except Exception as ex:
                ctx.violation(case, f"the rewritten line {got.raw!r} no longer parses: {ex}")
                continue
        # edge A: model entry, and the Lean re-reading = the independent python re-reading = the specified layout
        why = None
        if entry_json(got) != rep["entry"]:
            why = f"impl {entry_json(got)} != model {rep['entry']}"
        elif layout_of(got.raw) != rep["reread"]:
            why = f"python reading of the new line {layout_of(got.raw)} != lean reading {rep['reread']}"
        elif e.pkg is not None and rep["reread"] != rep["expected"]:
            why = f"lean reading {rep['reread']} != specified layout {rep['expected']} (theorem rewrite_preserves… broken?)"
        if why is not None:
            explored += 1
            if explored > 25 or not explore(ctx, e.raw + e.eol, {}, why):
                ctx.mismatch(case, why)

    # ---------------- build
    ATOMS = ["dev-libs/a", "=dev-libs/a-1.2.3", ">=x11-libs/c-3-r1", "app/d:2", "~app/e-1", "=dev-libs/f-1*", "<app/g-2:3/4", "app/d:2/3"]
    builds = [[], [("=dev-libs/a-1", ["amd64", "x86"]), ("dev-libs/b", [])]]
    for _ in range(ctx.n(1500, 30000)):
        builds.append([(rng.choice(ATOMS), [rng.choice(["amd64", "~x86", "-", "*", "^", "a#b"]) for _ in range(rng.choice([0, 1, 2, 3]))])
                       for _ in range(rng.randint(0, 4))])
    reqs = [{"cmd": "c38.build", "entries": [[str(atom(a)), kws] for a, kws in b]} for b in builds]
    # build() takes Iterable[tuple[atom, Iterable[str]]]: the entries and each entry's keywords are handed over in every shape an
    # Iterable comes in — re-iterable containers and one-shot iterators (generator, map, iter, a class with only __iter__)
    recorded_shapes = {}
    if ctx.replay_cases:
        for c in ctx.replay_cases:
            if "build" in c:
                b = [(a, list(kws)) for a, kws in c["build"]]
                builds.insert(0, b)
                reqs.insert(0, {"cmd": "c38.build", "entries": [[str(atom(a)), kws] for a, kws in b]})
                if "shapes" in c:
                    recorded_shapes[repr(b)] = c["shapes"]
    for bi, (b, rep) in enumerate(zip(builds, ctx.model(reqs))):
        if repr(b) in recorded_shapes:
            shapes = recorded_shapes[repr(b)]
        elif bi < 2 * len(KW_SHAPES):
            shapes = {"entries": ENTRY_SHAPES[bi % len(ENTRY_SHAPES)], "keywords": [KW_SHAPES[bi % len(KW_SHAPES)]] * len(b)}
        else:
            shapes = {"entries": rng.choice(ENTRY_SHAPES), "keywords": [rng.choice(KW_SHAPES) for _ in b]}
        case = {"build": b, "shapes": shapes}
        ents = [(atom(a), tuple(kws)) for a, kws in b]
        ctx.count("build_entries_as_" + shapes["entries"])
        for sh in shapes["keywords"]:
            ctx.count("build_keywords_as_" + sh)
        try:
            pl = PackageList.build(shaped(shapes["entries"], [(a, shaped(sh, kws)) for (a, kws), sh in zip(ents, shapes["keywords"])]))
            back = pl.entries
        except Exception as ex:
            ctx.case(case, True)
            ctx.violation(case, f"build/parse raised {type(ex).__name__}: {ex}")
            continue
        ctx.case(case, len(b) >= 2, key=repr(b))
        ctx.count("build_entries_%d" % len(b))
        if any(parse_atom(str(a)) != a for a, _ in ents):
            ctx.note("parse_atom(str(atom)) != atom for a generated atom (contract of build_parse_roundtrip not met)")
            continue
        if [(e.pkg, e.keywords) for e in back] != ents or any(e.comment for e in back):
            # shrink: the first single entry that, handed over in the same shapes, already fails to come back
            for (a, kws), sh in zip(b, shapes["keywords"]):
                try:
                    one = PackageList.build(shaped(shapes["entries"], [(atom(a), shaped(sh, kws))]))
                    oback = [(e.pkg, e.keywords) for e in one.entries]
                except Exception:
                    continue
                if oback != [(atom(a), tuple(kws))]:
                    ctx.violation({"build": [(a, kws)], "shapes": {"entries": shapes["entries"], "keywords": [sh]}},
                                  f"build of one entry ({a!r}, keywords {kws!r} given as {sh}, entries given as {shapes['entries']}) gives the text "
                                  f"{str(one)!r}, which parses back as {[(str(p_), list(k_)) for p_, k_ in oback]}")
                    break
            else:
                ctx.violation(case, f"built text {str(pl)!r} (entries given as {shapes['entries']}, keywords as {shapes['keywords']}) parses back as "
                              f"{[entry_json(e) for e in back]}")
            continue
        if str(pl) != rep:
            ctx.mismatch(case, f"impl builds {str(pl)!r}, model {rep!r}")


LEVEL_TEXT = ("Kernel-checked Lean 4 theorems about a character-level model of PackageList._parse, PackageListEntry.with_keywords, "
              "expand and build: every text that parses renders back to itself (any line boundaries); a built list parses back to its "
              "entries; expand returns the rendering of entries each of which is the parsed entry itself or the rewriting of a package "
              "line that carried a sentinel and whose keywords changed (lines without sentinels byte-identical); and a rewritten line, read "
              "back with the code's own comment/token recognisers, has the same leading whitespace, spec token, separator, trailing "
              "whitespace, comment and line ending, with the new keywords single-space separated — for all texts, suggestion functions "
              "and keyword tokens. Tied to the code by a differential run on random lists (CRLF/CR/exotic boundaries, comments, "
              "irregular spacing, sentinels, malformed specs), which also evaluates the property on the real code against an "
              "independent left-to-right line scanner.")
LEVEL_NOTE = ("Trusted: Lean kernel; standard axioms only; the structural models of str.splitlines/rstrip/split and of the two regular "
              "expressions (character classes regenerated from CPython each run); parse_atom as an oracle.")
