"""C09 — dependency strings round-trip; USE evaluation preserves meaning."""
import itertools

PID = "C09"
LEAN_MODULES = ["Pkgcore.Props.C09"]
OBLIGATIONS = [
    "Pkgcore.C09.parse_render",
    "Pkgcore.C09.parse_output_wellformed",
    "Pkgcore.C09.render_parse_roundtrip",
    "Pkgcore.C09.collapse_preserves_meaning",
    "Pkgcore.C09.reject_unbalanced",
    "Pkgcore.C09.reject_dangling",
    "Pkgcore.C09.reject_empty_group",
    "Pkgcore.C09.evaluate_cond_free",
    "Pkgcore.C09.evaluate_preserves_absent",
    "Pkgcore.C09.absent_eq_pms_of_tame",
    "Pkgcore.C09.evaluate_preserves_sat_partial",
    "Pkgcore.C09.evaluate_preserves_sat_counterexample",
    "Pkgcore.C09.evaluate_keeps_repeated_members",
    "Pkgcore.C09.class_table_complete",
    "Pkgcore.C09.operator_tables_standard",
    "Pkgcore.C09.render_open_table",
]
TRUSTED = [
    "tokenisation is dep_str.split(); the model works on the token list (Python splits on both sides of the comparison)",
    "elements (atoms, licenses, file names, flags) are represented by their text; element_func is a parameter of the model "
    "(which tokens it rejects is taken from the real element_func in the correspondence run); str(element) == token is checked per case",
    "class attributes _evaluate_collapsible/_evaluate_wipe_empty, the operator tables ebuild_src passes to DepSet.parse and the group-opening "
    "text of stringify_boolean are regenerated from the imported modules on every run (Generated/C09Tables.lean)",
    "evaluate_depset is modelled for tristate_filter=None only",
    "transitive USE atoms (cat/pkg[flag?], [!flag=] ...) are elements whose text changes under evaluation; that rewriting is not in the Lean "
    "model: it is checked on the real code only, against the PMS 8.3.4 table written in the harness",
]
ASSUMPTIONS = [
    "the flag container handed to evaluate_depset is a set/list/tuple of strings (a str would be matched by substring)",
    "SRC_URI: the text of an element built from `uri -> name` is `uri -> name` (pkgcore has no renderer for renames; the harness's element_func keeps both parts)",
]
RULE = ("grammar-generated dependency strings per element class (atom/DEPEND, LICENSE, RESTRICT, SRC_URI with renames, REQUIRED_USE, REQUIRED_USE of an "
        "EAPI without ??): nested all-of/any-of/^^/??/conditional/negated-conditional groups to depth 4 incl. single-child and same-kind nested groups, "
        "about half of the strings over a pool of 1-3 elements (the same element several times in one string / one group), "
        "random white space, 0-2 token-level corruptions in about a third of the cases; every subset of the referenced flags (<=5 flags) and every "
        "subset of the elements (<=4 elements, else 12 random subsets) as valuations; then evaluation histories: one DepSet object asked 3-8 "
        "more times with the caller's own mutable set / list changed in place between the calls (single toggles, jumps, the same content "
        "again) and fresh frozensets interleaved, every answer judged for the content at the time of the call; where model and code "
        "evaluate an input differently without a valuation separating the meanings: the property on the real code on its shrinks, operator "
        "variants, wraps and its REQUIRED_USE transliteration under all flag and element subsets; non-trivial = the string parses and has a group or a conditional, "
        "or it is a corrupted string")

CLASSES = ["atom", "license", "restrict", "src_uri", "required_use", "required_use_eapi4"]
ATTR_OF = {"atom": "DEPEND", "license": "LICENSE", "restrict": "RESTRICT", "src_uri": "SRC_URI",
           "required_use": "REQUIRED_USE", "required_use_eapi4": "REQUIRED_USE_EAPI4"}
GROUP_CLASSES = ["AndRestriction", "OrRestriction", "JustOneRestriction", "AtMostOneOfRestriction"]
KIND_OF_CLASS = {"AndRestriction": "and", "OrRestriction": "or", "JustOneRestriction": "one", "AtMostOneOfRestriction": "most"}
SYM = {"and": "", "or": "||", "one": "^^", "most": "??"}


# ------------------------------------------------------------------ introspection of the call sites

class _Recorder:
    def __init__(self):
        self.calls = []

    def parse(self, dep_str, element_class, **kw):
        self.calls.append((dep_str, element_class, kw))
        return None

    def __call__(self, *a, **kw):
        return None


def call_site(attr_func, eapi_str, data):
    """run the real ebuild_src accessor on a stub package with DepSet.parse intercepted -> kwargs it passes"""
    from pkgcore.ebuild import ebuild_src, eapi
    rec = _Recorder()

    class Stub:
        _generate_depset = ebuild_src.base._generate_depset
        _mk_required_use_node = staticmethod(ebuild_src.base._mk_required_use_node)

    s = Stub()
    s.eapi = eapi.get_eapi(eapi_str)
    s.data = dict(data)

    class FakeConditionals:
        DepSet = rec

    saved = ebuild_src.conditionals
    ebuild_src.conditionals = FakeConditionals
    try:
        ebuild_src.base._get_attr[attr_func](s)
    finally:
        ebuild_src.conditionals = saved
    if len(rec.calls) != 1:
        raise RuntimeError(f"{attr_func}: expected one DepSet.parse call, saw {len(rec.calls)}")
    dep_str, element_class, kw = rec.calls[0]
    return element_class, kw


def effective_operators(element_class, kw):
    """operator table in effect: the mapping passed, or (operators=None) the default of DepSet.parse found by probing"""
    from pkgcore.ebuild.conditionals import DepSet
    from pkgcore.restrictions import boolean
    ops = kw.get("operators")
    out = []
    if ops is not None:
        for k, v in ops.items():
            out.append((k, v.__name__ if isinstance(v, type) else "!"))
        return out
    for tok in ["||", "", "^^", "??"]:
        try:
            d = DepSet.parse(f"{tok} ( a b )", str)
        except Exception:
            continue
        if len(d.restrictions) == 1 and type(d.restrictions[0]).__name__ in GROUP_CLASSES and isinstance(d.restrictions[0], boolean.base):
            out.append((tok, type(d.restrictions[0]).__name__))
    return out


def site_tables():
    sites = {
        "DEPEND": ("depend", "8", {"DEPEND": "a/b"}),
        "LICENSE": ("license", "8", {"LICENSE": "x"}),
        "RESTRICT": ("restrict", "8", {"RESTRICT": "x"}),
        "SRC_URI": ("distfiles", "8", {"SRC_URI": "x"}),
        "REQUIRED_USE": ("required_use", "8", {"REQUIRED_USE": "x"}),
        "REQUIRED_USE_EAPI4": ("required_use", "4", {"REQUIRED_USE": "x"}),
    }
    out = {}
    for name, (func, e, data) in sites.items():
        element_class, kw = call_site(func, e, data)
        out[name] = (element_class, kw, effective_operators(element_class, kw))
    return out


def gen_tables(repo):
    from pkgcore.ebuild import conditionals
    from pkgcore.restrictions import boolean
    classes = [("AndRestriction", boolean.AndRestriction), ("OrRestriction", boolean.OrRestriction),
               ("JustOneRestriction", boolean.JustOneRestriction), ("AtMostOneOfRestriction", boolean.AtMostOneOfRestriction),
               ("DepSet", conditionals.DepSet)]

    def b(x):
        return "true" if x else "false"

    flags = ", ".join(f'("{n}", {b(c._evaluate_collapsible)}, {b(c._evaluate_wipe_empty)})' for n, c in classes)
    tabs = []
    for name, (_ec, _kw, ops) in site_tables().items():
        tabs.append('("%s", [%s])' % (name, ", ".join(f'("{k}", "{v}")' for k, v in ops)))
    opens = []
    for n, c in classes[:4]:
        text = conditionals.stringify_boolean(c("\x00", "\x00"))
        opens.append(f'("{n}", "{text.split(chr(0))[0].strip()}")')
    text = ("-- GENERATED from /repo by harness/props/c09.py (gen_tables); do not edit\n"
            "namespace Pkgcore.Generated.C09\n"
            "/-- (class name, _evaluate_collapsible, _evaluate_wipe_empty) of the boolean group classes -/\n"
            f"def classFlags : List (String × Bool × Bool) := [{flags}]\n"
            "/-- operator tables handed to DepSet.parse by pkgcore.ebuild.ebuild_src, per attribute: token ↦ class name (\"!\" = callable that raises) -/\n"
            f"def operatorTables : List (String × List (String × String)) := [{', '.join(tabs)}]\n"
            "/-- the group-opening text emitted by stringify_boolean for an instance of each class -/\n"
            f"def renderOpen : List (String × String) := [{', '.join(opens)}]\n"
            "end Pkgcore.Generated.C09\n")
    return {"Pkgcore/Generated/C09Tables.lean": text}


# ------------------------------------------------------------------ generators

FLAGS = ["x", "y", "z", "w", "v"]
LEAVES = {
    "atom": ["a/b", "c/d", "e/f", ">=a/b-1.2", "!c/d", "a/b:2", "=e/f-3*", "c/d[-bar,foo]", "!!e/f", "~a/b-1"],
    "license": ["GPL-2", "MIT", "BSD", "LGPL-2.1+", "a", "b", "c"],
    "restrict": ["test", "mirror", "fetch", "strip", "a", "b"],
    "src_uri": ["http://h/a.tgz", "https://h/p/b.zip", "mirror://gnu/c.tar.gz", "d.patch", "ftp://f/e.tar.xz", "http://h/f"],
    "required_use": ["a", "b", "c", "!a", "!b", "d", "!!c"],
}
LEAVES["required_use_eapi4"] = LEAVES["required_use"]
RENAMES = ["n1.tgz", "n2.zip", "new", "a.tgz"]
JUNK = ["(", ")", "||", "x?", "!y?", "->", "^^", "??", "|", "a|b", "?", "!?", "z?", "a", "( )", "||("]


def kinds_of(ops):
    return [KIND_OF_CLASS[c] for _k, c in ops if c in KIND_OF_CLASS]


def gen_tree(rng, cls, kinds, depth, allow_cond=True, pool=None):
    """raw grammar tree: ("l", text, rename|None) | ("g", kind, [children]) | ("c", neg, flag, [children]);
    pool = the elements this string draws from (a small pool makes one element occur several times, also in one group)"""
    r = rng.random()
    if depth <= 0 or r < 0.38:
        k = rng.choice(pool or LEAVES[cls])
        ren = rng.choice(RENAMES) if (cls == "src_uri" and "/" in k and rng.random() < 0.4) else None
        return ("l", k, ren)
    n = rng.choice([1, 1, 2, 2, 2, 3, 3, 4])
    if (r < 0.68 and allow_cond) or not kinds:
        flag = rng.choice(FLAGS[: rng.choice([2, 3, 5])])
        return ("c", rng.random() < 0.35, flag, [gen_tree(rng, cls, kinds, depth - 1, pool=pool) for _ in range(n)])
    kind = rng.choice(kinds)
    return ("g", kind, [gen_tree(rng, cls, kinds, depth - 1, pool=pool) for _ in range(n)])


def raw_tokens(t):
    if t[0] == "l":
        return [t[1]] if t[2] is None else [t[1], "->", t[2]]
    if t[0] == "g":
        head = ["("] if t[1] == "and" else [SYM[t[1]], "("]
        return head + [x for c in t[2] for x in raw_tokens(c)] + [")"]
    return [("!" if t[1] else "") + t[2] + "?", "("] + [x for c in t[3] for x in raw_tokens(c)] + [")"]


def corrupt(rng, toks):
    toks = list(toks)
    k = rng.randrange(6)
    if k == 0 and toks:
        del toks[rng.randrange(len(toks))]
    elif k == 1:
        toks.insert(rng.randrange(len(toks) + 1), rng.choice(JUNK))
    elif k == 2 and len(toks) > 1:
        i = rng.randrange(len(toks) - 1)
        toks[i], toks[i + 1] = toks[i + 1], toks[i]
    elif k == 3 and toks:
        toks.insert(rng.randrange(len(toks) + 1), toks[rng.randrange(len(toks))])
    elif k == 4 and toks:
        toks[rng.randrange(len(toks))] = rng.choice(JUNK)
    elif k == 5 and toks:
        toks = toks[: rng.randrange(len(toks))]
    return [x for t in toks for x in t.split()]


def join_ws(rng, toks):
    if rng.random() < 0.8:
        return " ".join(toks)
    seps = [" ", "  ", "\t", "\n", " \n "]
    out = rng.choice(["", " ", "\n"])
    for i, t in enumerate(toks):
        out += t + (rng.choice(seps) if i + 1 < len(toks) else rng.choice(["", " ", "\n"]))
    return out


CORPUS = [
    # (class, string) — boundary cases from why_tests_cant and every defect found
    ("required_use", "^^ ( a b )"), ("required_use", "?? ( a !b )"), ("required_use", "x? ( c ) ?? ( a )"),
    ("required_use", "?? ( a )"), ("required_use", "^^ ( a )"), ("required_use", "?? ( x? ( a ) b )"),
    ("required_use", "^^ ( x? ( a ) y? ( b ) )"), ("required_use", "|| ( ^^ ( x? ( a ) y? ( b ) ) c )"),
    ("required_use", "^^ ( x? ( a ) )"), ("required_use", "x? ( ?? ( a ) )"), ("required_use", "|| ( a )"),
    ("required_use", "|| ( || ( x? ( a ) y? ( b ) ) c )"), ("required_use", "|| ( x? ( y? ( a ) ) b )"),
    ("required_use", "^^ ( ( x? ( a ) ) b )"), ("required_use", "?? ( ?? ( a b ) c )"), ("required_use", "^^ ( ^^ ( a b ) c )"),
    ("required_use", "a !b || ( a b )"), ("required_use", "!x? ( a ) x? ( !a )"),
    ("required_use_eapi4", "?? ( a )"), ("required_use_eapi4", "?? ( a b )"), ("required_use_eapi4", "^^ ( a b )"),
    ("atom", "a/b || ( c/d e/f )"), ("atom", "x? ( a/b )"), ("atom", "( a/b c/d )"), ("atom", "|| ( x? ( a/b ) c/d )"),
    ("atom", "|| ( x? ( a/b e/f ) c/d )"), ("atom", "|| ( ( a/b e/f ) c/d )"), ("atom", "|| ( || ( x? ( a/b ) ) c/d )"),
    ("atom", "a/b || ( a/b ( c/d  ) e/f || ( a/b )  )"), ("atom", "|| ( || ( a/b c/d ) e/f )"), ("atom", "( ( a/b ) )"),
    ("atom", "x? ( y? ( a/b ) )"), ("atom", "x? ( !y? ( || ( a/b c/d ) e/f ) a/b ) c/d z? ( a/b e/f ) c/d"),
    ("atom", "?? ( a/b )"), ("atom", "!? ( a/b )"), ("atom", "? ( a/b )"), ("atom", "!!x? ( a/b )"), ("atom", "x?? ( a/b )"),
    ("atom", "( )"), ("atom", "( a/b c/d"), ("atom", "(a/b c/d )"), ("atom", "x?( a/b )"), ("atom", "x? ( x? () )"),
    ("atom", "("), ("atom", ")"), ("atom", "x?"), ("atom", "||("), ("atom", "|| ()"), ("atom", "|| ("), ("atom", "|| )"),
    ("atom", "|| ( x? ( )"), ("atom", "a/b|"), ("atom", "a/b?"), ("atom", "a/b||c/d"), ("atom", "x? y"), ("atom", "( a/b )?"),
    ("atom", "||?"), ("atom", "a/b )"), ("atom", "a/b ) ( c/d"), ("atom", "|| ( a/b ) )"), ("atom", "x? ( a/b ) ||"),
    ("atom", "x? ( a/b ) y?"), ("atom", ""), ("atom", "   "), ("atom", "not-an-atom"), ("atom", "x? ( not-an-atom )"),
    ("license", "|| ( GPL-2 MIT )"), ("license", "x? ( GPL-2 ) || ( MIT BSD )"), ("license", "|| ( x? ( GPL-2 ) !x? ( MIT ) )"),
    ("license", "^^ ( a b )"), ("license", "( a )"), ("license", "( ( a b ) )"),
    ("restrict", "test x? ( mirror )"), ("restrict", "( test )"), ("restrict", "|| ( test fetch )"), ("restrict", "!x? ( y? ( test ) )"),
    ("src_uri", "http://h/a.tgz -> b.tgz"), ("src_uri", "http://h/a.tgz -> )"), ("src_uri", "x? ( http://h/a.tgz -> ) )"),
    ("src_uri", "http://h/a -> x?"), ("src_uri", "-> a"), ("src_uri", "a -> -> b"), ("src_uri", "a ->"), ("src_uri", "a -> b -> c"),
    ("src_uri", "x? ( a -> b c )"), ("src_uri", "( a )"), ("src_uri", "|| ( a b )"), ("src_uri", "a -> ( b )"), ("src_uri", "a -> ||"),
    ("src_uri", "x? ( http://h/a.tgz -> n.tgz ) http://h/b.zip !y? ( http://h/c -> d )"), ("src_uri", "a -> ("), ("src_uri", "a -> b|c"),
]


# ------------------------------------------------------------------ the real code side

class Real:
    def __init__(self):
        from pkgcore.ebuild import conditionals, ebuild_src
        from pkgcore.ebuild.atom import atom
        from pkgcore.ebuild.errors import DepsetParseError
        from pkgcore.restrictions import boolean, packages, values
        self.DepSet = conditionals.DepSet
        self.atom = atom
        self.DepsetParseError = DepsetParseError
        self.boolean, self.packages, self.values = boolean, packages, values
        self.sites = site_tables()

        def src_el(k, k3=None):
            return k if k3 is None else f"{k} -> {k3}"

        self.src_el = src_el
        self.cfg = {}
        for cls in CLASSES:
            element_class, kw, ops = self.sites[ATTR_OF[cls]]
            kw = dict(kw)
            kw.pop("attr", None)
            if cls == "src_uri":
                kw["element_func"] = src_el      # keeps both the uri and the new name
            if cls == "atom":
                kw.pop("element_func", None)     # plain atom class (eapi-less), non-transitive
                kw.pop("transitive_use_atoms", None)
                element_class = atom
            self.cfg[cls] = (element_class, kw, ops)

    def parse(self, cls, s):
        element_class, kw, _ops = self.cfg[cls]
        return self.DepSet.parse(s, element_class, **kw)

    def el_ok(self, cls, k, r=None):
        element_class, kw, _ops = self.cfg[cls]
        f = kw.get("element_func") or element_class
        try:
            e = f(k) if r is None else f(k, r)
        except Exception:
            return False, None
        return True, e

    def leaf_text(self, node):
        if isinstance(node, self.values.ContainmentMatch):
            (v,) = tuple(node.vals)
            return ("!" if node.negate else "") + v
        return str(node)

    def to_json(self, node):
        b = self.boolean
        if isinstance(node, self.packages.Conditional):
            (flag,) = tuple(node.restriction.vals)
            return {"n": bool(node.restriction.negate), "f": flag, "c": [self.to_json(c) for c in node.payload]}
        if isinstance(node, b.base) and not isinstance(node, self.atom):
            if node.negate:
                raise ValueError("negated group in a parsed DepSet")
            name = type(node).__name__
            if name not in KIND_OF_CLASS:
                for base_name in GROUP_CLASSES:
                    if any(k.__name__ == base_name for k in type(node).__mro__):
                        name = base_name
                        break
            return {"g": KIND_OF_CLASS[name], "c": [self.to_json(c) for c in node.restrictions]}
        text = self.leaf_text(node)
        if " -> " in text:
            k, r = text.split(" -> ", 1)
            return {"l": k, "r": r}
        return {"l": text}

    def holds(self, node, present):
        """propositional satisfaction of a conditional-free structure over the present element texts,
        evaluated on the real node objects (group semantics = the classes' own match logic)"""
        b = self.boolean
        if isinstance(node, self.packages.Conditional):
            raise ValueError("conditional left in an evaluated structure")
        if isinstance(node, b.base) and not isinstance(node, self.atom):
            vals = [self.holds(c, present) for c in node.restrictions]
            if isinstance(node, b.OrRestriction):
                return any(vals)
            if isinstance(node, b.AndRestriction):
                return all(vals)
            if isinstance(node, b.JustOneRestriction):
                return (not vals) or sum(vals) == 1
            if isinstance(node, b.AtMostOneOfRestriction):
                return sum(vals) <= 1
            raise ValueError(type(node))
        return self.leaf_text(node) in present


def leaves_of(j, acc):
    for n in j:
        if "l" in n:
            key = n["l"] if "r" not in n else n["l"] + " -> " + n["r"]
            if key not in acc:
                acc.append(key)
        else:
            leaves_of(n["c"], acc)
    return acc


def flags_of(j, acc):
    for n in j:
        if "f" in n and n["f"] not in acc:
            acc.append(n["f"])
        if "c" in n:
            flags_of(n["c"], acc)
    return acc


def shape_counts(ctx, j, depth=0):
    for n in j:
        if "l" in n:
            ctx.count("node_leaf_renamed" if "r" in n else "node_leaf")
        elif "g" in n:
            ctx.count("node_group_" + n["g"])
            ctx.count("group_children_%d" % min(len(n["c"]), 4))
            shape_counts(ctx, n["c"], depth + 1)
        else:
            ctx.count("node_cond_negated" if n["n"] else "node_cond")
            shape_counts(ctx, n["c"], depth + 1)


def depth_of(j):
    return 0 if not j else max((1 + depth_of(n["c"])) if "c" in n else 1 for n in j)


def present_json(keys):
    out = []
    for k in keys:
        if " -> " in k:
            a, b = k.split(" -> ", 1)
            out.append([a, b])
        else:
            out.append([k, None])
    return out


# ------------------------------------------------------------------ neighbourhood of an input on which model and code disagree

def j_tokens(j):
    """tokens of a (parsed or edited) structure in the JSON form of Real.to_json"""
    out = []
    for n in j:
        if "l" in n:
            out += [n["l"]] if n.get("r") is None else [n["l"], "->", n["r"]]
        elif "g" in n:
            out += ([] if n["g"] == "and" else [SYM[n["g"]]]) + ["("] + j_tokens(n["c"]) + [")"]
        else:
            out += [("!" if n["n"] else "") + n["f"] + "?", "("] + j_tokens(n["c"]) + [")"]
    return out


def j_size(j):
    return sum(1 + (j_size(n["c"]) if "c" in n else 0) for n in j)


def j_edits(j, kinds):
    """one-step neighbours of a structure, as (label, new top-level list):
    drop = one member removed, splice = a group / conditional replaced by its members (both strictly smaller);
    kind = one group given another operator of the class, wrap = the whole list put into one group"""
    def rec(nodes):
        for i, n in enumerate(nodes):
            def rest(repl, i=i):
                return nodes[:i] + repl + nodes[i + 1:]
            if len(nodes) > 1:
                yield "drop", rest([])
            if "c" in n:
                yield "splice", rest(list(n["c"]))
                if "g" in n:
                    for k in kinds:
                        if k != n["g"]:
                            yield "kind", rest([dict(n, g=k)])
                for lab, sub in rec(n["c"]):
                    yield lab, rest([dict(n, c=sub)])
    yield from rec(list(j))
    for k in kinds:
        yield "wrap", [{"g": k, "c": list(j)}]


def j_translit(j, names):
    """the same structure over the elements of another class: the i-th distinct element becomes names[i] (renames dropped)"""
    table = {}

    def rec(nodes):
        out = []
        for n in nodes:
            if "l" in n:
                key = (n["l"], n.get("r"))
                if key not in table:
                    table[key] = names[len(table)] if len(table) < len(names) else "t%d" % len(table)
                out.append({"l": table[key]})
            else:
                out.append(dict(n, c=rec(n["c"])))
        return out
    return rec(j)


class Explorer:
    """Model and code disagree on the evaluation of one input but no valuation tried there separates the meanings: evaluate the
    property itself on the real code on that input with more valuations and on nearby inputs — shrinks (members dropped, groups
    spliced; greedy descent to a smallest input on which the disagreement persists), every group given the other operators of the
    class, the whole list wrapped in each group kind, and the same structure read as REQUIRED_USE (where ^^ / ?? exist) — under
    every flag subset and every element subset.  The oracle is the specification's reading of the *neighbour's own* original
    (model side: Spec.satTopAbs), the judged value is `holds` on the objects evaluate_depset returned."""

    def __init__(self, ctx, real):
        self.ctx, self.real, self.rng = ctx, real, ctx.rng
        self.seen = set()
        self.probed = 0

    def probe(self, cands, hint):
        """cands: [(cls, top-level structure)] -> [(cls, string, parsed structure, disagrees, violation|None)]"""
        real, rng = self.real, self.rng
        reqs, meta = [], []
        for cls, j in cands:
            toks = j_tokens(j)
            key = cls + "|" + " ".join(toks)
            if key in self.seen:
                continue
            self.seen.add(key)
            try:
                d = real.parse(cls, " ".join(toks))
                j2 = [real.to_json(r) for r in d.restrictions]
            except Exception:
                continue        # not a string of the language (emptied group, ?? in an EAPI without it, ...)
            flags, leaves = flags_of(j2, []), leaves_of(j2, [])
            if len(flags) <= 4:
                flagsets = [list(c) for r in range(len(flags) + 1) for c in itertools.combinations(flags, r)]
            else:
                base = [f for f in flags if f in hint]
                flagsets = [base] + [sorted(set(base) ^ {f}) for f in flags]
            if len(leaves) <= 6:
                presents = [list(c) for r in range(len(leaves) + 1) for c in itertools.combinations(leaves, r)]
            else:
                presents = [[], leaves] + [[l] for l in leaves] + [[l for l in leaves if rng.random() < pr] for pr in (0.2, 0.5, 0.8) for _ in range(8)]
            reqs.append({"cmd": "c09.eval", "deps": j2, "flagsets": flagsets, "presents": [present_json(pr) for pr in presents]})
            meta.append((cls, " ".join(toks), d, j2, flagsets, presents))
        out = []
        for (cls, s, d, j2, flagsets, presents), rep in zip(meta, self.ctx.model(reqs)):
            if not isinstance(rep, list):
                continue
            self.probed += 1
            disagrees, viol = False, None
            for fs, o in zip(flagsets, rep):
                try:
                    ev = d.evaluate_depset(frozenset(fs))
                    ej = [real.to_json(r) for r in ev.restrictions]
                except Exception:
                    continue
                self.ctx.evaluations += 1
                if flags_of(ej, []):
                    continue
                if ej == o["ev"]:
                    continue
                disagrees = True
                if viol is None:
                    for pres, sat in zip(presents, o["sat"]):
                        got = all(real.holds(r, set(pres)) for r in ev.restrictions)
                        if got != sat[0]:
                            viol = (fs, sorted(pres), got, sat[0], ej, o["ev"])
                            break
            out.append((cls, s, j2, disagrees, viol))
        return out

    def explore(self, case, cls, j, fs):
        """-> (cls, string, violation tuple) of the smallest neighbour on which the property fails on the real code, or None"""
        real = self.real
        hint = set(fs)
        best = [None]

        def note(results):
            for c, s, j2, _dis, viol in results:
                if viol is not None and (best[0] is None or j_size(j2) < best[0][0]):
                    best[0] = (j_size(j2), c, s, viol)

        def variants(c, cur):
            kinds = kinds_of(real.cfg[c][2])
            cands = [(c, new) for lab, new in j_edits(cur, kinds) if lab in ("kind", "wrap")]
            if not {"one", "most"} <= set(kinds):
                ru = j_translit(cur, ["a", "b", "c", "d", "e", "f", "g", "h"])
                rk = kinds_of(real.cfg["required_use"][2])
                cands += [("required_use", ru)] + [("required_use", new) for lab, new in j_edits(ru, rk) if lab in ("kind", "wrap")]
            return cands

        note(self.probe([(cls, j)], hint))                      # the input itself, more valuations
        cur = j
        for _round in range(40):                                 # greedy descent over strictly smaller neighbours
            if best[0] is not None and best[0][0] <= 4:
                break
            smaller = [(cls, new) for lab, new in j_edits(cur, []) if lab in ("drop", "splice")]
            res = self.probe(smaller, hint)
            note(res)
            still = [r for r in res if r[3]]
            if not still:
                break
            cur = min(still, key=lambda r: j_size(r[2]))[2]
        if best[0] is None or best[0][0] > 6:
            note(self.probe(variants(cls, cur), hint))           # the smallest disagreeing input under the other operators
        if best[0] is None and j_size(j) <= 40 and cur is not j:
            note(self.probe(variants(cls, j), hint))             # and the original input under the other operators
        return best[0]


def run(ctx):
    rng = ctx.rng
    real = Real()

    # the operator tables the model is given are those of the call sites (and the generated table says the same)
    for cls in CLASSES:
        _ec, _kw, ops = real.cfg[cls]
        rep = ctx.model([{"cmd": "c09.opsfor", "attr": ATTR_OF[cls]}])[0]
        if rep != [[k, v] for k, v in ops]:
            ctx.mismatch({"class": cls}, f"generated operator table {rep} differs from the call site's {ops}")

    cases = []      # (cls, string, origin)
    if ctx.replay_cases:
        cases += [(c["class"], c["string"], "replay") for c in ctx.replay_cases if "string" in c]
    cases += [(c, s, "corpus") for c, s in CORPUS]
    n = ctx.n(1500, 40000)
    for _ in range(n):
        cls = rng.choice(CLASSES)
        kinds = kinds_of(real.cfg[cls][2])
        # the elements of one string: the whole vocabulary, or (about half of the strings) a pool of 1-3 elements, so that the same
        # element stands several times in one string / one group (where ^^ and ?? count it each time) and valuations are exhaustive
        pool = None
        if rng.random() < 0.5:
            pool = rng.sample(LEAVES[cls], rng.choice([1, 2, 2, 3]))
            ctx.count("element_pool_%d" % len(pool))
        else:
            ctx.count("element_pool_all")
        trees = [gen_tree(rng, cls, kinds, rng.choice([1, 2, 2, 3, 3, 4]), pool=pool) for _ in range(rng.choice([1, 1, 2, 3, 4]))]
        toks = [x for t in trees for x in raw_tokens(t)]
        origin = "grammar"
        if rng.random() < 0.33:
            for _ in range(rng.choice([1, 1, 2])):
                toks = corrupt(rng, toks)
            origin = "corrupted"
        cases.append((cls, join_ws(rng, toks), origin))
    # bounded-exhaustive token sequences over a small alphabet
    alpha = {"license": ["(", ")", "||", "x?", "a", "!y?"], "src_uri": ["(", ")", "x?", "a", "->", "b"],
             "required_use": ["(", ")", "??", "^^", "a", "x?"]}
    maxlen = ctx.n(4, 6)
    nex = 0
    for cls, al in alpha.items():
        for L in range(1, maxlen + 1):
            if cls != "license" and L > maxlen - 1:
                continue
            for seq in itertools.product(al, repeat=L):
                cases.append((cls, " ".join(seq), "exhaustive"))
                nex += 1
    ctx.extra["exhaustive_token_sequences"] = nex

    # ---- pass 1: parse on the real code, build model requests
    reqs, metas = [], []
    for cls, s, origin in cases:
        toks = s.split()
        _ec, kw, ops = real.cfg[cls]
        ren = bool(kw.get("allow_src_uri_file_renames"))
        bad = []
        cand = [t for t in dict.fromkeys(toks)]
        for t in cand:
            ok, _e = real.el_ok(cls, t)
            if not ok:
                bad.append([t, None])
        if ren:
            for i in range(len(toks) - 2):
                if toks[i + 1] == "->":
                    ok, _e = real.el_ok(cls, toks[i], toks[i + 2])
                    if not ok and [toks[i], toks[i + 2]] not in bad:
                        bad.append([toks[i], toks[i + 2]])
        reqs.append({"cmd": "c09.parse", "ops": [[k, v] for k, v in ops], "ren": ren, "bad": bad, "toks": toks})
        metas.append((cls, s, origin, toks))
    replies = ctx.model(reqs)

    eval_reqs, eval_meta = [], []
    for (cls, s, origin, toks), rep in zip(metas, replies):
        case = {"class": cls, "string": s, "origin": origin}
        if rep == "bad-op" or not isinstance(rep, dict):
            ctx.mismatch(case, f"driver rejected the request: {rep}")
            continue
        try:
            d = real.parse(cls, s)
            impl = "ok"
        except real.DepsetParseError:
            d, impl = None, "reject"
        except Exception as e:
            ctx.violation(case, f"DepSet.parse raised {type(e).__name__}: {e} (only DepsetParseError is documented)")
            continue
        ctx.count("class_" + cls)
        ctx.count("origin_" + origin)
        ctx.count("impl_" + impl)
        ctx.count("ntokens_%s" % (len(toks) if len(toks) < 8 else "8-15" if len(toks) < 16 else "16+"))
        _ec, _kw, ops = real.cfg[cls]
        opener = lambda t: t[-1] == "?" or any(t == k for k, _ in ops)
        # ---- property: unbalanced / dangling strings are rejected (edge C on the real code)
        if impl == "ok":
            if not rep["balanced"]:
                ctx.violation(case, "a string with unbalanced parentheses was accepted")
            if toks and opener(toks[-1]):
                ctx.violation(case, "a string ending in a dangling operator / conditional was accepted")
            for a, b in zip(toks, toks[1:]):
                if a == "(" and b == ")":
                    ctx.violation(case, "an empty group was accepted")
        if impl == "reject":
            ctx.case(case, origin != "grammar", key=cls + "|" + " ".join(toks))
            if rep["parse"] != "reject":
                ctx.mismatch(case, f"DepSet.parse rejects, the model accepts as {rep['parse']}")
            if origin == "grammar":
                ctx.mismatch(case, "a grammar-generated string was rejected by DepSet.parse (generator or glue changed)")
            continue
        try:
            j = [real.to_json(r) for r in d.restrictions]
        except Exception as e:
            ctx.mismatch(case, f"cannot convert the parsed structure: {type(e).__name__}: {e}")
            continue
        nontriv = any("c" in nd for nd in j) or origin != "grammar"
        ctx.case(case, nontriv, key=cls + "|" + " ".join(toks))
        shape_counts(ctx, j)
        ctx.count("depth_%d" % min(depth_of(j), 6))
        if rep["parse"] == "reject":
            ctx.mismatch(case, f"DepSet.parse accepts ({j}), the model rejects")
            continue
        if rep["parse"]["ok"] != j:
            ctx.mismatch(case, f"parsed structure differs: impl {j} model {rep['parse']['ok']}")
        # ---- property: renders back to text that parses to an equal structure
        text = str(d)
        if text.split() != rep["render"]:
            ctx.mismatch(case, f"str(DepSet) = {text!r}, model renders {' '.join(rep['render'])!r}")
        try:
            d2 = real.parse(cls, text)
        except real.DepsetParseError as e:
            ctx.violation(case, f"str(parse(s)) = {text!r} does not parse: {e}")
            continue
        if not (d2 == d):
            ctx.violation(case, f"parse(str(parse(s))) != parse(s): {text!r} gives {[real.to_json(r) for r in d2.restrictions]}")
        elif tuple(d2.restrictions) != tuple(d.restrictions):
            ctx.mismatch(case, "re-parsed structure is set-equal but not identical (model predicts identical)")
        if rep["reparse"] != rep["parse"]:
            ctx.mismatch(case, "model: re-parsing the rendering does not return the structure (theorem render_parse_roundtrip says it must)")
        # ---- evaluation requests
        flags = flags_of(j, [])
        leaves = leaves_of(j, [])
        if len(flags) > 5:
            flagsets = [sorted(rng.sample(flags, rng.randint(0, len(flags)))) for _ in range(24)] + [[], flags]
        else:
            flagsets = [list(c) for r in range(len(flags) + 1) for c in itertools.combinations(flags, r)]
        if len(leaves) <= 4:
            presents = [list(c) for r in range(len(leaves) + 1) for c in itertools.combinations(leaves, r)]
        else:
            presents = [[], leaves] + [[l for l in leaves if rng.random() < p] for p in (0.2, 0.5, 0.8) for _ in range(4)]
        if origin == "exhaustive" and not flags:
            continue
        eval_reqs.append({"cmd": "c09.eval", "deps": j, "flagsets": flagsets, "presents": [present_json(p) for p in presents]})
        eval_meta.append((case, cls, d, j, flagsets, presents))

    # ---- pass 2: evaluation
    ereplies = ctx.model(eval_reqs)
    nev = 0
    unexplained = []    # (size, order, case, cls, parsed structure, flag set): model and code differ, meaning not shown to differ
    failing = []        # the same where the meaning was shown to differ on a large input: shrunk below
    for (case, cls, d, j, flagsets, presents), rep in zip(eval_meta, ereplies):
        if rep == "bad-op" or not isinstance(rep, list):
            ctx.mismatch(case, f"driver rejected the eval request: {rep}")
            continue
        for fs, out in zip(flagsets, rep):
            ecase = dict(case, flags=fs)
            containers = [frozenset(fs), list(fs), tuple(fs)]
            try:
                ev = d.evaluate_depset(containers[nev % 3])
            except Exception as e:
                ctx.violation(ecase, f"evaluate_depset raised {type(e).__name__}: {e}")
                continue
            nev += 1
            try:
                ej = [real.to_json(r) for r in ev.restrictions]
            except Exception as e:
                ctx.mismatch(ecase, f"cannot convert the evaluated structure: {type(e).__name__}: {e}")
                continue
            ctx.evaluations += 1
            ctx.count("eval_flags_%d" % min(len(fs), 5))
            if flags_of(ej, []):
                ctx.violation(ecase, f"evaluated structure still has conditionals: {ej}")
                continue
            differs = ej != out["ev"]
            nviol_before = len(ctx.violations)
            if differs:
                ctx.mismatch(ecase, f"evaluated structure differs: impl {ej} model {out['ev']}")
            if ej != j:
                ctx.count("eval_changed_structure")
            for pres, sat in zip(presents, out["sat"]):
                abs_orig, pms_orig, abs_ev, pms_ev = sat
                pset = set(pres)
                try:
                    got = all(real.holds(r, pset) for r in ev.restrictions)
                except Exception as e:
                    ctx.mismatch(ecase, f"cannot evaluate the structure: {type(e).__name__}: {e}")
                    break
                ctx.count("sat_%s" % got)
                vcase = dict(ecase, present=sorted(pset))
                if got != abs_orig:
                    ctx.violation(vcase, f"evaluated structure {ej} is {'satisfied' if got else 'not satisfied'} by the elements, "
                                         f"the original read under the flags is {'satisfied' if abs_orig else 'not satisfied'}")
                elif got != pms_orig:
                    if out["tame"]:
                        ctx.violation(vcase, f"evaluated structure {ej} gives {got}, PMS reading of the original gives {pms_orig} (structure is tame)")
                    else:
                        ctx.violation(vcase, f"evaluated structure {ej} gives {got}; under the literal PMS reading (an emptied group nested directly in "
                                             f"||/^^/?? counts as matched) the original gives {pms_orig}", finding="C09-emptied-group-nested-in-anyof")
                if got != abs_ev or got != pms_ev:
                    ctx.mismatch(vcase, f"harness evaluation of the evaluated structure {got} differs from the spec's readings {abs_ev}/{pms_ev}")
            if differs and len(ctx.violations) == nviol_before:
                unexplained.append((j_size(j), len(unexplained), case, cls, j, fs))
            elif differs and j_size(j) > 6:
                failing.append((j_size(j), len(failing), case, cls, j, fs))
    ctx.extra["evaluate_depset_calls"] = nev

    # ---- pass 2a: model and code evaluate an input differently but no valuation tried above separates the meanings.  A disagreement is
    # not yet a failure of the property: look for one on the real code, on that input and on the inputs next to it (see Explorer).
    # The same descent shrinks the first large inputs on which the property was seen to fail (the small one is put first in the report).
    explorer = Explorer(ctx, real)
    explored, found, done = 0, 0, set()
    queue = sorted(failing, key=lambda u: u[:2])[:2] + sorted(unexplained, key=lambda u: u[:2])
    for _sz, _i, case, cls, j, fs in queue:
        if explored >= ctx.n(8, 40) or found >= 3:
            break
        if (cls, case["string"]) in done:
            continue
        done.add((cls, case["string"]))
        explored += 1
        hit = explorer.explore(case, cls, j, fs)
        if hit is None:
            continue
        found += 1
        _size, c2, s2, (fs2, pres2, got, want, ej2, mj2) = hit
        if any(v["case"].get("string") == s2 and v["case"].get("class") == c2 for v in ctx.violations):
            continue
        if len(ctx.violations) >= 50:
            ctx.violations.pop()
        ctx.violation({"class": c2, "string": s2, "origin": "near-disagreement", "flags": fs2, "present": pres2,
                       "near": {"class": cls, "string": case["string"], "flags": fs}},
                      f"evaluated structure {ej2} is {'satisfied' if got else 'not satisfied'} by the elements, the original read under the "
                      f"flags is {'satisfied' if want else 'not satisfied'} (a structure with that meaning: {mj2}); found by exploring the "
                      f"neighbourhood of an input on which model and code evaluate differently")
    if found:                                                   # the smallest failing input leads the report
        k = min(range(len(ctx.violations)), key=lambda i: (len(str(ctx.violations[i]["case"].get("string", "x " * 999)).split()), i))
        ctx.violations.insert(0, ctx.violations.pop(k))
    ctx.extra["disagreements_explored"] = explored
    ctx.extra["neighbour_inputs_probed"] = explorer.probed

    # ---- pass 2b: evaluation histories.  The property holds for every call: one DepSet object is asked again and again, with
    # the caller's *own mutable* flag containers changed in place between the calls (a set, a list), other containers and fresh
    # frozensets interleaved, the same content asked twice in a row.  Every answer is judged like a first answer for the
    # content the container has at the time of the call.
    def set_to(container, target):
        """mutate the caller's container in place until it holds exactly `target`"""
        cur = set(container)
        if isinstance(container, set):
            for f in sorted(cur - set(target)):
                container.discard(f)
            for f in sorted(set(target) - cur):
                container.add(f)
        else:
            for f in sorted(cur - set(target)):
                container.remove(f)
            for f in sorted(set(target) - cur):
                container.insert(rng.randint(0, len(container)), f)

    nhist = 0
    for (case, cls, d, j, flagsets, presents), rep in zip(eval_meta, ereplies):
        if rep == "bad-op" or not isinstance(rep, list) or len(flagsets) < 2:
            continue
        if ctx.quick() and len(flagsets) > 2 and rng.random() < 0.35:
            continue
        by_content = {tuple(sorted(fs)): out for fs, out in zip(flagsets, rep)}
        states = list(by_content)
        boxes = {"set": set(), "list": []}
        start = rng.choice(states)
        set_to(boxes["set"], start)
        set_to(boxes["list"], rng.choice(states))
        history = []
        for _step in range(rng.choice([3, 4, 5, 6, 8])):
            r = rng.random()
            if r < 0.55:
                which = "set"
            elif r < 0.8:
                which = "list"
            else:
                which = "fresh"
            if which == "fresh":
                content = rng.choice(states)
                container = frozenset(content)
            else:
                container = boxes[which]
                cur = tuple(sorted(container))
                r2 = rng.random()
                if r2 < 0.2:
                    content = cur                                   # ask the same thing again
                else:
                    near = [st for st in states if len(set(st) ^ set(cur)) == 1]
                    content = rng.choice(near) if near and r2 < 0.75 else rng.choice(states)
                    set_to(container, content)
            history.append([which, list(content)])
            out = by_content[tuple(sorted(content))]
            hcase = dict(case, flags=list(content), history=[list(h) for h in history])
            try:
                ev = d.evaluate_depset(container)
                ej = [real.to_json(r) for r in ev.restrictions]
            except Exception as e:
                ctx.violation(hcase, f"evaluate_depset (call {len(history)} on this object) raised {type(e).__name__}: {e}")
                break
            nhist += 1
            ctx.evaluations += 1
            if flags_of(ej, []):
                ctx.violation(hcase, f"evaluated structure (call {len(history)} on this object) still has conditionals: {ej}")
                break
            if ej == out["ev"]:
                continue
            # not what the model (and the first pass) gives for this flag set: does the meaning differ?
            bad = None
            for pres, sat in zip(presents, out["sat"]):
                try:
                    got = all(real.holds(r, set(pres)) for r in ev.restrictions)
                except Exception:
                    continue
                if got != sat[0]:
                    bad = (pres, got, sat[0])
                    break
            if bad:
                ctx.violation(dict(hcase, present=sorted(bad[0])),
                              f"call {len(history)} on this object, flags {list(content)}: evaluated structure {ej} is "
                              f"{'satisfied' if bad[1] else 'not satisfied'} by the elements, the original read under these flags is "
                              f"{'satisfied' if bad[2] else 'not satisfied'} (asked on its own the same flag set evaluates to {out['ev']})")
            else:
                ctx.mismatch(hcase, f"call {len(history)} on this object evaluates to {ej}, the model {out['ev']}")
            break
        ctx.count("eval_history_len_%d" % min(len(history), 8))
    ctx.extra["evaluate_depset_history_calls"] = nhist

    # ---- REQUIRED_USE: on whole evaluated structures the classes' own match() over enabled flags agrees with `holds`
    nm = 0
    for (case, cls, d, j, flagsets, presents) in eval_meta:
        if not cls.startswith("required_use") or nm > ctx.n(400, 6000):
            continue
        names = sorted({l.lstrip("!") for l in leaves_of(j, [])})
        if len(names) > 4:
            continue
        ev = d.evaluate_depset(frozenset(flagsets[len(flagsets) // 2]))
        for r in range(len(names) + 1):
            for on in itertools.combinations(names, r):
                present = set()
                for l in leaves_of(j, []):
                    neg = len(l) - len(l.lstrip("!"))      # "!a" -> a off; "!!a" is the flag "!a" negated, never on here
                    name = l[1:] if neg else l
                    if (name in on) != bool(neg):
                        present.add(l)
                want = all(real.holds(x, present) for x in ev.restrictions)
                got = all(x.match(set(on)) for x in ev.restrictions)
                nm += 1
                ctx.evaluations += 1
                if bool(got) != want:
                    ctx.violation(dict(case, on=list(on)), f"match() of the evaluated REQUIRED_USE gives {got}, propositional reading gives {want}")
    ctx.extra["required_use_match_crosschecks"] = nm

    # ---- transitive USE atoms (edge C only: no Lean model of atom[x?] rewriting; PMS 8.3.4 table in Python)
    from pkgcore.ebuild import eapi as eapi_mod
    e8 = eapi_mod.get_eapi("8")
    ntr = 0
    for _ in range(ctx.n(300, 6000)):
        names = rng.sample(["x", "y", "z", "w", "q", "r"], rng.randint(1, 4))
        deps, = [[]]
        for nme in names:
            form = rng.choice(["%s", "-%s", "%s?", "!%s?", "%s=", "!%s="])
            dflt = rng.choice(["", "", "(+)", "(-)"])
            deps.append((form, nme, dflt))
        text = "a/b[" + ",".join(f % (nme + dflt) for f, nme, dflt in deps) + "]"
        wrap = rng.choice(["%s", "u? ( %s )", "|| ( %s c/d )", "!u? ( e/f %s )"]) % text
        on = [nme for nme in ["u"] + names if rng.random() < 0.5]
        case = {"class": "atom-transitive", "string": wrap, "flags": on}
        try:
            d = real.DepSet.parse(wrap, real.atom, element_func=e8.atom_kls, transitive_use_atoms=True)
            ev = d.evaluate_depset(frozenset(on))
        except Exception as e:
            ctx.violation(case, f"{type(e).__name__}: {e}")
            continue
        want = []
        for f, nme, dflt in deps:
            is_on = nme in on
            if f == "%s":
                want.append(nme + dflt)
            elif f == "-%s":
                want.append("-" + nme + dflt)
            elif f == "%s?":
                if is_on:
                    want.append(nme + dflt)
            elif f == "!%s?":
                if not is_on:
                    want.append("-" + nme + dflt)
            elif f == "%s=":
                want.append(("" if is_on else "-") + nme + dflt)
            else:
                want.append(("-" if is_on else "") + nme + dflt)
        found = []

        def walk(nodes):
            for nd in nodes:
                if isinstance(nd, real.atom):
                    if nd.key == "a/b":
                        found.append(nd)
                elif isinstance(nd, real.packages.Conditional):
                    found.append("conditional")
                else:
                    walk(nd.restrictions)
        walk(ev.restrictions)
        ntr += 1
        ctx.evaluations += 1
        present_expected = not ((wrap.startswith("u?") and "u" not in on) or (wrap.startswith("!u?") and "u" in on))
        if "conditional" in found:
            ctx.violation(case, "conditional left after evaluation")
        elif not present_expected:
            if found:
                ctx.violation(case, f"atom under an unmet conditional survived evaluation: {found}")
        elif len(found) != 1 or sorted(found[0].use or ()) != sorted(want) or type(found[0]).__name__ != "atom":
            ctx.violation(case, f"evaluated to {[str(x) for x in found]}, PMS 8.3.4 gives use deps {sorted(want)}")
    ctx.extra["transitive_use_atom_cases"] = ntr

    # ---- REQUIRED_USE: the classes' own match() agrees with the group semantics used above
    b, v = real.boolean, real.values
    pool = ["a", "b", "c"]
    for kind, klass in (("or", b.OrRestriction), ("and", b.AndRestriction), ("one", b.JustOneRestriction), ("most", b.AtMostOneOfRestriction)):
        for nch in range(0, 4):
            for negs in itertools.product([False, True], repeat=nch):
                node = klass(*[v.ContainmentMatch(pool[i], negate=negs[i]) for i in range(nch)])
                for r in range(len(pool) + 1):
                    for on in itertools.combinations(pool, r):
                        present = {("!" if negs[i] else "") + pool[i] for i in range(nch) if (pool[i] in on) != negs[i]}
                        want = real.holds(node, present)
                        got = node.match(set(on))
                        ctx.evaluations += 1
                        if kind == "or" and nch == 0:
                            continue   # empty any-of: match() is False; the parser never builds one and evaluation wipes it (C06 records it)
                        if bool(got) != want:
                            ctx.violation({"group": kind, "negs": negs, "on": on}, f"{klass.__name__}.match gives {got}, group semantics give {want}")


LEVEL_TEXT = ("Kernel-checked Lean 4 theorems about a model of DepSet.parse (the stack machine incl. look-ahead, SRC_URI renames, operator tables "
              "regenerated from the call sites), stringify_boolean and evaluate_depset/evaluate_conditionals: parsing the rendering of any "
              "well-formed grammar tree gives its collapsed form; the output of every successful parse is well-formed and re-parses to itself; "
              "unbalanced parentheses, dangling operators and empty groups are always rejected; evaluation is conditional-free and preserves "
              "the meaning of the structure under the flag set for every valuation of the elements (absent reading, all structures; literal PMS "
              "reading, all tame structures, with a proved counterexample outside). The model is tied to the code by a differential run on "
              "grammar-generated and corrupted strings of six element classes, which also evaluates the property on the real objects.")
LEVEL_NOTE = ("Trusted: Lean kernel; str.split tokenisation; element text round-trip of atoms (C03); tristate_filter=None. One open finding: an "
              "all-of/any-of group emptied by conditionals directly inside ||/^^/?? is dropped (as Portage does) where PMS counts it as matched. "
              "The model of evaluate_depset is a function of (structure, flag set); that the real method is one too (no result remembered "
              "across calls, no aliasing of the caller's container) is checked by the evaluation histories only.")
