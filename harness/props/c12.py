"""C12 — incremental token expansion is left-to-right; the condensed forms agree."""
import itertools
import os
import shutil
import signal
import subprocess
import sys
import tempfile

PID = "C12"
LEAN_MODULES = ["Pkgcore.Props.C12"]
OBLIGATIONS = [
    "Pkgcore.C12.expansion_is_fold",
    "Pkgcore.C12.expansion_last_writer",
    "Pkgcore.C12.optimize_membership",
    "Pkgcore.C12.optimize_equiv",
    "Pkgcore.C12.optimize_split_equiv",
    "Pkgcore.C12.license_expansion_is_fold",
    "Pkgcore.C12.license_expansion_last_writer",
    "Pkgcore.C12.incomplete_negation_rejected",
    "Pkgcore.C12.well_formed_accepted",
    "Pkgcore.C12.pull_data_eq_stream_partial",
    "Pkgcore.C12.pull_data_eq_stream_counterexample",
]
TRUSTED = [
    "Python sets are modelled as lists compared up to membership; the order in which pull_data iterates the set self.defaults is a parameter "
    "of the model (the harness passes the order the real set object yields)",
    "tokens come from str.split(): non-empty (an empty token is IndexError in the code, Err.index in the model)",
    "snakeoil.sequences.split_negations is modelled (it lives outside /repo) and compared on every optimize case",
    "Licenses._expand_groups (nested @group references, repo_objs.py) has no Lean model: the real Licenses.groups is compared with the "
    "reachability closure computed in the harness, and its output feeds incremental_expansion_license",
]
ASSUMPTIONS = [
    "optimize_incrementals is a generator; every caller consumes it completely (frozenset(...)), so an error raised late is an error of the call",
    "pre_defaults handed to collapsed_restrict_to_data.pull_data contains flags only (no '-x' tokens), as IUSE defaults do",
]
RULE = ("random token streams (length 0-12) over the flags a-e with f, -f, -*, *, and rarely '-', '--a', '-@', '@', '@g', '-@g'; random initial sets; "
        "ACCEPT_LICENSE streams over 7 licenses and up to 6 groups whose names overlap (groups called like a license, a license called like a "
        "group, a missing group; groups produced by the real Licenses class from nested/missing/cyclic group files); collapsed_restrict_to_data over real restrictions of all six kinds, each object asked a sequence of 1-8 queries "
        "(packages matched by nothing / freeform entries only / atoms, with and without pre_defaults and force_copy) and every answer also "
        "compared with a fresh object's; non-trivial = the stream has a -* or touches "
        "some flag/license at least twice")

FLAGS = ["a", "b", "c", "d", "e"]


def gen_stream(rng, n=None, bad=0.04):
    n = rng.randint(0, 12) if n is None else n
    out = []
    for _ in range(n):
        r = rng.random()
        f = rng.choice(FLAGS[: rng.choice([2, 3, 5])])
        if r < 0.42:
            out.append(f)
        elif r < 0.78:
            out.append("-" + f)
        elif r < 0.90:
            out.append("-*")
        elif r < 0.94:
            out.append("*")
        elif r < 0.94 + bad:
            out.append(rng.choice(["-", "--a", "-", "-@", "@"]))
        else:
            out.append(rng.choice(["-" + f, f]))
    return out


def nontrivial_stream(toks):
    if "-*" in toks:
        return True
    names = [t.lstrip("-@") for t in toks]
    return len(names) != len(set(names))


def exc_name(e):
    if isinstance(e, ValueError):
        return "incomplete"
    if isinstance(e, IndexError):
        return "index"
    return type(e).__name__


CORPUS_STREAMS = [
    # (tokens, orig)
    (["-a", "b", "-b", "-b", "c"], ["a", "b"]), (["c", "-*", "d"], ["a", "b"]), (["-a", "b", "-b", "c", "c"], ["a", "b"]),
    (["a", "-", "-*", "b"], []), (["-", "a"], []), (["a", "-*", "-"], []), (["a", "-a", "a"], []), (["a", "-*", "c"], ["x"]),
    (["-*"], ["a"]), (["*", "-*"], []), (["-*", "*"], ["p"]), (["a", "*", "-*", "b", "-b", "b"], []), (["--a", "a"], ["-a"]),
    (["a"], ["-a"]), (["-a"], ["a", "-a"]), ([], ["a"]), (["-*", "-*"], ["a"]), (["a", "b", "-a", "-*", "-b", "c", "-c", "c"], ["d"]),
]
CORPUS_LIC = [
    ["*"], ["-*"], ["@g1"], ["-@g1"], ["@"], ["-@"], ["-"], ["*", "-@g1"], ["@g1", "-L1"], ["-L1", "@g1"], ["@missing"], ["-@missing", "L1"],
    ["*", "-*", "L2"], ["L1", "@g2", "-@g1", "*", "-L3"], ["@g3", "-@g2"], ["--x"], ["-@g1", "@g1"], ["@@g1"], ["-*", "@"], ["@", "-*"],
]
# license names and license-group names are separate namespaces: a group may be called like a license (and the other way round);
# evaluated against the group file SHARED_NAMES_SPEC below
CORPUS_LIC_SHARED = [
    ["L1", "-@L1"], ["@L1", "-L1"], ["*", "-@L1"], ["g1", "-@g1"], ["@g1", "-g1"], ["L1", "@L1", "-@L2", "-L2"], ["-@L1", "L1"],
    ["L1", "-@nosuch", "nosuch", "-@nosuch"], ["@L2", "-@L1", "g1"], ["*", "-@g1", "-@L2"],
]
SHARED_NAMES_SPEC = {"L1": ["L2", "L3"], "g1": ["L1", "@L1"], "L2": ["g1", "L4"]}

_CHILD = r'''
import sys, logging
sys.path.insert(0, sys.argv[1])
logging.disable(logging.CRITICAL)
from pkgcore.ebuild import misc
from pkgcore.restrictions import packages
class P: key = "a/b"
d = misc.collapsed_restrict_to_data([(packages.AlwaysTrue, ["q", "-*", "b", "c", "d"])], finalize_defaults=False)
print(" ".join(sorted(d.pull_data(P(), pre_defaults=["a"]))))
'''


def run(ctx):
    rng = ctx.rng
    from pkgcore.ebuild import misc
    from pkgcore.ebuild.atom import atom
    from pkgcore.restrictions import packages, values
    from snakeoil.sequences import split_negations

    # ------------------------------------------------------------ incremental_expansion + optimize_incrementals
    cases = list(CORPUS_STREAMS)
    if ctx.replay_cases:
        cases = [(c["tokens"], c.get("orig", [])) for c in ctx.replay_cases if "tokens" in c] + cases
    for _ in range(ctx.n(2500, 60000)):
        orig = [f for f in FLAGS if rng.random() < 0.3]
        if rng.random() < 0.08:
            orig.append("-" + rng.choice(FLAGS))
        cases.append((gen_stream(rng), orig))
    alpha = ["a", "-a", "b", "-b", "-*", "*", "-"]
    nex = 0
    for L in range(0, ctx.n(4, 6) + 1):
        for seq in itertools.product(alpha, repeat=L):
            cases.append((list(seq), ["a"] if L % 2 else []))
            nex += 1
    ctx.extra["exhaustive_streams"] = nex

    probes = FLAGS + ["*"]
    reqs = []
    for toks, orig in cases:
        fin = True
        reqs.append({"cmd": "c12.expand", "toks": toks, "orig": orig, "finalize": True, "probes": probes})
        reqs.append({"cmd": "c12.expand", "toks": toks, "orig": orig, "finalize": False, "probes": probes})
        reqs.append({"cmd": "c12.optimize", "toks": toks, "orig": orig, "probes": probes})
    reps = ctx.model(reqs)
    for idx, (toks, orig) in enumerate(cases):
        rf, rn, ro = reps[3 * idx], reps[3 * idx + 1], reps[3 * idx + 2]
        case = {"tokens": toks, "orig": orig}
        if "bad-op" in (rf, rn, ro):
            ctx.mismatch(case, "driver rejected the request")
            continue
        ctx.case(case, nontrivial_stream(toks), key="E|" + " ".join(toks) + "|" + " ".join(orig))
        ctx.count("stream_len_%s" % (len(toks) if len(toks) < 8 else "8+"))
        if "-*" in toks:
            ctx.count("stream_has_clear")
        # --- the real incremental_expansion, both modes
        out = {}
        for fin, rep in ((True, rf), (False, rn)):
            try:
                out[fin] = ("ok", sorted(misc.incremental_expansion(list(toks), orig=set(orig), finalize=fin)))
            except Exception as e:
                out[fin] = ("err", exc_name(e))
            want = ("ok", sorted(rep["res"]["ok"])) if "ok" in rep["res"] else ("err", rep["res"]["err"])
            if out[fin] != want:
                ctx.mismatch(dict(case, finalize=fin), f"incremental_expansion gives {out[fin]}, the model {want}")
        ctx.count("expand_" + out[True][0] + ("" if out[True][0] == "ok" else "_" + out[True][1]))
        # --- property: left-to-right semantics per flag (spec `holds`) and rejection
        if out[True][0] == "ok":
            got = set(out[True][1])
            for f, h in zip(probes, rf["holds"]):
                if (f in got) != h:
                    ctx.violation(case, f"flag {f!r}: incremental_expansion says {f in got}, the last token speaking about it says {h}")
            if not rf["wf"]:
                ctx.violation(case, "a stream with an incomplete negation was expanded")
        elif rf["wf"]:
            ctx.violation(case, f"a well-formed stream was rejected: {out[True]}")
        # --- optimize_incrementals
        try:
            opt = ("ok", list(misc.optimize_incrementals(list(toks))))
        except Exception as e:
            opt = ("err", exc_name(e))
        want = ("ok", ro["res"]["ok"]) if "ok" in ro["res"] else ("err", ro["res"]["err"])
        if opt != want:
            ctx.mismatch(case, f"optimize_incrementals yields {opt}, the model {want}")
        if (opt[0] == "ok") != (out[True][0] == "ok"):
            ctx.violation(case, f"incremental_expansion: {out[True]}, optimize_incrementals: {opt} — one accepts what the other rejects")
        if opt[0] == "ok" and out[True][0] == "ok":
            cond = frozenset(opt[1])
            # (a) membership reading (domain.features: `"test" in self.features`)
            plain = set(misc.incremental_expansion(list(toks)))
            for f in probes:
                if (f in cond) != (f in plain):
                    ctx.violation(case, f"{f!r} in frozenset(optimize_incrementals) is {f in cond}, expanding the stream gives {f in plain}")
            # (b) the condensed set re-expanded (what it removes, then what it adds) on top of orig
            negs = sorted(x for x in cond if x[0] == "-")
            poss = sorted(x for x in cond if x[0] != "-")
            re = misc.incremental_expansion(negs + poss, orig=set(orig))
            flags_re = {x for x in re if x[0] != "-"}
            flags_full = {x for x in out[True][1] if x[0] != "-"}
            if flags_re != flags_full:
                ctx.violation(case, f"condensed form {sorted(cond)} re-expanded over {orig} gives {sorted(flags_re)}, the stream gives {sorted(flags_full)}")
            if "ok" in ro["reexpand"] and {x for x in ro["reexpand"]["ok"] if x[0] != "-"} != flags_re:
                ctx.mismatch(case, "model re-expansion differs from the real one")
            # (c) as domain.use reads it: split_negations -> one chunk -> incremental_chunked
            try:
                neg, pos = split_negations(cond)
                sp = {"neg": sorted(neg), "pos": sorted(pos)}
            except Exception as e:
                sp = {"err": exc_name(e)}
            msp = ro["split"]
            if ("err" in sp) != ("err" in msp) or ("neg" in sp and (sorted(msp["neg"]) != sp["neg"] or sorted(msp["pos"]) != sp["pos"])):
                ctx.mismatch(case, f"split_negations gives {sp}, the model {msp}")
            if "neg" in sp and not any(t.endswith("_*") for t in toks):
                s = {x for x in orig if x[0] != "-"}
                misc.incremental_chunked(s, [misc.chunked_data(None, tuple(neg), tuple(pos))])
                if s != {x for x in misc.incremental_expansion(list(toks), orig={x for x in orig if x[0] != "-"})}:
                    ctx.violation(case, f"USE condensed to neg={sp['neg']} pos={sp['pos']} and applied as a chunk gives {sorted(s)}, the stream gives otherwise")

    # ------------------------------------------------------------ ACCEPT_LICENSE
    tmp = tempfile.mkdtemp(prefix="verif-c12-")
    try:
        from pkgcore.ebuild.repo_objs import Licenses
        LIC = ["L1", "L2", "L3", "L4", "L5", "L6"]
        # the two namespaces overlap: a license file called like a group, groups called like licenses
        LIC_FILES = LIC + ["g1"]
        GROUP_NAMES = ["g1", "g2", "g3", "g4"]
        GROUP_REFS = GROUP_NAMES + ["nosuch", "L1", "L2"]

        class Repo:
            def __init__(self, loc):
                self.location = loc

        def real_groups(spec, limit=20):
            """spec: {group: [tokens incl. @refs]} -> the real Licenses(...).groups"""
            loc = tempfile.mkdtemp(dir=tmp)
            os.makedirs(os.path.join(loc, "profiles"))
            os.makedirs(os.path.join(loc, "licenses"))
            for l in LIC_FILES:
                open(os.path.join(loc, "licenses", l), "w").close()
            with open(os.path.join(loc, "profiles", "license_groups"), "w") as f:
                for g, v in spec.items():
                    f.write(g + " " + " ".join(v) + "\n")
            li = Licenses(Repo(loc))

            def on_alarm(*a):
                raise TimeoutError(f"did not finish expanding within {limit} s")
            prev = signal.signal(signal.SIGALRM, on_alarm)
            signal.alarm(limit)
            try:
                g = li.groups
            finally:
                signal.alarm(0)
                signal.signal(signal.SIGALRM, prev)
            return {k: set(v) for k, v in g.items()}, set(li.licenses)

        def closure(spec):
            out = {}
            for g in spec:
                seen, todo, acc = {g}, [g], set()
                cyc = False
                while todo:
                    cur = todo.pop()
                    for v in spec.get(cur, []):
                        if v.startswith("@"):
                            r = v[1:]
                            if r == g:
                                cyc = True
                            if r in spec and r not in seen:
                                seen.add(r)
                                todo.append(r)
                        else:
                            acc.add(v)
                out[g] = (acc, cyc)
            return out

        def cyclic(spec):
            def reach(g, seen):
                for v in spec.get(g, []):
                    if v.startswith("@") and v[1:] in spec:
                        if v[1:] in seen or reach(v[1:], seen | {v[1:]}):
                            return True
                return False
            return any(reach(g, {g}) for g in spec)

        group_specs = [
            {"g1": ["L1", "L2"], "g2": ["L3", "@g1"], "g3": ["@g2", "L4", "@nosuch"]},
            {"g1": ["L1"], "g2": ["@g1", "@g1", "L1"], "g3": ["@g4"], "g4": ["@g3"]},
            {"g1": ["@g2", "L1"], "g2": ["@g1", "L2"], "g3": ["@g3", "L3"]},
            SHARED_NAMES_SPEC,
        ]
        for _ in range(ctx.n(12, 150)):
            spec = {}
            names = GROUP_NAMES[: rng.randint(1, 4)]
            if rng.random() < 0.6:
                # groups called like a license
                names = names + rng.sample(["L1", "L2"], rng.randint(1, 2))
                rng.shuffle(names)
            for i, g in enumerate(names):
                # nested (only towards later groups), self references and missing groups; longer cycles: see the probe below
                refs = ["@" + n for n in names[i + 1:]] + ["@" + g, "@nosuch"]
                spec[g] = [rng.choice(LIC_FILES + refs) for _ in range(rng.randint(1, 4))]
            group_specs.append(spec)
        # open finding: a reference cycle through several groups that also carry licenses never finishes expanding
        hang_spec = {"g1": ["@g2", "L4"], "g2": ["L1", "@g3", "@g1"], "g3": ["@g4"], "g4": ["@g1", "@g4", "L6"]}
        try:
            real_groups(hang_spec, limit=3)
        except TimeoutError as e:
            ctx.violation({"license_groups": hang_spec}, f"Licenses.groups: {e}", finding="C12-cyclic-license-groups-hang")
        except Exception as e:
            ctx.violation({"license_groups": hang_spec}, f"Licenses.groups raised {type(e).__name__}: {e}")
        ctx.evaluations += 1
        pool = []
        for spec in group_specs:
            try:
                groups, known = real_groups(spec)
            except Exception as e:
                ctx.violation({"license_groups": spec}, f"Licenses.groups raised {type(e).__name__}: {e}")
                continue
            ctx.evaluations += 1
            ctx.count("license_groups_cyclic" if cyclic(spec) else "license_groups_acyclic")
            clo = closure(spec)
            for g, (acc, _cyc) in clo.items():
                got = groups.get(g, set())
                if any(x.startswith("@") for x in got):
                    ctx.violation({"license_groups": spec}, f"group {g} still contains a reference after expansion: {sorted(got)}")
                elif not cyclic(spec) and got != acc:
                    ctx.violation({"license_groups": spec}, f"group {g} expands to {sorted(got)}, its licenses (through nested groups) are {sorted(acc)}")
                elif not got <= acc:
                    ctx.violation({"license_groups": spec}, f"group {g} expands to {sorted(got)}, not within its reachable licenses {sorted(acc)}")
            pool.append((groups, known))

        lcases = [(toks, 0) for toks in CORPUS_LIC]
        if len(pool) > 3:
            lcases += [(toks, 3) for toks in CORPUS_LIC_SHARED]
        if ctx.replay_cases:
            for c in ctx.replay_cases:
                if "license_tokens" in c and "groups" in c:
                    pool.append(({g: set(v) for g, v in c["groups"].items()}, set(c.get("licenses", LIC_FILES))))
                    lcases.insert(0, (list(c["license_tokens"]), len(pool) - 1))
        for _ in range(ctx.n(1500, 40000)):
            toks = []
            for _ in range(rng.randint(0, 9)):
                r = rng.random()
                if r < 0.3:
                    toks.append(rng.choice(LIC_FILES))
                elif r < 0.5:
                    toks.append("-" + rng.choice(LIC_FILES))
                elif r < 0.68:
                    toks.append("@" + rng.choice(GROUP_REFS))
                elif r < 0.82:
                    toks.append("-@" + rng.choice(GROUP_REFS))
                elif r < 0.9:
                    toks.append("*")
                elif r < 0.96:
                    toks.append("-*")
                else:
                    toks.append(rng.choice(["-", "-@", "@", "--L1", "@@g1", "X"]))
            lcases.append((toks, rng.randrange(len(pool))))
        lprobes = LIC_FILES + ["X", "nosuch", "*"]
        lreqs = []
        for toks, gi in lcases:
            groups, known = pool[gi]
            lreqs.append({"cmd": "c12.lic", "toks": toks, "licenses": sorted(known), "probes": lprobes,
                          "groups": [[g, sorted(v)] for g, v in sorted(groups.items())]})
        for (toks, gi), rep in zip(lcases, ctx.model(lreqs)):
            groups, known = pool[gi]
            case = {"license_tokens": toks, "groups": {g: sorted(v) for g, v in groups.items()}, "licenses": sorted(known)}
            if rep == "bad-op":
                ctx.mismatch(case, "driver rejected the request")
                continue
            ctx.case(case, nontrivial_stream(toks), key="L|" + " ".join(toks) + "|" + str(gi))
            try:
                got = ("ok", sorted(misc.incremental_expansion_license("cat/pkg-1", frozenset(known), dict(groups), list(toks))))
            except Exception as e:
                got = ("err", exc_name(e))
            want = ("ok", sorted(rep["res"]["ok"])) if "ok" in rep["res"] else ("err", rep["res"]["err"])
            ctx.count("license_" + got[0])
            literal = {t.lstrip("-") for t in toks if t.lstrip("-")[:1] not in ("@", "*", "")}
            if any(t.lstrip("-")[:1] == "@" and t.lstrip("-")[1:] in literal for t in toks):
                ctx.count("license_stream_names_a_license_and_a_group_alike")
            if got != want:
                ctx.mismatch(case, f"incremental_expansion_license gives {got}, the model {want}")
            if got[0] == "ok":
                if not rep["wf"]:
                    ctx.violation(case, "an ACCEPT_LICENSE stream with an incomplete negation/group was expanded")
                for l, last in zip(lprobes, rep["last"]):
                    if (l in got[1]) != (last is True):
                        ctx.violation(case, f"license {l!r}: accepted={l in got[1]}, the last token speaking about it says {last}")
            elif rep["wf"]:
                ctx.violation(case, f"a well-formed ACCEPT_LICENSE stream was rejected: {got}")
    finally:
        shutil.rmtree(tmp, ignore_errors=True)

    # ------------------------------------------------------------ collapsed_restrict_to_data
    from pkgcore.test.misc import FakePkg, FakeRepo
    pkgs = [FakePkg("a/b-1", repo=FakeRepo(repo_id="r1")), FakePkg("a/c-2", repo=FakeRepo(repo_id="r2")), FakePkg("x/b-1", repo=FakeRepo(repo_id="r1"))]

    def mk_restrict(kind, spec=None):
        """-> (restriction, atom key or None, spec); `spec` (JSON-able) rebuilds the same restriction in a replay"""
        if kind == "true":
            return packages.AlwaysTrue, None, None
        if kind == "false":
            return packages.AlwaysFalse, None, None
        if kind == "atom":
            spec = spec or rng.choice(["a/b", "a/c", "x/b", "=a/b-1", "=a/b-2", ">=a/c-1"])
            a = atom(spec)
            return a, a.key, spec
        if kind == "cat":
            spec = spec or rng.choice(["a", "x"])
            return packages.PackageRestriction("category", values.StrExactMatch(spec)), None, spec
        if kind == "pkg":
            spec = spec or rng.choice(["b", "c"])
            return packages.PackageRestriction("package", values.StrExactMatch(spec)), None, spec
        if kind == "repo":
            spec = spec or rng.choice(["r1", "r2"])
            return packages.PackageRestriction("repo.repo_id", values.StrExactMatch(spec)), None, spec
        spec = spec or [rng.choice(["a", "x"]), rng.choice(["b", "c"])]
        return packages.AndRestriction(packages.PackageRestriction("category", values.StrExactMatch(spec[0])),
                                       packages.PackageRestriction("package", values.StrExactMatch(spec[1]))), None, spec

    # One long-lived object, many questions (the domain's keyword / license filters ask one collapsed object about package after
    # package): every object is asked a *sequence* of queries -- packages matched by nothing, by freeform entries only, by atoms,
    # with and without pre_defaults / force_copy, iter_pull_data in between, answers obtained with force_copy=True scribbled over
    # as their owner may -- and every answer is judged on its own: the model, a fresh object asked only that, its own stream.
    def make(entries):
        return misc.collapsed_restrict_to_data([(r, d) for _k, r, _key, _spec, d in entries])

    def pull(obj, pkg, pre, force_copy):
        kw = {}
        if pre:
            kw["pre_defaults"] = pre
        if force_copy:
            kw["force_copy"] = True
        try:
            return ("ok", sorted(obj.pull_data(pkg, **kw)))
        except Exception as e:
            return ("err", exc_name(e))

    preqs, pmeta = [], []
    replay_objs = [c for c in (ctx.replay_cases or []) if "queries" in c and "entries" in c]
    pkg_by_name = {str(p): p for p in pkgs}
    for n_obj in range(len(replay_objs) + ctx.n(600, 15000)):
        entries, queries = [], []
        if n_obj < len(replay_objs):
            c = replay_objs[n_obj]
            for kind, spec, data in c["entries"]:
                entries.append((kind,) + mk_restrict(kind, spec) + (list(data),))
            queries = [(pkg_by_name[name], list(pre), bool(fc)) for name, pre, fc in c["queries"] if name in pkg_by_name]
        else:
            n_always_first = rng.choice([0, 1, 1, 2])
            for i in range(rng.randint(1, 6)):
                kind = "true" if i < n_always_first else rng.choice(["true", "false", "atom", "atom", "atom", "cat", "pkg", "repo", "multi"])
                entries.append((kind,) + mk_restrict(kind) + (gen_stream(rng, rng.randint(0, 4), bad=0.01),))
            for _q in range(rng.choice([1, 2, 3, 4, 5, 6, 8])):
                pkg = rng.choice(pkgs)
                pre = [f for f in FLAGS if rng.random() < 0.25] if rng.random() < 0.3 else []
                queries.append((pkg, pre, rng.random() < 0.25))
        try:
            obj = make(entries)
            built = "ok"
        except Exception as e:
            obj, built = None, exc_name(e)
        order = list(obj.defaults) if obj is not None else []
        ents_of = {}
        for qi, (pkg, pre, _fc) in enumerate(queries):
            ents = [{"kind": k, "key": key, "m": bool(r.match(pkg)), "data": d} for k, r, key, _spec, d in entries]
            ents_of[qi] = ents
            preqs.append({"cmd": "c12.pull", "entries": ents, "finalize": True, "key": pkg.key, "pre": pre, "order": order})
        pmeta.append((entries, queries, obj, built, ents_of))
    reps = iter(ctx.model(preqs))
    for entries, queries, obj, built, ents_of in pmeta:
        qreps = [next(reps) for _ in queries]
        base = {"entries": [[k, spec, d] for k, _r, _key, spec, d in entries]}
        history = []
        state0 = None
        for qi, ((pkg, pre, force_copy), rep) in enumerate(zip(queries, qreps)):
            ents = ents_of[qi]
            history.append([str(pkg), pre, force_copy])
            case = dict(base, matches=[e["m"] for e in ents], queries=[list(h) for h in history], pkg=str(pkg), pre_defaults=pre)
            if rep == "bad-op":
                ctx.mismatch(case, "driver rejected the request")
                continue
            ctx.case(case, any(e["m"] and e["data"] for e in ents), key="P|" + repr(case))
            ctx.count("pull_query_no_%s" % min(qi, 6))
            if qi == 0:
                for e in ents:
                    ctx.count("restrict_" + e["kind"])
            if built != "ok":
                if rep.get("err") != built:
                    ctx.mismatch(case, f"collapsed_restrict_to_data raised {built}, the model gives {rep}")
                break
            if "err" in rep:
                ctx.mismatch(case, f"collapsed_restrict_to_data built fine, the model fails with {rep}")
                break
            if qi == 0:
                if sorted(obj.defaults) != sorted(rep["defaults"]):
                    ctx.mismatch(case, f"defaults {sorted(obj.defaults)} vs model {sorted(rep['defaults'])}")
                state0 = (sorted(obj.defaults), sorted(obj.defaults_finalized))
            matched = [e["kind"] for e in ents if e["m"] and e["data"] and e["kind"] not in ("true", "false")]
            ctx.count("pull_matched_" + ("none" if not matched else "atom" if "atom" in matched else "freeform_only"))
            got = pull(obj, pkg, pre, force_copy)
            want = ("ok", sorted(rep["pull"]["ok"])) if "ok" in rep["pull"] else ("err", rep["pull"]["err"])
            if got != want:
                ctx.mismatch(case, f"pull_data (query {qi + 1} on this object) gives {got}, the model {want}")
            # property on the real code: pull_data = expanding the stream iter_pull_data yields ...
            stream = list(obj.iter_pull_data(pkg, pre_defaults=pre))
            if sorted(stream) != sorted(rep["stream"]):
                ctx.mismatch(case, f"iter_pull_data yields {stream}, the model {rep['stream']}")
            try:
                ex = ("ok", sorted(misc.incremental_expansion(stream)))
            except Exception as e:
                ex = ("err", exc_name(e))
            ctx.count("pull_" + got[0])
            if got != ex:
                ctx.violation(case, f"pull_data (query {qi + 1} on this object) gives {got}; expanding its own stream {stream} gives {ex}")
            # ... whatever the object was asked before: a fresh object asked only this gives the same
            if qi > 0:
                fresh = pull(make(entries), pkg, pre, force_copy)
                ctx.evaluations += 1
                if got != fresh:
                    ctx.violation(case, f"after {qi} earlier queries pull_data gives {got}; a fresh object built from the same entries gives {fresh}")
            if force_copy and got[0] == "ok":
                # the caller owns a forced copy: using it up must not reach the object
                mine = obj.pull_data(pkg, force_copy=True, **({"pre_defaults": pre} if pre else {}))
                mine.clear()
                mine.update(["scribble", "-a", "a", "b", "c", "d", "e"])
            state = (sorted(obj.defaults), sorted(obj.defaults_finalized))
            if state != state0:
                # (the model treats the object as a value; a later wrong answer is what breaks the property)
                ctx.mismatch(case, f"query {qi + 1} changed the object: defaults / defaults_finalized {state0} -> {state}")
                state0 = state

    # ------------------------------------------------------------ open finding: non-finalized defaults are re-expanded in set order
    outs = set()
    for seed in ("1", "2", "3", "5", "6"):
        env = dict(os.environ, PYTHONHASHSEED=seed)
        p = subprocess.run([sys.executable, "-c", _CHILD, os.path.join(os.environ.get("VERIF_REPO", "/repo"), "src")],
                           env=env, stdout=subprocess.PIPE, stderr=subprocess.DEVNULL, timeout=120)
        outs.add(p.stdout.decode().strip())
    ctx.evaluations += 1
    if outs != {"b c d"}:
        ctx.violation({"entries": [["true", None, True, ["q", "-*", "b", "c", "d"]]], "finalize_defaults": False, "pre_defaults": ["a"]},
                      f"pull_data results under five hash seeds: {sorted(outs)}; expanding the stream gives ['b', 'c', 'd']",
                      finding="C12-unfinalized-defaults-set-order")


LEVEL_TEXT = ("Kernel-checked Lean 4 theorems about models of incremental_expansion (both modes), optimize_incrementals, split_negations, "
              "incremental_expansion_license and collapsed_restrict_to_data: for every token stream and initial set each flag/license ends up on "
              "iff the last token speaking about it says so (no length bound); the condensed form of optimize_incrementals has the same members, "
              "re-expands (removals first) to the same set over any initial set and splits into the same chunk; every stream with a bare '-', '-@' "
              "or '@' is rejected by all of them and every other stream is accepted; pull_data equals the expansion of the stream iter_pull_data "
              "yields. Tied to the code by a differential run (random + bounded-exhaustive streams) that also evaluates the per-flag specification "
              "on the real functions.")
LEVEL_NOTE = ("Trusted: Lean kernel; set-as-list modelling; nested license groups (Licenses._expand_groups) only sampled. Open finding: with "
              "finalize_defaults=False the stored defaults are a set re-expanded in hash order (no caller in the tree passes that option).")
