"""C20 — unmerge removes exactly what it owns and never base directories.

Real `unmerge_contents` calls and real `MergeEngine.uninstall` / `MergeEngine.replace` runs (merge + unmerge +
BaseSystemUnmergeProtection triggers registered on an engine created with disable_plugins=True, so that ldconfig
and install-info are not spawned) on scratch roots with an offset, under the os-level recorder of C18; compared
call by call and snapshot by snapshot with the Lean model and judged by the Lean specification.
"""
import os

from . import c18
from .c18 import (Sandbox, Recorder, Ids, snapshot, fs_json, canon_fs, entry_json, make_cset, classify_exc, model_trace,
                  env_json, diff_fs, gen_data, gen_owner, gen_package, nodes_of, next_build, PKG_NAMES, _f, _d, _s, _e)

PID = "C20"
LEAN_MODULES = ["Pkgcore.Props.C20"]
OBLIGATIONS = [
    "Pkgcore.C20.unmerge_exact",
    "Pkgcore.C20.unmerge_removes_emptied_dirs",
    "Pkgcore.C20.no_symlink_follow",
    "Pkgcore.C20.base_dirs_kept",
    "Pkgcore.C20.base_dirs_table",
    "Pkgcore.C20.uninstall_exact",
    "Pkgcore.C20.replace_keeps_new",
    "Pkgcore.C20.replace_keeps_aliased",
    "Pkgcore.C20.removePlanOf_literal",
    "Pkgcore.C20.unmerged_bounded_iff",
]
TRUSTED = c18.TRUSTED + [
    "MergeEngine's lazy cset plumbing (StackedDict/LazyValDict, alias_cset, trigger ordering by priority) is modelled by the order "
    "protection-then-unmerge on the cset it produces; tied to the code by running the real engines",
    "the table BaseSystemUnmergeProtection._preserve_sequence is regenerated from the imported class on every run",
]
ASSUMPTIONS = [
    "literal paths in the Lean file-system model: roots where a listed location runs through a symlinked directory are judged on the real "
    "code (direct oracle: what the new package installed is identical before and after the unmerge; protected directories still exist) and, "
    "for the cset algebra, by comparing the engine's remove cset with the model's removePlanOf under the live root's name resolution",
    "single device, no concurrent writers, no mount points (EBUSY) and no permission failures (the harness runs the code with enough privilege)",
    "the engines are exercised with the merge/unmerge/protection triggers only (the default plugin set additionally spawns ldconfig and install-info)",
]
RULE = ("package images with sibling names that are string prefixes of each other, installed and then partially pruned (whole directories, "
        "single files) before unmerge/uninstall; live roots where a directory has two names (link L -> D) with the old package recorded under "
        "one and the next build coming under the other (files, links, sub-directories, empty directories); random recorded contents (old) and new contents over random live roots built around the base-system directories (usr, usr/lib, etc, "
        "var, bin, …): shared entries, entries deleted or retyped behind the package's back, non-empty directories, symlinks to files and "
        "directories at listed locations, symlinked ancestor directories; MergeEngine.uninstall and .replace with an offset, and "
        "unmerge_contents directly with/without its offset argument; the live root is named to the code by its canonical path or through a "
        "symlink (mount-point link, link with '..') or in a non-normalised spelling (doubled slash, '.' component, trailing slash, 'root/../root'); "
        "histories: the measured operation is the last of up to five steps made by the same process on the same root — earlier upgrades of the "
        "package (build after build) and, in between, layout changes (the package's directory moved and its old name left as a symlink, or "
        "such a link dissolved again); when model and code disagree on a case, the property is evaluated on the inputs next to "
        "it (other root spelling, other engine, protected base directories owned and left empty, root pruned to the listed paths); non-trivial = at least one listed path is removed and at least one "
        "listed directory or protected directory survives")

SCALE = float(os.environ.get("VERIF_C20_SCALE", "1"))     # development only: fraction of the random budget

BASE = [["usr"], ["usr", "lib"], ["usr", "bin"], ["usr", "share"], ["usr", "lib32"], ["usr", "sbin"], ["etc"], ["var"], ["opt"], ["bin"],
        ["lib64"], ["home"], ["sbin"]]
LEAF = ["a", "b", "c", "conf", "lib", "x y", "ü", "d#new", ".keep"]


FINDING_ALIAS = "C20-protected-dir-through-symlinked-path"
ALIAS_MARK = " (through the listed directory"

def gen_tables(repo):
    from pkgcore.merge import triggers
    seq = triggers.BaseSystemUnmergeProtection._preserve_sequence
    rows = []
    for p in seq:
        comps = [c for c in os.path.normpath(p).split("/") if c]
        rows.append("[" + ", ".join('"%s"' % c for c in comps) + "]")
    text = ("-- GENERATED from /repo by harness/props/c20.py (gen_tables); do not edit\n"
            "namespace Pkgcore.Generated.C20\n"
            "def preserveSequence : List (List String) := [" + ", ".join(rows) + "]\n"
            "end Pkgcore.Generated.C20\n")
    return {"Pkgcore/Generated/C20Tables.lean": text}


# ---------------------------------------------------------------------------------------------- generators

def gen_root(rng):
    """live root: some base directories, then random content inside them"""
    tree, dirs, used, files = [], [()], {()}, []
    for b in BASE:
        if rng.random() < 0.6 and tuple(b[:-1]) in used:
            uid, gid = gen_owner(rng)
            tree.append({"p": list(b), "k": "dir", "mode": 0o755, "uid": uid, "gid": gid, "mtime": 1000})
            used.add(tuple(b))
            dirs.append(tuple(b))
    for _ in range(rng.randint(0, 10)):
        parent = rng.choice(dirs)
        if len(parent) >= 4:
            continue
        p = parent + (rng.choice(LEAF),)
        if p in used:
            continue
        used.add(p)
        uid, gid = gen_owner(rng)
        nd = {"p": list(p), "uid": uid, "gid": gid, "mtime": rng.choice([5, 1000, 77777])}
        k = rng.random()
        if k < 0.35:
            nd.update(k="dir", mode=rng.choice([0o755, 0o700]))
            dirs.append(p)
        elif k < 0.75:
            nd.update(k="file", data=gen_data(rng), mode=0o644)
            if files and rng.random() < 0.15:
                nd["link_to"] = list(rng.choice(files))
            files.append(p)
        elif k < 0.95:
            tk = rng.random()
            if tk < 0.45 and len(dirs) > 1:
                t = rng.choice(dirs[1:])
                target = os.path.relpath("/" + "/".join(t), "/" + "/".join(parent))
            elif tk < 0.7 and files:
                t = rng.choice(files)
                target = os.path.relpath("/" + "/".join(t), "/" + "/".join(parent))
            else:
                target = rng.choice(["nowhere", "../nope"])
            nd.update(k="sym", target=target, mode=0o777)
        else:
            nd.update(k="fifo", mode=0o644)
        tree.append(nd)
    return tree


def gen_contents(rng, tree, other=None):
    """recorded contents of a package: locations from the live root (any type recorded!), from the base directories, from
    another package's contents, and fresh ones"""
    live = [tuple(nd["p"]) for nd in tree]
    livedirs = [()] + [tuple(nd["p"]) for nd in tree if nd["k"] == "dir"]
    livedirs += [tuple(nd["p"]) for nd in tree if nd["k"] == "sym"][:2]        # entries below a symlink (symlinked ancestor)
    ents = {}
    for _ in range(rng.randint(1, 10) * 2):
        r = rng.random()
        if r < 0.45 and live:
            p = rng.choice(live)
        elif r < 0.6:
            p = tuple(rng.choice(BASE))
        elif r < 0.75 and other:
            p = tuple(rng.choice(other)["p"])
        else:
            p = rng.choice(livedirs) + (rng.choice(LEAF),)
            if rng.random() < 0.2:
                p = p + (rng.choice(LEAF),)
        if p in ents or not p or len(p) > 5:
            continue
        uid, gid = gen_owner(rng)
        e = {"p": list(p), "mode": rng.choice([0o644, 0o755, 0o600]), "uid": uid, "gid": gid, "mtime": rng.choice([7, 1234, 31337])}
        have = next((nd["k"] for nd in tree if tuple(nd["p"]) == p), None)
        k = rng.random()
        if have == "dir" and rng.random() < 0.85 or (tuple(p) in [tuple(b) for b in BASE] and rng.random() < 0.9):
            k = 0.0
        elif have in ("file", "sym", "fifo") and rng.random() < 0.85:
            k = {"file": 0.5, "sym": 0.8, "fifo": 0.95}[have]
        if k < 0.3:
            e.update(k="dir", mode=0o755)
        elif k < 0.72:
            e.update(k="reg", data=gen_data(rng), key=None, src=rng.choice(["mem", "file"]))
        elif k < 0.92:
            e.update(k="sym", target=rng.choice(["a", "../b", "nowhere"]), mode=0o777)
        else:
            e.update(k="fifo")
        ents[p] = e
        if len(ents) >= 9:
            break
    out = list(ents.values())
    # a package image is a tree: nothing below a non-directory entry, parents recorded
    nondirs = {tuple(e["p"]) for e in out if e["k"] != "dir"}
    out = [e for e in out if not any(tuple(e["p"][:i]) in nondirs for i in range(1, len(e["p"])))]
    have = {tuple(e["p"]) for e in out}
    for e in list(out):
        for i in range(1, len(e["p"])):
            q = tuple(e["p"][:i])
            if q not in have and rng.random() < 0.9:
                have.add(q)
                out.append({"p": list(q), "k": "dir", "mode": 0o755, "uid": e["uid"], "gid": e["gid"], "mtime": 7})
    rng.shuffle(out)
    return out


def _under(entries, old_top, new_top):
    n = len(old_top)
    out = []
    for e in entries:
        e = dict(e)
        if e["p"][:n] == list(old_top):
            e["p"] = list(new_top) + e["p"][n:]
        out.append(e)
    return out


def gen_alias_replace(rng):
    """a live root with a directory that has two names (D and the link L -> D); the old package is installed in it and
    recorded under one of the names, the new build of the package comes under one of the names (often the other one) —
    files, symlinks, sub-directories and empty directories alike"""
    base = rng.choice([["usr"], ["opt"], []])
    dname, lname = rng.choice([("lib64", "lib"), ("app64", "app"), ("share", "doc"), ("man1p", "man1"), ("foo2", "foo")])
    D, L = base + [dname], base + [lname]
    tree = [{"p": base[:i], "k": "dir", "mode": 0o755, "uid": 0, "gid": 0, "mtime": 1000} for i in range(1, len(base) + 1)]
    b1 = gen_package(rng, top=tuple(D), nmax=6)
    tree += [n for n in nodes_of(b1) if n["p"] not in [t["p"] for t in tree]]
    tree.append({"p": L, "k": "sym", "target": dname, "mode": 0o777, "uid": 0, "gid": 0, "mtime": 1000})
    if rng.random() < 0.3:
        tree.append({"p": D + ["foreign"], "k": "file", "data": "66", "mode": 0o644, "uid": 0, "gid": 0, "mtime": 5})
    b2 = next_build(rng, b1, top=tuple(D))
    old_top, new_top = rng.choice([(D, L), (L, D), (L, L), (D, D), (D, L), (L, D)])
    return tree, _under(b1, D, old_top), _under(b2, D, new_top)


def gen_pruned(rng):
    """the old package fully installed, then partially pruned behind its back: whole directories (with what is in
    them) and single files are gone, foreign files have appeared; sibling names share string prefixes"""
    top = rng.choice([(), ("usr", "share"), ("opt",)])
    b1 = gen_package(rng, top=top, nmax=8, twins=0.5)
    nodes = nodes_of(b1)
    gone = set()
    for n in nodes:
        p = tuple(n["p"])
        if len(p) > len(top) and rng.random() < (0.3 if n["k"] == "dir" else 0.15):
            gone.add(p)
    tree = [n for n in nodes if not any(tuple(n["p"][:i]) in gone for i in range(1, len(n["p"]) + 1))]
    dirs = [tuple(n["p"]) for n in tree if n["k"] == "dir"]
    have = {tuple(n["p"]) for n in tree}
    for _ in range(rng.randint(0, 2)):
        if dirs:
            p = rng.choice(dirs) + (rng.choice(PKG_NAMES),)
            if p not in have:
                have.add(p)
                tree.append({"p": list(p), "k": "file", "data": "66", "mode": 0o644, "uid": 0, "gid": 0, "mtime": 5})
    return tree, b1


class Hist(list):
    """a live root (list of nodes) plus what happened on it earlier IN THE SAME PROCESS: engine runs and changes of the
    directory layout made by the administrator in between.  The measured operation runs on the root the history leaves."""
    history = ()


def with_history(tree, history):
    t = Hist(tree)
    t.history = list(history)
    return t


LINK_PAIRS = [("lib64", "lib"), ("app64", "app"), ("share", "doc"), ("man1p", "man1"), ("foo2", "foo")]


def _not_at(entries, D):
    """(the builds are generated under the directory's first name; nothing of the package may sit at or below its other name)"""
    return [e for e in entries if e["p"][:len(D)] != D]


def gen_history(rng):
    """one long-lived process (a package manager session: emerge -uD world) working on one live root: the package is
    upgraded build after build, and in between the layout of the root changes — the directory the package lives in is
    moved and its old name left behind as a symlink (the usr/lib -> lib64, bin -> usr/bin migrations) or a link is
    dissolved into a real directory again.  Old contents stay recorded under the name they were merged under; every
    next build may come under any name the directory has at that time.  The last operation is the measured one."""
    base = rng.choice([["usr"], ["opt"], []])
    dname, lname = rng.choice(LINK_PAIRS)
    D, L = base + [dname], base + [lname]
    tree = [{"p": base[:i], "k": "dir", "mode": 0o755, "uid": 0, "gid": 0, "mtime": 1000} for i in range(1, len(base) + 1)]
    linked = rng.random() < 0.25
    cur = gen_package(rng, top=tuple(L), nmax=6)                  # canonical naming: under L
    tree += [n for n in nodes_of(_under(cur, L, D if linked else L)) if n["p"] not in [t["p"] for t in tree]]
    if linked:
        tree.append({"p": L, "k": "sym", "target": dname, "mode": 0o777, "uid": 0, "gid": 0, "mtime": 1000})
    if rng.random() < 0.3:
        tree.append({"p": (D if linked else L) + ["foreign"], "k": "file", "data": "66", "mode": 0o644, "uid": 0, "gid": 0, "mtime": 5})
    rec = rng.choice([D, L]) if linked else L                    # the name the installed build is recorded under
    hist, engine_steps = [], 0
    for _ in range(rng.randint(1, 3)):
        r = rng.random()
        if not linked and (r < 0.45 and engine_steps or r < 0.1):
            hist.append({"op": "migrate", "dir": L, "to": D})
            linked = True
            continue
        if linked and r < 0.08:
            hist.append({"op": "dissolve", "link": L, "dir": D})   # the link goes, the directory gets its name back
            linked = False
            continue
        nb = _not_at(next_build(rng, cur, top=tuple(L)), D)
        nrec = rng.choice([D, L]) if linked else L
        hist.append({"op": "replace", "old": _under(cur, L, rec), "new": _under(nb, L, nrec)})
        cur, rec, engine_steps = nb, nrec, engine_steps + 1
    if not linked and engine_steps and rng.random() < 0.6:
        hist.append({"op": "migrate", "dir": L, "to": D})
        linked = True
    old = _under(cur, L, rec)
    if rng.random() < 0.25:
        return "uninstall", with_history(tree, hist), old, None
    nb = _not_at(next_build(rng, cur, top=tuple(L)), D)
    return "replace", with_history(tree, hist), old, _under(nb, L, rng.choice([D, L, D]) if linked else L)


def run_step(sb, root, st):
    """one earlier step on the same root, by the same process (not recorded, not judged here: every prefix of a history
    is a case of its own distribution); returns the exception it ended with, if any"""
    try:
        if st["op"] == "migrate":
            src, dst = sb.path(st["dir"]), sb.path(st["to"])
            os.rename(src, dst)
            os.symlink(os.path.relpath(dst, os.path.dirname(src)), src)
        elif st["op"] == "dissolve":
            os.unlink(sb.path(st["link"]))
            os.rename(sb.path(st["dir"]), sb.path(st["link"]))
        elif st["op"] == "uninstall":
            e = make_engine("uninstall", sb, FakePkg(make_cset(sb, st["old"])), offset=root)
            for h in HOOKS_UN:
                getattr(e, h)()
        elif st["op"] == "replace":
            e = make_engine("replace", sb, FakePkg(make_cset(sb, st["old"])), FakePkg(make_cset(sb, st["new"])), offset=root)
            for h in HOOKS_MERGE + HOOKS_REST:
                getattr(e, h)()
        else:
            raise ValueError("unknown history step %r" % (st,))
    except Exception as ex:  # noqa: BLE001
        return ex
    return None


def symlinked(pre_snap, entries, dirs_too=False):
    """a location runs through a symlink (dirs_too: or a directory entry sits on one — the replace engine resolves
    those on the live file system when it decides what the new package owns)"""
    for e in entries:
        p = tuple(e["p"])
        for i in range(1, len(p) + (1 if dirs_too and e["k"] == "dir" else 0)):
            nd = pre_snap.get(p[:i])
            if nd is not None and nd["k"] == "sym":
                return True
    return False


class FakePkg:
    def __init__(self, contents):
        self.contents = contents

    def __str__(self):
        return "fake-pkg"


def make_engine(mode, sb, *pkgs, offset=None):
    from pkgcore.merge import engine, triggers
    from pkgcore.operations import observer
    e = getattr(engine.MergeEngine, mode)(sb.tmp, *pkgs, offset=offset or sb.root, disable_plugins=True,
                                          observer=observer.repo_observer(observer.null_output()))
    for t in (triggers.merge, triggers.unmerge, triggers.BaseSystemUnmergeProtection):
        t().register(e)

    class Spy(triggers.base):
        """runs between the protection trigger (-100) and unmerge (50): what is about to be unmerged"""
        required_csets = ("uninstall",)
        _hooks = ("unmerge",)
        _engine_types = triggers.UNINSTALLING_MODES
        priority = 0
        suppress_exceptions = False
        seen = None

        def trigger(self, engine, cset):
            self.seen = sorted(x.location for x in cset)
    e.spy = Spy()
    e.spy.register(e)
    return e


def rel_of(sb, path):
    path = os.path.normpath(path)
    for r in (sb.root,) + tuple(getattr(sb, "aliases", ())):
        if path == r:
            return []
        if path.startswith(r + "/"):
            return path[len(r) + 1:].split("/")
    return ["!outside"] + path.split("/")


# how the live root is named to the code: its canonical path; a path that reaches it through a symlink (a mount point
# link such as /mnt/gentoo -> ../roots/stage3, or /tmp -> private/tmp); spellings of the canonical path that are not in
# normalised form (ROOT=/mnt//gentoo, /mnt/./gentoo/, a trailing slash, a 'root/../root' detour)
SPELLINGS = ("plain", "link", "link-deep", "dslash", "dot", "trailing", "dotdot")


def spell_root(sb, how):
    """creates what the spelling needs next to the scratch root; returns the path handed to the code"""
    sb.aliases = ()
    if how == "link":
        alias = os.path.join(sb.base, "mnt")
        os.symlink("root", alias)
    elif how == "link-deep":
        os.mkdir(os.path.join(sb.base, "roots"))
        os.symlink("..", os.path.join(sb.base, "roots", "up"))
        alias = os.path.join(sb.base, "roots", "up", "root")
    elif how == "dslash":
        return sb.base + "//root"
    elif how == "dot":
        return sb.base + "/./root/"
    elif how == "trailing":
        return sb.root + "/"
    elif how == "dotdot":
        return sb.root + "/../root"
    else:
        return sb.root
    sb.aliases = (os.path.normpath(alias),)
    return alias


def resolution_table(sb, entries):
    """for every location: [path, path with its directory part resolved on the live root, fully resolved path]"""
    out = []
    for e in entries:
        loc = sb.path(e["p"])
        resp = os.path.join(os.path.realpath(os.path.dirname(loc)), os.path.basename(loc)) if e["p"] else loc
        out.append([e["p"], rel_of(sb, resp), rel_of(sb, os.path.realpath(loc))])
    return out


def live_entries(sb, old):
    """`livefs.intersect`: the live object at every recorded location that exists (kernel path resolution)"""
    out = []
    for e in old:
        k = probe(sb, e)[0]
        if k == "absent":
            continue
        d = {"p": e["p"], "mode": 0, "uid": 0, "gid": 0, "mtime": 0}
        d.update({"dir": dict(k="dir"), "file": dict(k="reg", data="", key=None), "sym": dict(k="sym", target="x"),
                  "other": dict(k="fifo")}[k])
        out.append(d)
    return out


HOOKS_UN = ("sanity_check", "pre_unmerge", "unmerge", "post_unmerge", "final")
HOOKS_MERGE = ("sanity_check", "pre_merge", "merge", "post_merge")
HOOKS_REST = ("pre_unmerge", "unmerge", "post_unmerge", "final")


def probe(sb, e):
    """the object at the entry's own path as the kernel resolves it (ancestor symlinks followed, the last component not)"""
    loc = sb.path(e["p"])
    try:
        st = os.lstat(loc)
    except OSError:
        return ("absent", None)
    import stat as _st
    if _st.S_ISDIR(st.st_mode):
        return ("dir", None)
    if _st.S_ISLNK(st.st_mode):
        return ("sym", os.readlink(loc))
    if _st.S_ISREG(st.st_mode):
        with open(loc, "rb") as f:
            return ("file", f.read().hex(), st.st_ino)
    return ("other", None)


def run_real(kind, tree, old, new=None, offset_arg=True, how="plain"):
    """returns dict(pre, mid, post, ops, exc, outside)"""
    from pkgcore.fs import ops
    sb = Sandbox()
    um = os.umask(0o022)
    try:
        sb.build(tree)
        root = spell_root(sb, how)
        hist_exc = [run_step(sb, root, st) for st in getattr(tree, "history", ())]
        if hist_exc:
            sb.build([], mkroot=False)          # keep-alive links for what the earlier steps created (inode identity)
        pre = snapshot(sb.root)
        mid = None
        exc = None
        with Recorder(sb.root, aliases=sb.aliases) as rec:
            try:
                if kind == "unmerge":
                    if offset_arg:
                        ops.unmerge_contents(make_cset(sb, old), offset=root)
                    else:
                        ops.unmerge_contents(make_cset(sb, old, prefix=root))
                elif kind == "uninstall":
                    e = make_engine("uninstall", sb, FakePkg(make_cset(sb, old)), offset=root)
                    for h in HOOKS_UN:
                        getattr(e, h)()
                    if e.spy.seen is not None:
                        plan = sorted(rel_of(sb, p) for p in e.spy.seen)
                else:
                    e = make_engine("replace", sb, FakePkg(make_cset(sb, old)), FakePkg(make_cset(sb, new)), offset=root)
                    for h in HOOKS_MERGE:
                        getattr(e, h)()
                    mid = snapshot(sb.root)
                    probes = [probe(sb, x) for x in new]
                    nmid = len(rec.ops)
                    restab = resolution_table(sb, old + new)
                    live = live_entries(sb, old)
                    for h in HOOKS_REST:
                        getattr(e, h)()
                    if e.spy.seen is not None:
                        plan = sorted(rel_of(sb, p) for p in e.spy.seen)
            except Exception as ex:  # noqa: BLE001
                exc = ex
        post = snapshot(sb.root)
        oracle = []
        if exc is None:
            from pkgcore.merge import triggers
            for b in [[c for c in x.split("/") if c] for x in triggers.BaseSystemUnmergeProtection._preserve_sequence]:
                if kind != "unmerge" and tuple(b) in pre and pre[tuple(b)]["k"] == "dir" and not os.path.isdir(sb.path(b)):
                    # open finding: the protection compares listed locations literally, so a listed directory that names the protected
                    # one through a symlinked path (/var/b/lib with /var/b -> ../usr) is removed
                    here = os.path.join(os.path.realpath(sb.path(b[:-1])), b[-1])
                    alias = [x["p"] for x in old if x["k"] == "dir" and list(x["p"]) != list(b) and x["p"]
                             and os.path.join(os.path.realpath(sb.path(list(x["p"][:-1]))), x["p"][-1]) == here]
                    oracle.append("protected base directory /%s (a directory before) was removed" % "/".join(b)
                                  + (ALIAS_MARK + " /%s, which is the same directory on the live root)" % "/".join(alias[0]) if alias else ""))
            if kind == "replace":
                # what the new package installed (as the kernel sees it at the entry's own path, right after the merge)
                # must be exactly the same after the unmerge of the old package
                oldlocs, newlocs = {tuple(x["p"]) for x in old}, {tuple(x["p"]) for x in new}
                for e_, before in zip(new, probes):
                    if any(tuple(e_["p"][:i]) in oldlocs - newlocs for i in range(1, len(e_["p"]))):
                        continue          # ill-formed image: a parent is owned by the old package only (it may legitimately go)
                    after = probe(sb, e_)
                    if after != before:
                        oracle.append("entry %r of the new package: %r right after the merge, %r after the unmerge of the old package"
                                      % (e_["p"], before[:2], after[:2]))
        return {"pre": pre, "mid": mid, "post": post, "ops": rec.ops, "exc": exc, "outside": rec.outside, "oracle": oracle,
                "nmid": locals().get("nmid"), "plan": locals().get("plan"), "restab": locals().get("restab"),
                "live": locals().get("live"), "hist_exc": [x for x in hist_exc if x is not None]}
    finally:
        os.umask(um)
        sb.cleanup()


CORPUS = [
    # uninstall with an offset (fixed: nothing was removed unless the path also existed under /)
    ("uninstall", [_d(["usr"]), _d(["usr", "share"]), _f(["usr", "share", "a"]), _d(["etc"]), _f(["etc", "conf"])],
     [_e(["usr"], "dir"), _e(["usr", "share"], "dir"), _e(["usr", "share", "a"], "reg"), _e(["etc"], "dir"), _e(["etc", "conf"], "reg")], None),
    # protected directories that become empty stay
    ("uninstall", [_d(["usr"]), _d(["usr", "lib"]), _f(["usr", "lib", "so"]), _d(["var"]), _d(["opt"]), _f(["opt", "x"])],
     [_e(["usr"], "dir"), _e(["usr", "lib"], "dir"), _e(["usr", "lib", "so"], "reg"), _e(["var"], "dir"), _e(["opt"], "dir"), _e(["opt", "x"], "reg")], None),
    # non-empty directory survives; a listed file that is now a directory; a listed directory that is now a file / a symlink to a directory
    ("uninstall", [_d(["opt"]), _f(["opt", "mine"]), _f(["opt", "foreign"]), _d(["a"]), _f(["d"]), _d(["t"]), _s(["l"], "t")],
     [_e(["opt"], "dir"), _e(["opt", "mine"], "reg"), _e(["a"], "reg"), _e(["d"], "dir"), _e(["l"], "dir"), _e(["gone"], "reg")], None),
    # a listed symlink is unlinked, its target (file / directory) stays
    ("uninstall", [_d(["t"]), _f(["t", "keep"]), _s(["l"], "t"), _f(["f"]), _s(["m"], "f")], [_e(["l"], "sym", target="t"), _e(["m"], "sym", target="f")], None),
    ("unmerge", [_d(["t"]), _f(["t", "keep"]), _s(["l"], "t")], [_e(["l"], "dir")], None),
    # unlink of a listed non-directory that is a directory on disk raises
    ("unmerge", [_d(["a"]), _f(["b"])], [_e(["b"], "reg"), _e(["a"], "reg")], None),
    # nested empty directories are all removed (children first)
    ("unmerge", [_d(["a"]), _d(["a", "b"]), _d(["a", "b", "c"]), _d(["a-b"]), _f(["a", "b", "c", "f"])],
     [_e(["a"], "dir"), _e(["a", "b", "c"], "dir"), _e(["a", "b"], "dir"), _e(["a-b"], "dir"), _e(["a", "b", "c", "f"], "reg")], None),
    # replace: shared entries stay, old-only entries go, base directories stay
    ("replace", [_d(["usr"]), _d(["usr", "share"]), _f(["usr", "share", "a"]), _f(["usr", "share", "b"]), _d(["etc"]), _f(["etc", "conf"])],
     [_e(["usr"], "dir"), _e(["usr", "share"], "dir"), _e(["usr", "share", "a"], "reg"), _e(["usr", "share", "b"], "reg"), _e(["etc"], "dir"), _e(["etc", "conf"], "reg")],
     [_e(["usr"], "dir"), _e(["usr", "share"], "dir"), _e(["usr", "share", "a"], "reg", data="4132"), _e(["usr", "share", "c"], "reg"), _e(["etc"], "dir"), _e(["etc", "conf"], "reg", data="63")]),
    # replace through a directory symlink (fixed: the file just installed as usr/lib/foo was unlinked as usr/lib64/foo)
    ("replace", [_d(["usr"]), _d(["usr", "lib64"]), _s(["usr", "lib"], "lib64"), _f(["usr", "lib64", "foo"], "6f6c64")],
     [_e(["usr"], "dir"), _e(["usr", "lib64"], "dir"), _e(["usr", "lib64", "foo"], "reg")],
     [_e(["usr"], "dir"), _e(["usr", "lib"], "dir"), _e(["usr", "lib", "foo"], "reg")]),
    ("replace", [_d(["usr"]), _d(["usr", "lib64"]), _s(["usr", "lib"], "lib64"), _f(["usr", "lib64", "foo"], "6f6c64")],
     [_e(["usr"], "dir"), _e(["usr", "lib"], "dir"), _e(["usr", "lib", "foo"], "reg")],
     [_e(["usr"], "dir"), _e(["usr", "lib64"], "dir"), _e(["usr", "lib64", "foo"], "reg")]),
    # a link to '.' : opt/lib/lib is the link opt/lib itself under another name
    ("replace", [_d(["opt"]), _s(["opt", "lib"], ".")],
     [_e(["opt"], "dir"), _e(["opt", "lib"], "dir"), _e(["opt", "lib", "lib"], "sym", target="x")],
     [_e(["opt"], "dir"), _e(["opt", "lib"], "dir"), _e(["opt", "lib", "f"], "reg")]),
]


_LIB1 = [_e(["usr"], "dir"), _e(["usr", "lib"], "dir"), _e(["usr", "lib", "liba.so"], "reg", data="6131"), _e(["usr", "lib", "libb.so"], "reg", data="6231")]
_LIB2 = [_e(["usr"], "dir"), _e(["usr", "lib"], "dir"), _e(["usr", "lib", "liba.so"], "reg", data="6132"), _e(["usr", "lib", "libb.so"], "reg", data="6232")]
CORPUS += [
    # one session: an upgrade while usr/lib is a real directory, then the lib -> lib64 migration, then the next upgrade, which
    # comes under usr/lib64 while the installed build is recorded under usr/lib
    ("replace", with_history([_d(["usr"]), _d(["usr", "lib"]), _f(["usr", "lib", "liba.so"], "6131"), _f(["usr", "lib", "libb.so"], "6231")],
                             [{"op": "replace", "old": _LIB1, "new": _LIB2}, {"op": "migrate", "dir": ["usr", "lib"], "to": ["usr", "lib64"]}]),
     _LIB2, _under([_e(["usr", "lib", "libc.so"], "reg", data="6333") if e["p"][-1] == "liba.so" else e for e in _LIB1], ["usr", "lib"], ["usr", "lib64"])),
    # ... and the other way round: installed through the link, the link dissolved, upgraded under the directory's only name
    ("replace", with_history([_d(["usr"]), _d(["usr", "lib64"]), _s(["usr", "lib"], "lib64"), _f(["usr", "lib64", "liba.so"], "6131"), _f(["usr", "lib64", "libb.so"], "6231")],
                             [{"op": "replace", "old": _under(_LIB1, ["usr", "lib"], ["usr", "lib64"]), "new": _LIB2},
                              {"op": "dissolve", "link": ["usr", "lib"], "dir": ["usr", "lib64"]}]),
     _LIB2, _LIB1),
]


def protected_paths():
    from pkgcore.merge import triggers
    return [[c for c in p.split("/") if c] for p in triggers.BaseSystemUnmergeProtection._preserve_sequence]


def neighbours(rng, kind, tree, old, new, offarg, how):
    """inputs next to a case on which model and code disagreed, the same operation with one circumstance changed at a time:
    the live root named through a symlink; the other engine (uninstall of the old package / replace by a build that keeps
    part of it); the package owning protected base directories that its removal leaves empty; the root pruned to what
    the package lists (so that every listed directory ends up empty and any wrongly removed one shows); unmerge called
    with/without its offset argument.  The property itself is evaluated on the real code for each."""
    out = []

    def add(tag, kind_, tree_, old_, new_, offarg_=offarg, how_=how):
        if old_:
            out.append((kind_, tree_, old_, new_, offarg_, how_, "near:" + tag))

    have = {tuple(n["p"]): n for n in tree}
    listed = {tuple(e["p"]) for e in old} | {tuple(e["p"]) for e in (new or [])}
    # protected base directories: on the root (empty if new), owned by the old package, not by the new one
    tree_b, old_b = list(tree), list(old)
    for b in protected_paths():
        if rng.random() < 0.6 and all(tuple(b[:i]) in have or any(tuple(n["p"]) == tuple(b[:i]) for n in tree_b) for i in range(1, len(b))) \
                and all(have.get(tuple(b[:i]), {"k": "dir"})["k"] == "dir" for i in range(1, len(b) + 1)):
            if tuple(b) not in have and not any(tuple(n["p"]) == tuple(b) for n in tree_b):
                tree_b.append(_d(b))
            if tuple(b) not in {tuple(e["p"]) for e in old_b}:
                old_b.append(_e(b, "dir"))
    # pruned: only what the package lists (plus the directories leading there) stays on the root
    keep = set()
    for q in listed:
        for i in range(1, len(q) + 1):
            keep.add(q[:i])
    tree_p = [n for n in tree if tuple(n["p"]) in keep and (n.get("link_to") is None or tuple(n["link_to"]) in keep)]
    tree_bp = [n for n in tree_b if tuple(n["p"]) in keep | {tuple(e["p"]) for e in old_b}
               and (n.get("link_to") is None or tuple(n["link_to"]) in keep)]
    kinds = [(kind, new)]
    if kind != "uninstall":
        kinds.append(("uninstall", None))
    if kind != "replace":
        nb = [dict(e) for e in old if e["k"] != "dir" and rng.random() < 0.4]
        nb = nb + [e for e in old if e["k"] == "dir" and any(x["p"][:len(e["p"])] == e["p"] for x in nb)]
        if nb:
            kinds.append(("replace", nb))
    for k_, n_ in kinds:
        for h_ in SPELLINGS:
            if (k_, h_) != (kind, how):
                add("%s/%s" % (k_, h_), k_, tree, old, n_, how_=h_)
            add("%s/%s/base" % (k_, h_), k_, tree_b, old_b, n_, how_=h_)
            add("%s/%s/base+pruned" % (k_, h_), k_, tree_bp, old_b, n_, how_=h_)
        add("%s/pruned" % k_, k_, tree_p, old, n_)
    add("unmerge/offarg", "unmerge", tree, old, None, offarg_=not offarg)
    return out


def process(ctx, cases, probe=False):
    """run the cases for real, ask the model, judge; probe=True: only the property itself is reported (inputs next to a
    model/implementation disagreement).  Returns the cases on which model and code disagreed."""
    disagreed = []
    results, reqs = [], []
    for kind, tree, old, new, offarg, how, origin in cases:
        r = run_real(kind, tree, old, new, offset_arg=offarg, how=how)
        ids = Ids()
        r["prej"] = fs_json(r["pre"], ids)
        r["npre"] = ids.n
        r["midj"] = fs_json(r["mid"], ids) if r["mid"] is not None else None
        r["postj"] = fs_json(r["post"], ids)
        oldj = [entry_json(e) for e in old]
        newj = [entry_json(e) for e in new] if new is not None else None
        r["first"] = len(reqs)
        if kind == "unmerge":
            reqs.append({"cmd": "c20.unmerge", "env": env_json(), "fs": r["prej"], "entries": oldj})
            reqs.append({"cmd": "c20.spec.unmerge", "fs": r["prej"], "entries": oldj, "final": r["postj"]})
        elif kind == "uninstall":
            reqs.append({"cmd": "c20.uninstall", "env": env_json(), "fs": r["prej"], "old": oldj})
            reqs.append({"cmd": "c20.spec.uninstall", "fs": r["prej"], "old": oldj, "final": r["postj"]})
        else:
            reqs.append({"cmd": "c20.replace", "env": env_json(), "fs": r["prej"], "old": oldj, "new": newj})
            reqs.append({"cmd": "c20.spec.replace", "mid": r["midj"] or r["prej"], "old": oldj, "new": newj, "final": r["postj"]})
        r["planreq"] = None
        if kind == "replace" and r["plan"] is not None and r["live"] is not None:
            r["planreq"] = len(reqs)
            reqs.append({"cmd": "c20.plan", "live": [entry_json(e) for e in r["live"]], "new": newj, "res": r["restab"]})
        results.append(r)
    replies = ctx.model(reqs)
    prot = {tuple(p) for p in protected_paths()}
    for (kind, tree, old, new, offarg, how, origin), r in zip(cases, results):
        m, sp = replies[r["first"]], replies[r["first"] + 1]
        case = {"kind": kind, "tree": list(tree), "old": old, "new": new, "offset_arg": offarg, "root_spelling": how, "origin": origin}
        if getattr(tree, "history", None):
            case["history"] = tree.history
            ctx.count("history_steps_%d" % len(tree.history))
            for st in tree.history:
                ctx.count("history_op_" + st["op"])
            if r["hist_exc"]:
                ctx.count("history_step_raised_" + classify_exc(r["hist_exc"][0]).split(":")[0])

        def mismatch(detail):
            disagreed.append((kind, tree, old, new, offarg, how, origin))
            if not probe:
                ctx.mismatch(case, detail)
        if m == "bad-op" or sp == "bad-op":
            mismatch("driver rejected the request")
            continue
        res = classify_exc(r["exc"])
        literal = not symlinked(r["pre"], old) and (new is None or not (symlinked(r["pre"], new, dirs_too=True)
                                                                        or c18.has_symlinked_ancestor(r["pre"], new)
                                                                        or (r["mid"] is not None and symlinked(r["mid"], old))))
        removed = [p for p in r["pre"] if p not in r["post"]]
        kept_listed = [e for e in old if tuple(e["p"]) in r["post"] and r["post"][tuple(e["p"])]["k"] == "dir"]
        ctx.case(case, res == "ok" and len(removed) >= 1 and len(kept_listed) >= 1,
                 key=repr((kind, how, r["prej"], [entry_json(e) for e in old], [entry_json(e) for e in (new or [])],
                           getattr(tree, "history", None))))
        ctx.count("kind_" + kind)
        ctx.count("root_spelling_" + how)
        ctx.count("origin_" + origin.split(":")[0])
        ctx.count("result_" + res.split(":")[0])
        ctx.count("literal" if literal else "symlinked_ancestor")
        ctx.count("removed_%d" % min(len(removed), 6))
        for e in old:
            live = r["pre"].get(tuple(e["p"]))
            ctx.count("listed_%s_live_%s" % (e["k"], live["k"] if live else "absent"))
            if tuple(e["p"]) in prot:
                ctx.count("listed_protected_dir")
                if kind != "unmerge" and live and live["k"] == "dir" and res == "ok" and not any(
                        q[:len(e["p"])] == tuple(e["p"]) and len(q) > len(e["p"]) for q in r["post"]):
                    ctx.count("listed_protected_dir_left_empty_" + how)
        for o in r["ops"]:
            if o[0] in ("unlink", "rmdir"):
                ctx.count("op_" + o[0] + ("" if o[-1] is None else "_" + str(o[-1])))
        if r["outside"]:
            ctx.violation(case, "touched paths outside the root: %r" % r["outside"][:3])
            continue
        # ---- edge A for the cset algebra, aliased roots included: what the engine is about to unmerge = removePlanOf with
        # the name resolution of the live root
        if r["planreq"] is not None:
            mp = replies[r["planreq"]]
            ctx.count("remove_cset_compared")
            if mp == "bad-op":
                mismatch("driver rejected the plan request")
            elif sorted(mp) != r["plan"]:
                extra = [p for p in r["plan"] if p not in mp]
                newlocs_ = [e["p"] for e in new]
                rt = {tuple(x[0]): x for x in r["restab"]}
                hit = [p for p in extra if any(rt[tuple(p)][1] in (rt[tuple(q)][1], rt[tuple(q)][2]) for q in newlocs_ if tuple(p) in rt)]
                if hit:
                    ctx.violation(case, "the replace is about to unmerge %s, which the new package installs (the same object under "
                                  "another name on the live root)" % hit[:3])
                else:
                    mismatch("remove cset of the engine %s, of the model %s" % (r["plan"], sorted(mp)))
        # ---- edge C (literal cases: the Lean specification; symlinked ones: the direct oracle, plain link topologies only)
        protected_gone = [o for o in r["oracle"] if o.startswith("protected base directory")]
        if literal or not c18.simple_links(r["pre"], old + (new or [])) or (r["mid"] is not None and not c18.simple_links(r["mid"], old + (new or []))):
            if r["oracle"] and not literal:
                ctx.count("symlinked_case_with_complex_links_not_claimed")
            r["oracle"] = protected_gone if literal else []
        if r["oracle"]:
            ctx.violation(case, "; ".join(r["oracle"][:3]),
                          finding=FINDING_ALIAS if all(ALIAS_MARK in o for o in r["oracle"]) else None)
        elif res == "ok" and literal and sp:
            # the merge half of a replace is C18's business; only claim the unmerge half when the merge is in C18's scope
            ctx.violation(case, "Lean spec clauses failing on the real snapshots: %s" % sp)
        # ---- edge A
        if literal:
            ctx.traces += 1
            if m["result"] != res:
                mismatch("real: %s, model: %s" % (res, m["result"]))
                continue
            rt, mt = model_trace(r["ops"]), m["trace"]
            if rt != mt:
                k = next((i for i, (a, b) in enumerate(zip(rt, mt)) if a != b), min(len(rt), len(mt)))
                mismatch("system-call traces differ at #%d: real %s, model %s" % (k, rt[k:k + 2], mt[k:k + 2]))
                continue
            real_fin, mod_fin = canon_fs(r["postj"], r["npre"]), canon_fs(m["fs"], r["npre"])
            if real_fin != mod_fin:
                mismatch("final snapshots differ: " + "; ".join(diff_fs(real_fin, mod_fin)))
            if res == "ok" and m["fail"] and kind != "replace":
                mismatch("model run violates the proved theorem?! %s" % m["fail"])
    return disagreed


def run(ctx):
    rng = ctx.rng
    cases = [c + ("corpus",) for c in CORPUS]
    # the corpus once more with the live root named through a symlink
    cases += [c + ("corpus-link",) for c in CORPUS if c[0] != "unmerge"]
    # ... and with the root's path spelled in a non-normalised way
    cases += [c + ("corpus-spelled",) for c in CORPUS if c[0] != "unmerge"]
    if ctx.replay_cases:
        cases = [(c["kind"], with_history(c["tree"], c["history"]) if c.get("history") else c["tree"], c["old"], c.get("new"),
                  ("replay", c.get("offset_arg"), c.get("root_spelling")))
                 for c in map(c18.redangle, ctx.replay_cases) if "kind" in c] + cases
    for _ in range(int(ctx.n(800, 12500) * SCALE)):
        g = rng.random()
        if g < 0.12:
            kind, tree, old, new = gen_history(rng)
            cases.append((kind, tree, old, new, "history"))
            continue
        g = (g - 0.12) / 0.88
        if g < 0.15:
            tree, old, new = gen_alias_replace(rng)
            cases.append(("replace", tree, old, new, "alias"))
            continue
        if g < 0.35:
            tree, old = gen_pruned(rng)
            kind = rng.choice(["unmerge", "unmerge", "uninstall"])
            cases.append((kind, tree, old, None, "pruned"))
            continue
        tree = gen_root(rng)
        kind = rng.choice(["unmerge", "uninstall", "uninstall", "replace", "replace"])
        if rng.random() < 0.5:
            # the usual situation: the old package is really installed (its entries exist with their types)
            old = gen_contents(rng, [])
            have = {tuple(nd["p"]) for nd in tree}
            havedirs = {tuple(nd["p"]) for nd in tree if nd["k"] == "dir"}
            for e in sorted(old, key=lambda e: len(e["p"])):
                if tuple(e["p"]) in have or any(tuple(e["p"][:i]) not in havedirs for i in range(1, len(e["p"]))):
                    continue
                if rng.random() < 0.85:
                    nd = {"p": e["p"], "uid": e["uid"], "gid": e["gid"], "mtime": 1000, "mode": e["mode"]}
                    nd.update({"dir": dict(k="dir"), "reg": dict(k="file", data=e.get("data", "")), "sym": dict(k="sym", target=e.get("target", "x")),
                               "fifo": dict(k="fifo")}[e["k"]])
                    tree.append(nd)
                    have.add(tuple(e["p"]))
                    if nd["k"] == "dir":
                        havedirs.add(tuple(e["p"]))
        else:
            old = gen_contents(rng, tree)
        new = gen_contents(rng, tree, other=old) if kind == "replace" else None
        cases.append((kind, tree, old, new, "random"))
    full = []
    for kind, tree, old, new, origin in cases:
        offarg = rng.random() < 0.5
        how = rng.choice(["plain", "plain", "plain", "link", "link-deep", "dslash", "dot", "trailing", "dotdot"])
        if origin == "corpus":
            how = "plain"
        elif origin == "corpus-link":
            how = "link"
        elif origin == "corpus-spelled":
            how = ("dslash", "dot", "trailing", "dotdot")[len(full) % 4]
        elif isinstance(origin, tuple):
            origin, oa, sp_ = origin
            offarg = offarg if oa is None else oa
            how = sp_ or how
        full.append((kind, tree, old, new, offarg, how, origin))
    disagreed = process(ctx, full)
    # ---- model and implementation disagree somewhere: is the property itself broken on that input or next to it?
    if disagreed and not ctx.violations:
        seen, near = set(), []
        for c in disagreed[:ctx.n(5, 15)]:
            for nb in neighbours(rng, *c[:6]):
                k = repr(nb[:6])
                if k not in seen:
                    seen.add(k)
                    near.append(nb)
        ctx.count("inputs_next_to_a_disagreement_evaluated", len(near))
        process(ctx, near, probe=True)


LEVEL_TEXT = ("Kernel-checked Lean 4 theorems about a model of unmerge_contents and of the uninstall/replace cset algebra over the abstract file "
              "system of C18: for every file system and contents set, a successful unmerge removes every listed non-directory, removes a listed "
              "directory only if it was an empty directory (and does remove it then), issues only unlink/rmdir on listed literal paths, leaves "
              "every unlisted path untouched; the engines never remove a directory of the (generated) protected list and never touch what the "
              "new package installed. Tied to the code by real unmerge_contents / MergeEngine.uninstall / MergeEngine.replace runs on scratch "
              "roots under os-level interposition.")
LEVEL_NOTE = ("Partial: literal paths in the model (symlinked ancestor directories are judged on the real code by a direct oracle); the engine "
              "plumbing is modelled at the level of the csets it produces. Two defects were fixed in the repository (uninstall with an offset "
              "removed nothing; replace removed files installed through a directory symlink).")
