"""C06 — boolean restriction trees evaluate as propositional logic; DNF / CNF agree with the tree."""
import itertools
import json

PID = "C06"
LEAN_MODULES = ["Pkgcore.Props.C06"]
OBLIGATIONS = [
    "Pkgcore.C06.match_eq_eval",
    "Pkgcore.C06.eval_connectives",
    "Pkgcore.C06.justOne_eval_nonempty",
    "Pkgcore.C06.dnf_equiv_partial",
    "Pkgcore.C06.dnf_equiv_counterexample",
    "Pkgcore.C06.dnf_negated_anyof",
    "Pkgcore.C06.dnf_equiv_nonempty",
    "Pkgcore.C06.dnf_complete_unguarded",
    "Pkgcore.C06.dnf_total",
    "Pkgcore.C06.cnf_equiv_partial",
    "Pkgcore.C06.cnf_equiv_counterexample",
    "Pkgcore.C06.cnf_equiv_nonempty",
    "Pkgcore.C06.cnf_refusal",
]
TRUSTED = [
    "leaves (PackageRestriction, value matchers, AlwaysBool, VersionMatch, the members of atom.restrictions) are opaque: "
    "the theorems quantify over every valuation of them; the run takes the valuation from the real leaf.match(pkg)",
    "atoms are modelled as un-negated all-of nodes over atom.restrictions, expanded only under full_solution_expansion "
    "(atom.iter_dnf_solutions / cnf_solutions); transitive-USE atoms are not generated",
    "force_True / force_False (the resolver's mutation protocol) are not part of the property and not modelled",
]
ASSUMPTIONS = [
    "an exactly-one-of node without operands is read as true (class docstring of JustOneRestriction: 'Exactly one must match, "
    "or there must be no restrictions'; PMS rule for emptied groups); for one or more operands it is 'exactly one' "
    "(theorem justOne_eval_nonempty)",
    "every member of `restrictions` has a boolean-valued match (Python truthiness is not modelled)",
]
RULE = ("restriction trees of depth <= 4 built from the real classes (AndRestriction, OrRestriction, JustOneRestriction, AtMostOneOfRestriction with "
        "and without negate, restriction.Negate, atoms, 0-4 operands per node incl. empty nodes) over category / package / version / slot / USE / "
        "AlwaysBool leaves and value-level trees over string matchers; every tree is evaluated against every package of a 24-package universe, "
        "or (truth-table mode) against all 2^k USE sets for k <= 4 USE leaves; match, dnf_solutions, iter_dnf_solutions, cnf_solutions, "
        "iter_cnf_solutions are taken with full_solution_expansion False and True.  non-trivial = at least 2 boolean nodes and 2 distinct leaves")
FINDING = "C06-empty-any-of"

KINDS = ["and", "or", "one", "amo"]


# ------------------------------------------------------------------ generators (descriptions are plain JSON)

def gen_tree(rng, depth, nleaves, p_empty=0.06, atoms=0, size=None, root=True):
    """description: {"t":"leaf","k":i} | {"t":"neg","r":D} | {"t":kind,"n":bool,"cs":[D..]} | {"t":"atomref","k":i}
    `size` bounds the number of leaf occurrences (normal forms are exponential in it)"""
    if size is None:
        size = rng.choice([2, 3, 4, 5, 6, 7, 8, 9, 10, 12, 14])
    r = rng.random()
    if root and r < 0.2:
        r = 0.2 + rng.random() * 0.8 if rng.random() < 0.9 else r
    if depth <= 0 or (size <= 1 and r < 0.85) or r < 0.12:
        if atoms and rng.random() < 0.25:
            return {"t": "atomref", "k": rng.randrange(atoms)}
        return {"t": "leaf", "k": rng.randrange(nleaves)}
    if r < 0.2:
        return {"t": "neg", "r": gen_tree(rng, depth - 1, nleaves, p_empty, atoms, size, False)}
    kind = rng.choice(["and", "and", "or", "or", "or", "one", "amo"])
    if rng.random() < p_empty:
        n = 0
    else:
        n = min(rng.choice([1, 2, 2, 2, 3, 3, 4]), max(size, 1))
    # split the size budget among the operands
    parts = [1] * n
    for _ in range(size - n if n else 0):
        parts[rng.randrange(n)] += 1
    return {"t": kind, "n": rng.random() < 0.35,
            "cs": [gen_tree(rng, depth - 1, nleaves, p_empty, atoms, parts[i], False) for i in range(n)]}


def nf_bound(d, atom_len=5):
    """upper bounds (dnf clauses, longest dnf clause, cnf clauses) of the normal forms pkgcore will build (full expansion),
    counting the work done before a NotImplementedError too; only used to keep generated trees away from the blow-up"""
    t = d["t"]
    if t in ("leaf", "neg", "one", "amo"):
        return 1, 1, 1
    if t == "atomref":
        return 1, atom_len, atom_len
    subs = [nf_bound(c, atom_len) for c in d["cs"]]
    if t == "and":
        cn = sum(c for _, _, c in subs)
        if d["n"]:
            return max(1, len(subs)), 1, cn
        n, ln = 1, 0
        for a, b, _ in subs:
            n, ln = n * a, ln + b
        return n, ln, cn
    if d["n"]:
        return 1, len(subs), 1
    n, ln, cn = 0, 1, 1
    for a, b, _ in subs:
        n, ln = n + a, max(ln, b)
        cn *= b ** a
    return max(n, 1), ln, cn


def gen_bounded(rng, depth, nleaves, atoms=0, limit=250):
    while True:
        d = gen_tree(rng, depth, nleaves, atoms=atoms)
        a, b, c = nf_bound(d)
        if a * b <= limit and c * b <= 4 * limit:
            return d


def L(k):
    return {"t": "leaf", "k": k}


def N(kind, *cs, n=False):
    return {"t": kind, "n": n, "cs": list(cs)}


CORPUS = [
    # the defect fixed in the repo: negated any-of, alone and nested (test-suite never expands it)
    N("or", L(0), L(1), n=True),
    N("and", N("or", L(0), L(1), n=True), L(2)),
    N("or", N("or", L(0), L(1), n=True), L(2)),
    N("or", N("and", L(0), N("or", L(1), L(2), n=True)), L(3)),
    N("and", N("or", L(0), n=True), N("or", L(1), L(2))),
    N("or", n=True),
    # negated all-of
    N("and", L(0), L(1), n=True),
    N("or", N("and", L(0), L(1), n=True), L(2)),
    N("and", N("and", L(0), N("or", L(1), L(2)), n=True), L(3)),
    # the open finding: operand-less any-of (and the negated operand-less all-of that expands through it)
    N("or"),
    N("and", n=True),
    N("and", N("or"), L(0)),
    N("or", N("or"), L(0)),
    N("or", N("and", n=True), L(0)),
    N("and", N("or"), N("or", L(0), L(1))),
    {"t": "neg", "r": N("or")},
    N("one", N("or")),
    # empty nodes that are fine
    N("and"),
    N("one"),
    N("amo"),
    N("one", n=True),
    N("or", N("and"), L(0)),
    N("and", N("and"), L(0)),
    N("or", N("and"), N("and", L(0), L(1))),
    # shapes of the test-suite, with meaning checked
    N("and", L(0), L(0), N("or", L(1), L(0))),
    N("or", L(0), L(0), N("and", L(1), L(0))),
    N("or", N("or", L(0), L(0), N("and", L(1), L(0)))),
    N("or", N("or", L(0), L(1)), L(0)),
    # cross product / peel-and-distribute
    N("and", N("or", L(0), L(1)), N("or", L(2), L(3))),
    N("or", N("and", L(0), L(1)), N("and", L(2), L(3))),
    N("or", N("and", L(0), L(1)), L(2), N("or", L(3), N("and", L(0), L(2)))),
    N("and", N("and", L(0), L(1)), N("or", L(2), L(3))),
    N("and", N("or", L(0), N("and", L(1), L(2))), N("or", L(3), L(0)), L(1)),
    N("or", N("and", N("or", L(0), L(1)), N("or", L(2), L(3))), L(0)),
    # exactly-one / at-most-one stay opaque in normal forms
    N("and", N("one", L(0), L(1)), L(2)),
    N("or", N("one", L(0), L(1)), L(2)),
    N("or", N("amo", L(0), L(1), L(2), n=True), N("and", L(2), L(3))),
    N("one", L(0), L(1), L(2)),
    N("one", L(0), L(0)),
    N("amo", L(0), L(1), L(2), n=True),
    N("one", N("and", L(0), L(1)), N("or", L(1), L(2)), L(3), n=True),
    # Negate wrappers
    {"t": "neg", "r": N("and", L(0), L(1))},
    N("and", {"t": "neg", "r": N("or", L(0), L(1))}, L(2)),
    N("or", {"t": "neg", "r": L(0)}, N("and", {"t": "neg", "r": L(1)}, L(2))),
    # refusals
    N("and", L(0), N("or", L(1), n=True)),
    N("and", N("and", N("and", L(0), n=True))),
    N("or", N("and", L(0), n=True), N("or", L(1), n=True)),
]
ATOM_CORPUS = [
    {"t": "atomref", "k": 0},
    N("and", {"t": "atomref", "k": 0}, {"t": "atomref", "k": 1}),
    N("or", {"t": "atomref", "k": 0}, {"t": "atomref", "k": 2}),
    N("or", {"t": "atomref", "k": 1}, N("and", {"t": "atomref", "k": 3}, L(0)), n=True),
    N("and", N("or", {"t": "atomref", "k": 0}, {"t": "atomref", "k": 4}), {"t": "atomref", "k": 5}),
    N("one", {"t": "atomref", "k": 0}, {"t": "atomref", "k": 2}),
]


def stats(d, acc, depth=1):
    t = d["t"]
    if t == "leaf":
        acc["leaves"].add(("l", d["k"]))
    elif t == "atomref":
        acc["leaves"].add(("a", d["k"]))
        acc["atoms"] += 1
    elif t == "neg":
        acc["negw"] += 1
        stats(d["r"], acc, depth)
    else:
        acc["nodes"] += 1
        acc["kinds"].append(t + ("!" if d["n"] else ""))
        if not d["cs"]:
            acc["empty"] += 1
        acc["depth"] = max(acc["depth"], depth)
        for c in d["cs"]:
            stats(c, acc, depth + 1)
    return acc


# ------------------------------------------------------------------ the check of one tree

class World:
    """leaf objects, universe and class table for one restriction type (package or values)"""

    def __init__(self, node_type, leaves, universe, atoms=(), label=""):
        self.node_type, self.leaves, self.universe, self.atoms, self.label = node_type, leaves, universe, list(atoms), label


def run(ctx):
    from pkgcore.restrictions import boolean, packages, values, restriction
    from pkgcore.ebuild import restricts
    from pkgcore.ebuild.atom import atom
    from pkgcore.test.misc import FakePkg

    rng = ctx.rng
    CLS = {"and": boolean.AndRestriction, "or": boolean.OrRestriction,
           "one": boolean.JustOneRestriction, "amo": boolean.AtMostOneOfRestriction}

    def build(d, w):
        t = d["t"]
        if t == "leaf":
            return w.leaves[d["k"] % len(w.leaves)]
        if t == "atomref":
            return w.atoms[d["k"] % len(w.atoms)]
        if t == "neg":
            return restriction.Negate(build(d["r"], w))
        return CLS[t](*[build(c, w) for c in d["cs"]], node_type=w.node_type, negate=d["n"])

    def canon(o, ids, order):
        """real object -> model tree (leaves numbered by identity in first-seen order)"""
        if isinstance(o, restriction.Negate):
            return {"t": "neg", "r": canon(o._restrict, ids, order)}
        if isinstance(o, atom):
            return {"t": "atom", "cs": [canon(c, ids, order) for c in o.restrictions]}
        for k, cls in CLS.items():
            if type(o) is cls:
                return {"t": k, "n": bool(o.negate), "cs": [canon(c, ids, order) for c in o.restrictions]}
        if id(o) not in ids:
            ids[id(o)] = len(order)
            order.append(o)
        return {"t": "leaf", "id": ids[id(o)]}

    def sol(f):
        try:
            return ("ok", [list(c) for c in f()])
        except NotImplementedError:
            return ("notimpl", None)
        except Exception as e:  # AssertionError, TypeError ...
            return ("raised " + type(e).__name__ + ": " + str(e)[:80], None)

    pending = []   # (case, real-side record) waiting for the model's answers

    def stage(d, w, mode):
        try:
            real = build(d, w)
        except Exception as e:
            ctx.violation({"desc": d, "world": w.label}, f"constructing the tree raised {type(e).__name__}: {e}")
            return
        ids, order = {}, []
        tree = canon(real, ids, order)
        # valuations: one row per member of the universe
        rows, impl_match = [], []
        for x in w.universe:
            rows.append([bool(l.match(x)) for l in order])
            impl_match.append(real.match(x))
        rec = {"tree": tree, "rows": rows, "impl_match": impl_match, "forms": {}}
        for full in (False, True):
            if not hasattr(real, "dnf_solutions"):
                break     # a bare leaf / Negate wrapper has no normal forms of its own; only match is checked
            f = {}
            f["dnf"] = sol(lambda: real.dnf_solutions(full))
            f["idnf"] = sol(lambda: real.iter_dnf_solutions(full))
            f["cnf"] = sol(lambda: real.cnf_solutions(full))
            f["icnf"] = sol(lambda: real.iter_cnf_solutions(full))
            ev = {}
            for key in ("dnf", "cnf"):
                st, cl = f[key]
                if st == "ok":
                    if key == "dnf":
                        ev[key] = [any(all(m.match(x) for m in c) for c in cl) for x in w.universe]
                    else:
                        ev[key] = [all(any(m.match(x) for m in c) for c in cl) for x in w.universe]
            f["ev"] = ev
            f["canon"] = {}
            for key in ("dnf", "idnf", "cnf", "icnf"):
                st, cl = f[key]
                if st == "ok":
                    ids2, order2 = dict(ids), list(order)
                    cj = [[canon(m, ids2, order2) for m in c] for c in cl]
                    f["canon"][key] = cj if len(order2) == len(order) else "foreign-member"
                else:
                    f["canon"][key] = st
            rec["forms"][full] = f
        case = {"desc": d, "world": w.label, "mode": mode, "tree": tree}
        pending.append((case, rec, w))

    def flush():
        reqs = []
        for case, rec, w in pending:
            for full in (False, True):
                reqs.append({"cmd": "c06.tree", "tree": rec["tree"], "full": full, "vals": rec["rows"]})
        reps = ctx.model(reqs)
        for i, (case, rec, w) in enumerate(pending):
            judge(case, rec, w, reps[2 * i], reps[2 * i + 1])
        pending.clear()

    def judge(case, rec, w, rep_f, rep_t):
        d = case["desc"]
        st = stats(d, {"leaves": set(), "nodes": 0, "kinds": [], "empty": 0, "depth": 0, "negw": 0, "atoms": 0})
        nontriv = st["nodes"] >= 2 and len(st["leaves"]) >= 2
        ctx.case(case, nontriv, key=w.label + json.dumps(d, sort_keys=True))
        ctx.count("world_" + w.label)
        ctx.count("depth_%d" % st["depth"])
        ctx.count("nodes_%d" % min(st["nodes"], 12))
        for k in st["kinds"]:
            ctx.count("node_" + k)
        ctx.count("negate_wrappers", st["negw"])
        ctx.count("atom_members", st["atoms"])
        if st["empty"]:
            ctx.count("trees_with_empty_node")
        for full, rep in ((False, rep_f), (True, rep_t)):
            if not isinstance(rep, dict):
                ctx.mismatch(case, f"driver answered {rep!r}")
                return
        impl = rec["impl_match"]
        if not all(isinstance(b, bool) for b in impl):
            ctx.note("match returned a non-bool")
        impl = [bool(b) for b in impl]
        ctx.count("match_true", sum(impl))
        ctx.count("match_false", len(impl) - sum(impl))
        if len(set(impl)) == 2:
            ctx.count("trees_not_constant_on_universe")
        # ---- edge C: match is propositional evaluation; edge A: model of match
        if impl != rep_f["eval"]:
            bad = [i for i, (a, b) in enumerate(zip(impl, rep_f["eval"])) if a != b][0]
            ctx.violation(case, f"match gives {impl[bad]} on universe member #{bad} ({describe(w.universe[bad])}) but the "
                                f"propositional formula over the leaves' own match results is {rep_f['eval'][bad]}")
        elif impl != rep_f["match"]:
            ctx.mismatch(case, "Lean model of match differs from the real match")
        for full, rep in ((False, rep_f), (True, rep_t)):
            if full not in rec["forms"]:
                ctx.count("root_without_normal_forms")
                break
            f = rec["forms"][full]
            tag = f"full_solution_expansion={full}"
            # ---------------- DNF
            for key, ikey, mkey, okkey, evkey, name in (("dnf", "idnf", "dnf", "okDnf", "dnfEval", "dnf_solutions"),
                                                       ("cnf", "icnf", "cnf", "okCnf", "cnfEval", "cnf_solutions")):
                status, _ = f[key]
                in_finding = not rep[okkey]
                if f["canon"][key] != f["canon"][ikey]:
                    ctx.violation(case, f"{name}({full}) and iter_{name}({full}) differ: {short(f['canon'][key])} vs {short(f['canon'][ikey])}")
                if status == "notimpl":
                    ctx.count(f"{key}_notimpl")
                    if key == "dnf":
                        ctx.violation(case, f"dnf_solutions raised NotImplementedError ({tag})")
                    elif rep["cnf"] != "notimpl":
                        ctx.mismatch(case, f"cnf_solutions refuses ({tag}) but the model yields a CNF")
                    elif not rep["refuses"]:
                        ctx.mismatch(case, "driver inconsistent: refuses flag")
                    continue
                if status != "ok":
                    ctx.violation(case, f"{name} {status} ({tag})")
                    continue
                ctx.count(f"{key}_clauses_%d" % min(len(f[key][1]), 9))
                if in_finding:
                    ctx.count(f"{key}_in_finding_class")
                # edge C: the normal form, evaluated with the members' real match, equals the tree's real match
                ev = f["ev"][key]
                if ev != impl:
                    bad = [i for i, (a, b) in enumerate(zip(ev, impl)) if a != b][0]
                    ctx.violation(case, f"{name}({full}) = {short(f['canon'][key])} evaluates to {ev[bad]} on universe member #{bad} "
                                        f"({describe(w.universe[bad])}) where the restriction itself matches {impl[bad]}",
                                  finding=FINDING if in_finding else None)
                # edge A: same clause lists as the model
                if rep[mkey] == "notimpl":
                    ctx.mismatch(case, f"{name}({full}) yields {short(f['canon'][key])} but the model refuses")
                elif f["canon"][key] != rep[mkey]:
                    if in_finding and ev == impl:
                        ctx.note("inside the finding class the real normal form differs from the model but is equivalent to the tree (accepted)")
                    else:
                        ctx.mismatch(case, f"{name}({full}) = {short(f['canon'][key])}, model = {short(rep[mkey])}")
                elif rep[evkey] is not None and ev != rep[evkey] and impl == rep["eval"]:
                    ctx.mismatch(case, f"evaluation of the {key} clause list differs between implementation and spec evaluator")

    def short(x):
        s = json.dumps(x, sort_keys=True) if not isinstance(x, str) else x
        s = s.replace('"t": ', "").replace('{"id": ', "L").replace(', "leaf"}', "")
        return s[:300]

    def describe(x):
        return getattr(x, "cpvstr", None) and f"{x.cpvstr} use={sorted(x.use)}" or repr(x)

    # ---------------------------------------------------------------- worlds
    P, V = packages.PackageRestriction, values
    universe = [FakePkg(f"{c}/{p}-{v}", slot=v, use=u)
                for c in ("app", "dev") for p in ("foo", "bar") for v in ("1", "2") for u in ((), ("x",), ("x", "y"))]
    value_tree = V.OrRestriction(V.StrExactMatch("app"), V.AndRestriction(V.StrGlobMatch("d"), V.StrRegex("v$"), negate=True))
    pkg_leaves = [
        P("category", V.StrExactMatch("app")),
        P("category", V.StrExactMatch("dev", negate=True)),
        P("category", V.StrExactMatch("dev"), negate=True),
        P("category", V.StrGlobMatch("a")),
        P("category", V.StrRegex("^d")),
        P("package", V.StrExactMatch("foo")),
        P("package", V.StrGlobMatch("ar", prefix=False)),
        P("package", V.StrRegex("o+$", negate=True)),
        P("fullver", V.StrExactMatch("1")),
        restricts.VersionMatch(">=", "2"),
        restricts.VersionMatch("<", "2", negate=True),
        restricts.VersionMatch("~", "1"),
        restricts.SlotDep("1"),
        P("use", V.ContainmentMatch("x")),
        P("use", V.ContainmentMatch("y", negate=True)),
        P("use", V.ContainmentMatch(("x", "y"), match_all=True)),
        P("use", V.ContainmentMatch("y"), negate=True),
        packages.AlwaysTrue,
        packages.AlwaysFalse,
        P("category", value_tree),
        restricts.CategoryDep("app"),
        restricts.PackageDep("bar"),
    ]
    atoms = [atom("app/foo"), atom("dev/bar"), atom(">=app/foo-2"), atom("=dev/bar-1*"), atom("app/foo[x]"), atom("~dev/foo-1:1"),
             atom("!app/bar[-y]"), atom("<dev/foo-2")]
    w_pkg = World("package", pkg_leaves, universe, atoms, "pkg")
    flags = ["a", "b", "c", "d"]
    tt_universe = [FakePkg("app/foo-1", use=[f for f, on in zip(flags, bits) if on]) for bits in itertools.product([False, True], repeat=4)]
    w_tt = World("package", [P("use", V.ContainmentMatch(f)) for f in flags], tt_universe, (), "truthtable")
    strings = ["app", "dev", "", "a", "dev-v", "App", "d", "apps", "xv", "v"]
    val_leaves = [V.StrExactMatch("app"), V.StrExactMatch("app", negate=True), V.StrExactMatch("app", case_sensitive=False),
                  V.StrGlobMatch("d"), V.StrGlobMatch("v", prefix=False), V.StrGlobMatch("a", negate=True),
                  V.StrRegex("^a"), V.StrRegex("p+", match=True), V.StrRegex("v$", negate=True),
                  V.ContainmentMatch("p"), V.ContainmentMatch(("a", "v")), V.AlwaysTrue, V.AlwaysFalse]
    w_val = World("values", val_leaves, strings, (), "values")

    # ---------------------------------------------------------------- cases
    if ctx.replay_cases:
        for c in ctx.replay_cases:
            if "desc" in c:
                stage(c["desc"], {"pkg": w_pkg, "truthtable": w_tt, "values": w_val}.get(c.get("world"), w_tt), "replay")
    for d in CORPUS:
        stage(d, w_tt, "corpus")
        stage(d, w_val, "corpus")
    # corpus on mixed leaves: shift leaf indices so different leaf kinds meet
    for shift in (0, 5, 9, 13, 17):
        for d in CORPUS:
            stage(shift_leaves(d, shift), w_pkg, "corpus")
    for d in ATOM_CORPUS:
        stage(d, w_pkg, "corpus")
    flush()
    n = ctx.n(2400, 30000)
    for i in range(n):
        depth = rng.choice([1, 2, 2, 3, 3, 3, 4, 4, 4])
        k = i % 4
        if k == 0:
            stage(gen_bounded(rng, depth, rng.choice([2, 3, 4, 4])), w_tt, "random")
        elif k == 1:
            stage(gen_bounded(rng, depth, len(val_leaves)), w_val, "random")
        else:
            stage(gen_bounded(rng, depth, len(pkg_leaves), atoms=len(atoms) if k == 3 else 0), w_pkg, "random")
        if len(pending) >= 400:
            flush()
    flush()
    if not ctx.quick():
        # bounded-exhaustive: every tree of depth <= 2 with <= 2 operands per node over 2 leaves, Negate wrappers on inner nodes
        leaves2 = [L(0), L(1)]
        inner = [N(k, *cs, n=neg) for k in KINDS for neg in (False, True)
                 for m in range(3) for cs in itertools.product(leaves2, repeat=m)]
        opts = leaves2 + inner + [{"t": "neg", "r": x} for x in inner]
        cnt = 0
        for k in KINDS:
            for neg in (False, True):
                for m in range(3):
                    for cs in itertools.product(opts, repeat=m):
                        stage(N(k, *cs, n=neg), w_tt, "exhaustive")
                        cnt += 1
                        if len(pending) >= 500:
                            flush()
        flush()
        ctx.extra["exhaustive_depth2_trees"] = cnt
    ctx.extra["universe_sizes"] = {"pkg": len(universe), "truthtable": len(tt_universe), "values": len(strings)}
    ctx.extra["finding_guard"] = "okDnf / okCnf (Spec/C06.lean): no operand-less any-of node in the expanded part of the tree"


def shift_leaves(d, shift):
    t = d["t"]
    if t == "leaf":
        return {"t": "leaf", "k": d["k"] + shift}
    if t == "neg":
        return {"t": "neg", "r": shift_leaves(d["r"], shift)}
    if t == "atomref":
        return d
    return {"t": t, "n": d["n"], "cs": [shift_leaves(c, shift) for c in d["cs"]]}


LEVEL_TEXT = ("Kernel-checked Lean 4 theorems about a model that mirrors boolean.py loop by loop: match of every tree of all-of / any-of / exactly-one-of / "
              "at-most-one-of nodes with negate, Negate wrappers and atoms equals propositional evaluation (match_eq_eval, unbounded depth and width); "
              "every DNF and CNF pkgcore derives is equivalent to the tree under every valuation (dnf_equiv_partial, cnf_equiv_partial) outside the open "
              "finding C06-empty-any-of, with counterexample theorems for the finding; the NotImplementedError refusals are characterised exactly "
              "(cnf_refusal); the assert in iter_dnf_solutions cannot fire (dnf_total).  The model is tied to the code by comparing match results and "
              "the literal clause lists of dnf_solutions / cnf_solutions / iter_* for generated trees, and the property itself is evaluated on the "
              "real code (normal forms evaluated with the members' real match against the tree's real match, exhaustive truth tables over <= 4 leaves).")
LEVEL_NOTE = ("Partial: equivalence of the normal forms is proved under the guard 'no operand-less any-of in the expanded part' (open finding, pinned by "
              "the test-suite); leaves are opaque; the empty exactly-one-of is read as true per its docstring.")
