"""C35 — the Python/daemon command protocol never deadlocks or desynchronises.

The theorems cover every interleaving of the two state machines of lean/Pkgcore/Model/C35.lean.  This check ties that
model to the code: real daemon sessions (is_responsive, batched asynchronous preload_eclasses, clear_preloaded_eclasses,
metadata regeneration with inherit requests and `key` notices, environment dumps, phases with IPC helper requests,
bashrc requests, logging, inline/file environment transfer, die, an unknown command, a failing environment transfer,
SIGTERM, shutdown — alone and in random sequences on one daemon) are recorded by wrapping the processor's two pipe
objects from outside; every line is abstracted to the model's message kinds and the resulting sequence of writes and
reads must be accepted by the model (`accept`, Python's projection of the global transition system).  On the real
code itself: every synchronous `expect` must see the text it waits for, no session may hang (watchdog), a session
ended by an unknown command / die / failed transfer must end with the documented error, and the daemon must answer
`alive` after every session that is supposed to leave it usable.

All daemons are spawned from a caller environment with a UTF-8 locale (rotating with the seed) and the repository lies below a
non-ASCII directory, so that byte and character counts of the size-prefixed requests differ.  A third stub tier serves
histories of `generic_handler` sessions with different additional commands on one processor object (`_handler_history`).
Before any daemon is started two stub tiers run the real processor code on in-memory pipes: every read context × every
form of the death notice (`_notice_matrix`), and batches of outstanding expectations answered positively/negatively at
every position through each entry point, followed by the next request's reply (`_batch_matrix`, model `consumeBatch`).
On the real daemon the profile bashrcs handed over vary in content (exit status of `source` 0/1/3, evaluated items), and
asynchronous preload batches contain an eclass the daemon rejects; per session the replies in flight at the end must equal
Python's outstanding expectations, and the lines written per bashrc item are compared with the model `sourceBashrcs`.
"""
import os
import shutil
import signal
import tempfile
import threading
import types

PID = "C35"
LEAN_MODULES = ["Pkgcore.Props.C35"]
OBLIGATIONS = [
    "Pkgcore.C35.invariant_holds",
    "Pkgcore.C35.no_mutual_wait",
    "Pkgcore.C35.no_wait_for_gone_daemon",
    "Pkgcore.C35.request_reply_matched",
    "Pkgcore.C35.unknown_command_kills_daemon",
    "Pkgcore.C35.unknown_line_ends_session",
    "Pkgcore.C35.death_notice_pending",
    "Pkgcore.C35.api_programs_wf",
    "Pkgcore.C35.answers_wf",
    "Pkgcore.C35.notice_forms_recognised",
    "Pkgcore.C35.batch_reads_own_replies",
    "Pkgcore.C35.bashrc_items_answered",
    "Pkgcore.C35.bashrc_paths_acknowledged",
    "Pkgcore.C35.session_calls_only_own_handlers",
    "Pkgcore.C35.unknown_in_session_ends_it",
    "Pkgcore.C35.session_independent_of_history",
]
TRUSTED = [
    "the two state machines are a hand-written abstraction at message level: reply kinds instead of texts, multi-line units "
    "written without an intervening read are one message, unbounded channels (a full pipe is not modelled), signal timing "
    "abstracted to an always enabled death step; tied to the code by validating recorded real sessions against the model",
    "the abstraction function from protocol lines to message kinds (this file, `abstract`)",
    "the start-up handshake (`ebd?`/`ebd!`, sandbox query, readonly list) happens before the pipes can be wrapped and is not "
    "modelled; the model starts in the main loop",
]
ASSUMPTIONS = [
    "clients use the processor through its API (well typed programs in the sense of `wf`: each command is sent when the daemon "
    "loop that understands it will read it); a command sent at the wrong time is covered by unknown_command_kills_daemon",
    "handlers answer a request with the answer kinds of that request (`wfTo`), as inherit_handler, IpcCommand, "
    "_request_bashrcs and sandbox_summary do",
]
RULE = ("every read context of the processor (synchronous expect, batched expects, generic_handler, inside a helper request) x "
        "every notice form (dying, dying <logfile>, logfile with blanks, SIGINT, SIGTERM) on stub pipes; batches of 1-5 outstanding "
        "expectations answered positively/negatively at every position, consumed by _consume_async_expects, a synchronous, a timed "
        "expect and generic_handler, each followed by the next request's reply (stub pipes); "
        "profile bashrcs with exit status 0/1/3 of `source` (false test as last command, `false`, `return 3`), evaluated "
        "(`transfer`) items, asynchronous preload batches containing an eclass that fails the daemon's syntax check; "
        "recorded sessions on real daemons: 16 scripted scenarios (each API call, each request kind, logging, file and inline "
        "transfer, die with and without build logging, die inside a profile bashrc while Python waits for `next`, die after an IPC "
        "exchange, unknown command, failed transfer, SIGTERM, shutdown) plus random sequences of 3-8 API calls on one "
        "daemon with random preload batches and phase modes; all daemons are spawned from a caller environment with a UTF-8 locale "
        "(LANG / LC_ALL / LC_CTYPE, NO_COLOR; rotating with the seed, POSIX included) and the repository lives below a directory "
        "with a non-ASCII name; histories of 2-5 generic_handler sessions with different additional commands on ONE processor "
        "object (stub pipes), the daemon sending commands of the current, of an earlier and of no session; non-trivial = the session contains an asynchronous batch, a "
        "request from the daemon or a death; distinct by abstract trace")
LEVEL_TEXT = ("Kernel-checked Lean 4 theorems over the global transition system of the two sides (any interleaving, any number of "
              "requests, any batch length, any well typed client program, death at any moment): an invariant holds in every "
              "reachable state; hence never are both sides blocked reading an empty channel (no_mutual_wait), Python never "
              "waits for a daemon that is gone without its notice pending, every line read is the reply to the oldest "
              "outstanding request / a request, notice or `phases` inside generic_handler / a command the daemon's current "
              "loop knows (request_reply_matched), and an unknown command or line can only be consumed by ending the session "
              "with an error. The programs of the real API are proved well typed. Real daemon sessions are recorded and "
              "validated as behaviours of the model on every run.")
LEVEL_NOTE = ("Trusted: Lean kernel, standard axioms; the model is a message-level abstraction validated against recorded daemon "
              "traffic, not derived from the bash/Python sources; pipe capacity and signal timing are abstracted.")


# ---------------------------------------------------------------- the caller's process environment

LOCALE_VARS = ("LANG", "LC_ALL", "LC_CTYPE", "LC_MESSAGES", "LC_COLLATE", "LANGUAGE", "NO_COLOR")


def caller_environments():
    """process environments pkgcore is started from (the daemon is spawned out of the caller's environment): a user's shell has
    a UTF-8 locale selected through LANG / LC_ALL / LC_CTYPE, maybe NO_COLOR and a message locale; POSIX is the test runner's"""
    import subprocess
    try:
        names = subprocess.run(["locale", "-a"], stdout=subprocess.PIPE, stderr=subprocess.DEVNULL, timeout=60).stdout.decode().split()
    except Exception:  # noqa
        names = []
    u = [n for n in names if n.lower().replace("-", "").endswith("utf8")]
    u = [n for n in u if n.lower().startswith("en_us")] + [n for n in u if not n.lower().startswith("en_us")]
    if not u:
        return [{}]
    a, b = u[0], u[-1]
    return [{"LC_ALL": a}, {"LANG": b}, {"LANG": a, "NO_COLOR": "1", "LC_MESSAGES": "C"}, {"LANG": "C", "LC_CTYPE": b}, {}]


def set_caller_environment(env):
    saved = {k: os.environ.get(k) for k in LOCALE_VARS}
    for k in LOCALE_VARS:
        os.environ.pop(k, None)
    os.environ.update(env)
    return saved


def daemon_ctype(pid):
    """the character-type locale a daemon process was started with (from its environment): None = C"""
    try:
        raw = open(f"/proc/{pid}/environ", "rb").read().split(b"\0")
    except OSError:
        return None
    env = dict(x.decode("latin-1").split("=", 1) for x in raw if b"=" in x)
    for k in ("LC_ALL", "LC_CTYPE", "LANG"):
        if env.get(k):
            return None if env[k] in ("C", "POSIX") else env[k]
    return None


# ---------------------------------------------------------------- recording

class WRec:
    def __init__(self, inner, log):
        self.inner, self.log = inner, log
        self.encoding, self.errors = inner.encoding, inner.errors

    def write(self, s):
        self.log.append(("w", s))
        return self.inner.write(s)

    def flush(self):
        return self.inner.flush()

    def close(self):
        return self.inner.close()


class RRec:
    def __init__(self, inner, log):
        self.inner, self.log = inner, log

    def readline(self):
        line = self.inner.readline()
        self.log.append(("r", line.decode("utf-8", "replace")))
        return line

    def read(self, n):
        data = self.inner.read(n)
        self.log.append(("raw", len(data)))
        return data

    def close(self):
        return self.inner.close()


class Watchdog:
    def __init__(self, ebp, seconds=90):
        self.fired = False
        self.t = threading.Timer(seconds, self._kill, [ebp])

    def _kill(self, ebp):
        self.fired = True
        try:
            os.killpg(ebp.pid, 9)
        except Exception:
            pass

    def __enter__(self):
        self.t.start()
        return self

    def __exit__(self, *a):
        self.t.cancel()


REPLIES = {"yep!": "yep", "preload_eclass succeeded": "preloadDone", "preload_eclass failed": "preloadDone",
           "clear_preloaded_eclasses succeeded": "clearDone", "metadata_path_received": "metaPathDone",
           "env_received": "envDone", "logging_ack": "loggingAck", "next": "next"}
COMMANDS = [("alive", "alive"), ("preload_eclass ", "preload"), ("clear_preloaded_eclasses", "clear"),
            ("set_metadata_path ", "setMetaPath"), ("gen_metadata ", "genMeta"), ("gen_ebuild_env ", "genMeta"),
            ("process_ebuild ", "processEbuild"), ("start_receiving_env ", "startEnv"), ("logging ", "logging"),
            ("set_sandbox_state ", "sandboxState"), ("start_processing", "startProcessing"), ("shutdown_daemon", "shutdown")]


ASKS = {"alive", "preload", "clear", "setMetaPath", "startEnv", "logging", "bashrcItem"}      # commands the daemon answers


def in_flight(tr):
    """replies the daemon owes / has written that Python has not read, from the abstract trace"""
    return sum(1 for k, m in tr if k == "w" and m in ASKS) - sum(1 for k, m in tr if k == "r" and m in REPLIES.values())


def abstract(log, helpers):
    """protocol lines as Python wrote/read them -> the model's observations"""
    out, i, pending = [], 0, None        # pending = the request being answered
    inherit_half = False
    while i < len(log):
        kind, text = log[i]
        i += 1
        if kind == "raw":
            continue
        if kind == "w":
            first = text.split("\n", 1)[0]
            if pending == "ipc":
                out.append(["w", "ipcReply"])
                pending = None
            elif pending == "inherit":
                if not inherit_half:
                    inherit_half = True       # "path" / "transfer"; the value follows in a second write
                else:
                    inherit_half = False
                    out.append(["w", "inheritReply"])
                    pending = None
            elif pending == "bashrcs" and first in ("path", "transfer"):
                out.append(["w", "bashrcItem"])
            elif pending == "bashrcs" and first == "end_request":
                out.append(["w", "endRequest"])
                pending = None
            elif pending == "summary":
                out.append(["w", "endSummary" if first == "end_sandbox_summary" else "summaryLine"])
                if first == "end_sandbox_summary":
                    pending = None
            else:
                for prefix, name in COMMANDS:
                    if first == prefix.strip() or first.startswith(prefix) and prefix.endswith(" "):
                        out.append(["w", name])
                        break
                else:
                    out.append(["w", "junk"])
            continue
        line = text.rstrip("\n")
        word = line.strip().split(" ", 1)[0]
        if text == "":
            out.append(["r", "death"])          # EOF: the daemon is gone
            break
        if line in REPLIES:
            out.append(["r", REPLIES[line]])
        elif word == "phases":
            out.append(["r", "phases"])
        elif word in ("key", "receive_env"):
            out.append(["r", "note"])
        elif word == "request_inherit":
            out.append(["r", "request.inherit"])
            pending = "inherit"
        elif word == "request_bashrcs":
            out.append(["r", "request.bashrcs"])
            pending = "bashrcs"
        elif word == "request_sandbox_summary":
            out.append(["r", "request.summary"])
            pending = "summary"
        elif word in helpers:
            out.append(["r", "request.ipc"])
            pending = "ipc"
            i += 5                              # nonfatal, cwd, phase, options, arguments: one message
        elif word in ("dying", "SIGINT", "SIGTERM", "env_receiving_failed"):
            out.append(["r", "death"])
            break                                # the notice ends the session
        else:
            out.append(["r", "junk"])
    return out


EBUILD = r'''
inherit foo
pkg_pretend() {
	case ${VT_MODE} in
		ipc) __ebd_ipc_cmd probe "" a "b c"; __ebd_ipc_cmd probe "" second ;;
		bashrc) PKGCORE_SUPPRESS_BASHRCS=false __source_bashrcs ;;
		both) __ebd_ipc_cmd probe "" x; PKGCORE_SUPPRESS_BASHRCS=false __source_bashrcs; __ebd_ipc_cmd probe "" y ;;
		die) die "boom" ;;
		ipcdie) __ebd_ipc_cmd probe "" first; die "after an ipc request" ;;
		sleep) sleep 30 ;;
	esac
	:
}
'''


# profile bashrcs as Python hands them over: (mode, content, exit status of `source`/`eval`) — all valid
BASHRC_POOL = [
    ("path", "VT_RC_A=1\n", 0),
    ("path", "vt_rc_func() { :; }\n[[ -n ${VT_UNSET_KNOB} ]] && export VT_KNOB=1\n", 1),      # the usual idiom, knob unset
    ("path", "VT_RC_B=2\nfalse\n", 1),
    ("path", "VT_RC_C=3\nreturn 3\n", 3),
    ("path", "# nothing but a comment\n", 0),
    ("path", "[[ ${EBUILD_PHASE} == nosuchphase ]] && VT_RC_D=4\n", 1),
    ("transfer", "VT_RC_T=1", 0),
    ("transfer", 'export VT_RC_U="a b"; :', 0),
]


class Bench:
    def __init__(self, ctx, scratch):
        from pkgcore.ebuild import ebd_ipc, processor
        from pkgcore.ebuild.atom import atom
        from pkgcore.pytest.plugin import EbuildRepo
        self.ctx, self.processor, self.scratch = ctx, processor, scratch
        self.caller_env = ctx.extra.get("caller_environment")
        self.envs_used = []
        # the repository lives below a directory with a non-ASCII name (a checkout in /home/josé/…): its paths travel in the
        # size-prefixed requests (set_metadata_path, the EBUILD/ECLASSDIR values of gen_metadata/gen_ebuild_env)
        self.repodir = os.path.join(scratch, "josé-日本", "repo")
        os.makedirs(os.path.dirname(self.repodir))
        self.repo = EbuildRepo(self.repodir)
        for n in ("foo", "bar", "baz"):
            with open(os.path.join(self.repodir, "eclass", n + ".eclass"), "w") as f:
                f.write(n + "_func() { :; }\n")
        self.repo.create_ebuild("cat/pkg-1", data=EBUILD, eapi="8")
        self.repo.sync()
        # looking the package up regenerates its metadata through a daemon (gen_metadata with the ebuild's path): a real session
        # like the recorded ones, so it is watched too
        self.setup_hung = None

        def kill_all():
            pids = [e.pid for e in list(processor.active_ebp_list) + list(processor.inactive_ebp_list) if e.pid]
            self.setup_hung = [daemon_ctype(pid) for pid in pids]
            for pid in pids:
                try:
                    os.killpg(pid, 9)
                except Exception:  # noqa
                    pass
        t = threading.Timer(120, kill_all)
        t.start()
        try:
            pkgs = list(self.repo.itermatch(atom("cat/pkg")))
        except Exception as e:  # noqa
            pkgs = []
            self.setup_error = f"{type(e).__name__}: {str(e)[:200]}"
        finally:
            t.cancel()
        self.pkg = pkgs[0] if pkgs else None
        if self.pkg is None:
            return
        self.T = os.path.join(scratch, "T")
        os.makedirs(self.T)

        class Probe(ebd_ipc.IpcCommand):
            def run(self, args):
                return None

        class Obs:
            def warn(self, m):
                pass
            info = error = warn

            def write(self, m, **k):
                pass

            def flush(self):
                pass
        op = types.SimpleNamespace(pkg=self.pkg, observer=Obs(), ED=scratch + "/img/", env={}, userpriv=False)
        self.handlers = {"probe": Probe(op), "request_bashrcs": self._bashrcs,
                         "request_inherit": lambda ebd, line=None: processor.inherit_handler(self.repo.eclass_cache, ebd, line)}
        self.nbashrcs = 1
        self.dying_bashrc = False
        with open(os.path.join(scratch, "dying.bashrc"), "w") as f:
            f.write('die "bashrc boom"\n')
        # profile bashrcs: (mode, file or text, exit status of source/eval); all of them valid
        self.bashrc_pool = []
        for i, (mode, text, status) in enumerate(BASHRC_POOL):
            if mode == "path":
                fn = os.path.join(scratch, f"profile{i}.bashrc")
                with open(fn, "w") as f:
                    f.write(text)
                self.bashrc_pool.append(("path", fn, status))
            else:
                self.bashrc_pool.append((mode, text, status))
        self.bashrc_plan = None          # None: the eclass files below, as before
        self.plans_used = []
        # an eclass the daemon's syntax check (`bash -n`) rejects: its preload is answered `preload_eclass failed`
        with open(os.path.join(scratch, "broken.eclass"), "w") as f:
            f.write("broken_func() { :; }\nif true; then\n")
        ec = self.repo.eclass_cache.eclasses
        self.mixed_cache = types.SimpleNamespace(eclasses=dict(
            {n: ec[n] for n in ("foo", "bar", "baz")}, broken=types.SimpleNamespace(path=os.path.join(scratch, "broken.eclass"))))

    def _bashrcs(self, ebd, a=None):
        if self.bashrc_plan is not None:
            items = list(self.bashrc_plan)
        else:
            # a profile bashrc that calls die: the notice arrives while Python waits for `next` (synchronous expect)
            items = [("path", f"{self.scratch}/dying.bashrc", "die")] if self.dying_bashrc else []
            items += [("path", f"{self.repodir}/eclass/{n}.eclass", 0) for n in ["bar", "baz"][:self.nbashrcs]]
        self.plans_used.append(items)
        for mode, what, status in items:
            ebd.write(f"{mode}\n{what}")
            if not ebd.expect("next"):
                raise RuntimeError("no next")
        ebd.write("end_request")

    # ---- API calls (each returns a truthy value when the call itself reports success)
    def op_responsive(self, ebp, rng):
        return ebp.is_responsive

    def op_preload_async(self, ebp, rng):
        names = [n for n in ("foo", "bar", "baz") if rng.random() < 0.7] or ["foo"]
        ebp._preloaded_eclasses.clear()
        return ebp.preload_eclasses(self.repo.eclass_cache, async_req=True, limited_to=names)

    def op_preload_sync(self, ebp, rng):
        ebp._preloaded_eclasses.clear()
        return ebp.preload_eclasses(self.repo.eclass_cache, async_req=False)

    def op_preload_mixed(self, ebp, rng):
        """an asynchronous batch in which one preload is answered negatively, consumed by the next synchronous call"""
        names = [n for n in ("foo", "bar", "baz") if rng.random() < 0.6]
        names.insert(rng.randint(0, len(names)), "broken")
        ebp._preloaded_eclasses.clear()
        ebp.preload_eclasses(self.mixed_cache, async_req=True, limited_to=names)
        ebp.is_responsive          # consumes the batch together with its own probe (False is truthful: one preload failed)
        ebp._preloaded_eclasses.clear()
        return True

    def op_clear(self, ebp, rng):
        return ebp.clear_preloaded_eclasses()

    def op_keys(self, ebp, rng):
        ebp._metadata_paths = None if rng.random() < 0.5 else ebp._metadata_paths
        return bool(ebp.get_keys(self.pkg, self.repo.eclass_cache))

    def op_envdump(self, ebp, rng):
        return bool(ebp.get_ebuild_environment(self.pkg, self.repo.eclass_cache))

    def phase(self, ebp, mode, logging=False, tmpdir=False, extra=None):
        e = self.processor.expected_ebuild_env(self.pkg, depends=True)
        e.update(VT_MODE=mode, PATH=os.environ.get("PATH", "/usr/bin:/bin"), T=self.T)
        if extra:
            e.update(extra)
        return ebp.run_phase("pretend", e, sandbox=False, additional_commands=self.handlers,
                             logging=os.path.join(self.T, "log") if logging else None, tmpdir=self.T if tmpdir else None)

    def op_phase(self, ebp, rng):
        self.nbashrcs = rng.choice([0, 1, 2])
        self.bashrc_plan = rng.choice([None, [rng.choice(self.bashrc_pool) for _ in range(rng.choice([0, 1, 2, 3]))]])
        try:
            return self._op_phase(ebp, rng)
        finally:
            self.bashrc_plan = None

    def _op_phase(self, ebp, rng):
        return self.phase(ebp, rng.choice(["none", "ipc", "bashrc", "both"]), logging=rng.random() < 0.4, tmpdir=rng.random() < 0.4)

    # ---- one recorded session
    def session(self, name, fn, expect_error=None, leaves_daemon=True, watchdog=90):
        """fn(ebp) runs API calls; returns (abstract trace, problems)"""
        processor = self.processor
        ebp = processor.request_ebuild_processor()
        ctype = daemon_ctype(ebp.pid)
        if ctype is not None:
            # the daemon was not started in the C locale: its `read -N` counts characters; a stuck session is then no matter of load
            watchdog = min(watchdog, 45)
        log, expects = [], []
        ebp.ebd_write, ebp.ebd_read = WRec(ebp.ebd_write, log), RRec(ebp.ebd_read, log)
        orig_expect = ebp.expect

        def expect(want, *a, **kw):
            n = len(log)
            batch = [w for _, w in ebp._outstanding_expects] + [want]
            r = orig_expect(want, *a, **kw)
            if not kw.get("async_req") and not (a and a[0]):
                expects.append((batch, r, n, len(log)))
            return r
        ebp.expect = expect
        problems, err = [], None
        self.plans_used = []
        outstanding_after = None
        try:
            with Watchdog(ebp, watchdog) as wd:
                try:
                    res = fn(ebp)
                    outstanding_after = len(ebp._outstanding_expects)
                    if expect_error is None and not res:
                        problems.append(f"the API call reported failure ({res!r})")
                except BaseException as e:  # noqa
                    err = e
                if wd.fired:
                    problems.append("the session did not finish: both sides waiting (daemon killed by the watchdog)"
                                    + (f" [the daemon was started with the character locale {ctype!r} taken from the caller's "
                                       f"environment {self.caller_env!r}: its `read -N` counts characters, Python announces bytes; last "
                                       f"write: {[t for k, t in log if k == 'w'][-1][:160]!r}]" if ctype is not None else ""))
        finally:
            ebp.expect = orig_expect
            ebp.ebd_write, ebp.ebd_read = ebp.ebd_write.inner, ebp.ebd_read.inner
        if expect_error is None and err is not None:
            problems.append(f"unexpected {type(err).__name__}: {str(err)[:120]}")
        if expect_error is not None and expect_error != "False":
            if err is None or type(err).__name__ != expect_error:
                problems.append(f"expected the session to end with {expect_error}, got {type(err).__name__ if err else 'no error'}")
        tr = abstract(log, set(self.handlers))
        if expect_error is None:
            # every request is matched with its own reply: a synchronous expect with k expectations outstanding reads k+1
            # lines, the i-th being a reply (positive or negative) to the i-th request, and reports whether all were positive
            for batch, r, n, n2 in expects:
                got = [t.rstrip("\n") for k, t in log[n:n2] if k == "r"]
                if len(got) < len(batch):
                    problems.append(f"expect({batch[-1]!r}) with {len(batch) - 1} expectations outstanding read only {got!r}: "
                                    f"{len(batch) - len(got)} replies of the batch were left in the pipe")
                    continue
                for want, line in zip(batch, got):
                    if line != want and (want not in REPLIES or REPLIES.get(line) != REPLIES[want]):
                        problems.append(f"the request expecting {want!r} was paired with the line {line!r} "
                                        f"(batch {batch!r} read {got!r})")
                        break
                else:
                    if bool(r) != (got[:len(batch)] == batch):
                        problems.append(f"expect for batch {batch!r} read {got!r} but returned {r!r}")
            if err is None and outstanding_after is not None and in_flight(tr) != outstanding_after:
                problems.append(f"at the end of the calls {in_flight(tr)} replies are in flight but Python has {outstanding_after} "
                                "outstanding expectations: the next request will be paired with an earlier request's reply")
        # the daemon afterwards
        try:
            if leaves_daemon and not problems:
                if not ebp.is_responsive:
                    problems.append("the daemon does not answer `alive` after the session")
            if leaves_daemon and not problems:
                processor.release_ebuild_processor(ebp)
            else:
                processor.drop_ebuild_processor(ebp)
                ebp.shutdown_processor(force=True)
        except BaseException as e:  # noqa
            problems.append(f"cleaning up raised {type(e).__name__}")
        self.envs_used.append(dict(self.caller_env or {}))
        return tr, problems, log, list(self.plans_used)


def run(ctx):
    from pkgcore.ebuild import processor
    scratch = tempfile.mkdtemp(prefix="c35-")
    old_term = signal.getsignal(signal.SIGTERM)
    envs = caller_environments()
    try:
        processor.shutdown_all_processors()          # daemons spawned earlier come from another environment
    except Exception:  # noqa
        pass
    saved_env = set_caller_environment(envs[ctx.seed % len(envs)])
    ctx.extra["caller_environment"] = envs[ctx.seed % len(envs)]
    ctx.extra["caller_environments_available"] = envs
    try:
        _run(ctx, scratch)
    finally:
        try:
            processor.shutdown_all_processors()
        except Exception:
            pass
        set_caller_environment({k: v for k, v in saved_env.items() if v is not None})
        signal.signal(signal.SIGTERM, old_term)
        shutil.rmtree(scratch, ignore_errors=True)


def _notice_matrix(ctx, scratch):
    """every read of the real processor code × every form of the death notice (stub pipes, no daemon): the notice must be
    recognised wherever it arrives — `dying`, `dying <logfile>` (any path), `SIGINT`, `SIGTERM`"""
    import io
    from pkgcore.ebuild import ebd_ipc, processor
    processor.shutdown_all_processors()          # chuck_KeyboardInterrupt shuts down every known processor: none may exist
    body = [" * ERROR: cat/pkg-1 failed (install phase):", " *   the message", " * "]
    os.makedirs(os.path.join(scratch, "my logs"), exist_ok=True)      # chuck_DyingInterrupt appends the message to the log file
    forms = [("dying", "dying \n"), ("dying-logfile", f"dying {scratch}/cat:pkg-1:20260922-101010.log\n"),
             ("dying-logfile-spaces", f"dying {scratch}/my logs/build log.txt\n"), ("dying-bare", "dying\n"),
             ("SIGINT", "SIGINT\n"), ("SIGTERM", "SIGTERM\n")]
    lines = ctx.model([{"cmd": "c35.notice", "line": text} for _, text in forms])
    for (fname, text), isn in zip(forms, lines):
        if isn is not True:
            ctx.mismatch({"form": fname}, "the model does not classify this notice form as a notice")

    class Probe(ebd_ipc.IpcCommand):
        def run(self, args):
            return None
    op = types.SimpleNamespace(pkg=types.SimpleNamespace(eapi=None), observer=None)

    def contexts(p):
        def sync_expect():
            return p.expect("next")

        def async_batch():
            p._outstanding_expects = [(False, "preload_eclass succeeded"), (False, "preload_eclass succeeded")]
            return p._consume_async_expects()

        def handler():
            return p.generic_handler(additional_commands={"probe": Probe(op)})

        def ipc_read():
            # the notice arrives instead of the second line of a helper request
            return p.generic_handler(additional_commands={"probe": Probe(op)})
        return [("sync-expect", sync_expect, b""), ("async-batch", async_batch, b"preload_eclass succeeded\n"),
                ("generic_handler", handler, b""), ("ipc-request", ipc_read, b"probe\nfalse\n")]

    for fname, text in forms:
        for cname, _, _ in contexts(None):
            p = processor.EbuildProcessor.__new__(processor.EbuildProcessor)
            p._readonly_vars, p._outstanding_expects, p.pid = frozenset(), [], None
            calls = []
            p.shutdown_processor = lambda *a, _c=calls, **kw: _c.append(kw.get("force", a[0] if a else False))
            cfun, prefix = next((f, pre) for n, f, pre in contexts(p) if n == cname)
            payload = text.encode()
            if fname.startswith("dying"):
                payload += "".join(l + "\n" for l in body).encode() + b"dead\n"
            p.ebd_read = io.BytesIO(prefix + payload + b"SENTINEL\n")
            p.ebd_write = open(os.path.join(scratch, "matrix-pipe"), "w")
            case = {"scenario": "notice-matrix", "context": cname, "form": fname, "line": text}
            try:
                res, err = cfun(), None
            except BaseException as e:  # noqa
                res, err = None, e
            finally:
                p.ebd_write.close()
            rest = p.ebd_read.read()
            ctx.case(case, True)
            ctx.count("matrix_" + cname)
            ctx.count("matrix_form_" + fname)
            if fname.startswith("dying"):
                if type(err).__name__ != "EbdError":
                    ctx.violation(case, f"a die notice {text!r} arriving in {cname} was not handled as a die: "
                                        f"{type(err).__name__ if err else 'returned ' + repr(res)}: {str(err)[:100]}")
                elif rest != b"SENTINEL\n":
                    ctx.violation(case, f"after the die notice the pipe holds {rest[:60]!r}: the message was not consumed up to `dead`")
                elif "the message" not in str(err.error):
                    ctx.violation(case, "the die message did not reach the EbdError")
                elif True not in calls:
                    ctx.violation(case, "the dying daemon was not shut down (force)")
            elif fname == "SIGINT":
                if not isinstance(err, KeyboardInterrupt):
                    ctx.violation(case, f"SIGINT notice in {cname}: {type(err).__name__ if err else 'returned ' + repr(res)}")
            else:
                if not calls:
                    ctx.violation(case, f"SIGTERM notice in {cname}: the processor was not shut down")


def _batch_matrix(ctx, scratch, rng):
    """batches of outstanding expectations on stub pipes: every reply of the batch — expected text or not — belongs to its
    request and must be read; afterwards the pipe is at the reply of the next request (model: consumeBatch, theorem
    batch_reads_own_replies)"""
    import io
    from pkgcore.ebuild import processor
    WANTS = ["preload_eclass succeeded", "preload_eclass succeeded", "yep!", "clear_preloaded_eclasses succeeded"]
    NEG = {"preload_eclass succeeded": "preload_eclass failed", "yep!": "nope", "clear_preloaded_eclasses succeeded":
           "clear_preloaded_eclasses failed"}
    plans = []
    for n in (1, 2, 3, 4):
        plans.append((["preload_eclass succeeded"] * n, [True] * n))
        for i in range(n):
            plans.append((["preload_eclass succeeded"] * n, [j != i for j in range(n)]))
    plans.append((["preload_eclass succeeded", "yep!"], [False, True]))
    plans.append((["preload_eclass succeeded", "preload_eclass succeeded", "yep!"], [True, False, True]))
    plans.append((["preload_eclass succeeded", "yep!", "clear_preloaded_eclasses succeeded"], [False, False, True]))
    for _ in range(ctx.n(25, 400)):
        n = rng.randint(1, 5)
        plans.append(([rng.choice(WANTS) for _ in range(n)], [rng.random() < 0.6 for _ in range(n)]))
    contexts = ["consume", "sync-expect", "timed-expect", "handler"]
    jobs = []
    for wants, pos in plans:
        for cname in contexts:
            replies = [w if ok else NEG[w] for w, ok in zip(wants, pos)]
            tail = ["phases succeeded", "SENTINEL"] if cname == "handler" else ["yep!", "SENTINEL"]
            jobs.append((cname, wants, pos, replies, tail))
    reps = ctx.model([{"cmd": "c35.consume", "expected": wants, "pipe": [l + "\n" for l in replies + tail]}
                      for _, wants, _, replies, tail in jobs])
    for (cname, wants, pos, replies, tail), m in zip(jobs, reps):
        p = processor.EbuildProcessor.__new__(processor.EbuildProcessor)
        p._readonly_vars, p.pid = frozenset(), None
        p.shutdown_processor = lambda *a, **kw: None
        p.ebd_read = io.BytesIO("".join(l + "\n" for l in replies + tail).encode())
        p.ebd_write = open(os.path.join(scratch, "matrix-pipe"), "w")
        case = {"scenario": "batch-matrix", "context": cname, "expected": wants, "replies": replies, "then": tail}
        try:
            try:
                if cname == "consume":
                    p._outstanding_expects = [(False, w) for w in wants]
                    res = p._consume_async_expects()
                elif cname in ("sync-expect", "timed-expect"):
                    p._outstanding_expects = [(False, w) for w in wants[:-1]]
                    res = p.expect(wants[-1], **({"timeout": 10} if cname == "timed-expect" else {}))
                else:
                    p._outstanding_expects = [(False, w) for w in wants]
                    try:
                        res = bool(p.generic_handler())
                    except processor.UnhandledCommand as e:
                        res = False if "alignment" in str(e) else e
                err = None
            except BaseException as e:  # noqa
                res, err = None, e
            armed = signal.getitimer(signal.ITIMER_REAL)[0]
            if armed:
                signal.setitimer(signal.ITIMER_REAL, 0)
                signal.signal(signal.SIGALRM, signal.SIG_DFL)
            pos_now = p.ebd_read.tell()
            rest = p.ebd_read.read().decode().split("\n")[:-1]
            ctx.case(case, not all(pos), key=repr((cname, wants, replies)))
            ctx.count("batch_" + cname)
            ctx.count("batch_size_%d" % len(wants))
            ctx.count("batch_negatives_%d" % pos.count(False))
            want_rest = tail if (cname != "handler" or not all(pos)) else ["SENTINEL"]
            if armed:
                ctx.violation(case, f"the expect has returned but the interval timer it armed is still running ({armed:.1f} s left): "
                                    "a TimeoutError will be raised inside whatever request is being served at that moment")
            elif err is not None:
                ctx.violation(case, f"a batch of replies without any notice raised {type(err).__name__}: {str(err)[:100]}")
            elif rest != want_rest:
                ctx.violation(case, f"{len(wants)} expectations were outstanding and answered with {replies!r}; afterwards the pipe holds "
                                    f"{rest!r} instead of {want_rest!r}: the next request would be paired with another request's reply")
            elif res is not (all(pos)):
                ctx.violation(case, f"replies {replies!r} for expectations {wants!r}: the result is {res!r}")
            elif m == "bad-op" or m[0] != "result" or m[1] != all(pos) or m[2] != [l + "\n" for l in tail]:
                ctx.mismatch(case, f"the model's consumeBatch gives {m!r}")
            elif cname != "handler":
                # the next request on the same pipe is answered by its own reply
                p.ebd_read.seek(pos_now)
                p._outstanding_expects = []
                if p.expect("yep!") is not True or p.ebd_read.read() != b"SENTINEL\n":
                    ctx.violation(case, "the request following the batch did not read its own reply")
        finally:
            p.ebd_write.close()


HANDLER_POOL = ["request_inherit", "key", "receive_env", "request_bashrcs", "probe", "has_version", "doins", "custom_cmd",
                "failed", "prob"]          # the last two are fixed commands a session may override
HISTORY_CORPUS = [
    # (additional commands of the session, words the daemon sends before `phases succeeded`)
    [(["request_inherit", "key"], ["request_inherit", "key"]), (["probe"], ["probe", "request_inherit"])],
    [(["request_inherit", "key"], ["key"]), ([], ["key"])],
    [(["request_inherit"], ["request_inherit"]), (None, ["request_inherit"])],
    [(["probe", "request_bashrcs"], ["probe"]), (["request_inherit"], ["request_inherit", "request_bashrcs"]), (["probe"], ["probe"])],
    [(["failed"], ["failed"]), (["probe"], ["probe", "failed"])],
    [(["probe"], ["probe"]), (["probe"], ["probe", "probe"]), (["key"], ["key", "probe"])],
    [(["custom_cmd"], ["bogus_command"]), (["key"], ["custom_cmd"]), (["key"], ["key"])],
]


def _handler_history(ctx, scratch, rng):
    """ONE processor object (as the pool hands it out again and again) serves a history of `generic_handler` sessions with
    different additional commands.  In every session each line must be dispatched to THIS session's handler for its command,
    and a command that is neither fixed nor among this session's additional commands must end the session with
    UnhandledCommand for that very line — whatever earlier sessions registered (theorems unknown_in_session_ends_it,
    session_calls_only_own_handlers; model `handlerSession`)."""
    import io
    from pkgcore.ebuild import processor
    histories = [[(None if e is None else list(e), list(w)) for e, w in h] for h in HISTORY_CORPUS]
    for _ in range(ctx.n(40, 600)):
        h = []
        for _ in range(rng.randint(2, 5)):
            extra = [n for n in HANDLER_POOL if rng.random() < 0.3]
            words = [rng.choice(extra) if extra and rng.random() < 0.6 else rng.choice(HANDLER_POOL + ["bogus_command"])
                     for _ in range(rng.randint(0, 4))]
            h.append((None if not extra and rng.random() < 0.5 else extra, words))
        histories.append(h)
    jobs = []
    for hi, h in enumerate(histories):
        p = processor.EbuildProcessor.__new__(processor.EbuildProcessor)
        p._readonly_vars, p._outstanding_expects, p.pid = frozenset(), [], None
        p.shutdown_processor = lambda *a, **kw: None
        for si, (extra, words) in enumerate(h):
            calls = []

            def mk(name, si=si, calls=calls):
                def handler(ebp, args=None):
                    calls.append([si, name, args])
                    ebp.write(f"answer {si} {name}")
                return handler
            lines = [f"{w} arg{si}.{k}" if k % 2 == 0 or w in ("failed", "prob") else w for k, w in enumerate(words)]
            lines.append("phases succeeded")
            p.ebd_read = io.BytesIO("".join(l + "\n" for l in lines + ["SENTINEL"]).encode())
            wpath = os.path.join(scratch, "history-pipe")
            p.ebd_write = open(wpath, "w")
            try:
                try:
                    res, err = p.generic_handler(additional_commands=None if extra is None else {n: mk(n) for n in extra}), None
                except BaseException as e:  # noqa
                    res, err = None, e
            finally:
                p.ebd_write.close()
            rest = p.ebd_read.read().decode().split("\n")[:-1]
            written = open(wpath).read().split("\n")[:-1]
            jobs.append((hi, si, h, extra, lines, list(calls), res, err, rest, written))
    reps = ctx.model([{"cmd": "c35.handler", "extra": j[3] or [], "lines": [l + "\n" for l in j[4]]} for j in jobs])
    for (hi, si, h, extra, lines, calls, res, err, rest, written), m in zip(jobs, reps):
        known = set(extra or [])
        earlier = sorted({n for e, _ in h[:si] for n in (e or [])} - known)
        case = {"scenario": "handler-history", "sessions_before_on_this_processor":
                [{"additional_commands": e, "daemon_sends": w} for e, w in h[:si]],
                "additional_commands": extra, "daemon_sends": lines}
        # the property on the real code: walk the lines with this session's commands only
        want_calls, want_end, want_rest = [], "finished", ["SENTINEL"]
        for k, l in enumerate(lines):
            w, _, a = l.partition(" ")
            if w in known:
                want_calls.append([si, w, a or None])
            elif w == "phases":
                break
            else:
                want_end, want_rest = ("unhandled", l), lines[k + 1:] + ["SENTINEL"]
                break
        stale = any(l.partition(" ")[0] in earlier for l in lines)
        ctx.case(case, stale or want_end != "finished", key=repr((h[:si + 1])))
        ctx.count("history_session_%d" % si)
        ctx.count("history_end_" + (want_end if isinstance(want_end, str) else "unhandled"))
        if stale:
            ctx.count("history_command_of_an_earlier_session_sent")
        got_end = "finished" if (err is None and res is True) else \
            ("unhandled", str(err.args[0]) if err.args else "") if type(err).__name__ == "UnhandledCommand" else \
            f"{type(err).__name__}: {str(err)[:80]}" if err is not None else f"returned {res!r}"
        if isinstance(want_end, tuple) and isinstance(got_end, tuple) and want_end[1].partition(" ")[0] in ("prob", "failed",
                                                                                                       "env_receiving_failed"):
            # the fixed failure reports raise UnhandledCommand with their argument text only
            got_end = ("unhandled", want_end[1]) if got_end[1] == want_end[1].partition(" ")[2] else got_end
        if calls != want_calls or got_end != want_end or rest != want_rest:
            foreign = [c for c in calls if c not in want_calls]
            ctx.violation(case, f"session {si} on a reused processor: the daemon sent {lines!r}, this session's additional commands "
                                f"are {extra!r} (earlier sessions also registered {earlier!r}); expected handler calls {want_calls!r} "
                                f"and end {want_end!r} with {want_rest!r} left unread, got calls {calls!r}"
                                f"{' (answered by handlers this session does not have: %r)' % foreign if foreign else ''}, end "
                                f"{got_end!r}, left {rest!r}, written back {written!r}")
            continue
        if written != [f"answer {si} {c[1]}" for c in want_calls]:
            ctx.violation(case, f"the replies written back {written!r} are not those of this session's handlers")
            continue
        m_end = m[1] if m != "bad-op" else None
        m_want = "finished" if want_end == "finished" else ["unhandled", want_end[1] + "\n"]
        if m == "bad-op" or m[0] != [c[1] for c in want_calls] or m_end != m_want:
            ctx.mismatch(case, f"the model's handlerSession gives {m!r}, the code calls {[c[1] for c in calls]} and ends {got_end!r}")
    ctx.extra["handler_histories"] = len(histories)


def _run(ctx, scratch):
    rng = ctx.rng
    _notice_matrix(ctx, scratch)
    _batch_matrix(ctx, scratch, rng)
    _handler_history(ctx, scratch, rng)
    # what the daemons print (die messages, syntax errors of the rejected eclass) goes to a scratch file, not to the check's stderr
    sys_err = os.dup(2)
    errlog = os.open(os.path.join(scratch, "daemon-stderr.log"), os.O_WRONLY | os.O_CREAT | os.O_APPEND, 0o600)
    os.dup2(errlog, 2)
    try:
        _daemon_sessions(ctx, scratch, rng)
    finally:
        os.dup2(sys_err, 2)
        os.close(sys_err)
        os.close(errlog)


def _daemon_sessions(ctx, scratch, rng):
    from pkgcore.ebuild import processor as _p
    _p.shutdown_all_processors()          # daemons started from here on inherit the redirected stderr
    bench = Bench(ctx, scratch)
    if bench.setup_hung is not None:
        case = {"scenario": "metadata regeneration of cat/pkg-1 (repo.itermatch -> get_keys -> gen_metadata)",
                "repository": bench.repodir, "caller_environment": bench.caller_env}
        ctx.case(case, True)
        ctx.violation(case, "the session did not finish within 120 s: Python waits for the daemon's reply, the daemon for more input "
                            f"(daemons killed by the watchdog; character locale they were started with: {bench.setup_hung!r}, C when "
                            "None; with a non-C locale the daemon's `read -N` counts characters while Python announces bytes, and the "
                            "request carries the non-ASCII repository path)")
        return
    if bench.pkg is None:
        ctx.broken.append("the one-ebuild repository does not yield its package")
        return
    P = bench.processor

    def two(f, g):
        return lambda ebp: (f(ebp, rng) and g(ebp, rng))

    def bad_env(ebp):
        saved = ebp._readonly_vars
        ebp._readonly_vars = frozenset()
        try:
            return bench.phase(ebp, "none", extra={"UID": "12345"})     # assigning a readonly variable fails in the daemon
        finally:
            ebp._readonly_vars = saved

    def dying_bashrc(ebp, logging):
        bench.dying_bashrc = True
        try:
            return bench.phase(ebp, "bashrc", logging=logging)
        finally:
            bench.dying_bashrc = False

    def sigterm(ebp):
        threading.Timer(1.5, lambda: os.kill(ebp.pid, signal.SIGTERM)).start()
        return bench.phase(ebp, "sleep")

    def shutdown(ebp):
        ebp.shutdown_processor()
        return ebp.pid is None

    def with_plan(plan, f):
        def g(ebp):
            bench.bashrc_plan = plan
            try:
                return f(ebp)
            finally:
                bench.bashrc_plan = None
        return g

    def negative_batch(ebp):
        # three asynchronous preloads, the middle one of an eclass the daemon rejects; the batch is consumed by the probe
        ebp._preloaded_eclasses.clear()
        ebp.preload_eclasses(bench.mixed_cache, async_req=True, limited_to=["foo", "broken", "bar"])
        ebp.is_responsive                  # False is truthful here (one preload failed)
        ebp._preloaded_eclasses.clear()
        return ebp.is_responsive and bench.op_keys(ebp, rng)

    pool = bench.bashrc_pool
    statuses_plan = [pool[0], pool[1], pool[2], pool[3], pool[6]]

    scenarios = [
        ("responsive", two(bench.op_responsive, bench.op_responsive), None, True),
        ("preload-async+clear", two(bench.op_preload_async, bench.op_clear), None, True),
        ("preload-async+keys", two(bench.op_preload_async, bench.op_keys), None, True),
        ("preload-sync", lambda e: bench.op_preload_sync(e, rng), None, True),
        ("keys+envdump", two(bench.op_keys, bench.op_envdump), None, True),
        ("phase-ipc", lambda e: bench.phase(e, "ipc"), None, True),
        ("preload-async-negative+keys", negative_batch, None, True),
        ("phase-bashrc-logging-file", lambda e: bench.phase(e, "both", logging=True, tmpdir=True), None, True),
        ("phase-bashrcs-nonzero-status", with_plan(statuses_plan, lambda e: bench.phase(e, "bashrc")), None, True),
        ("phase-bashrcs-all", with_plan(list(pool), lambda e: bench.phase(e, "both", logging=True)), None, True),
        ("die-in-bashrc-transfer", with_plan([pool[1], ("transfer", "VT_X=1; false", 1), pool[0]],
                                             lambda e: bench.phase(e, "bashrc")), "EbdError", False),
        ("die", lambda e: bench.phase(e, "die"), "EbdError", False),
        ("die-logging", lambda e: bench.phase(e, "die", logging=True), "EbdError", False),
        ("die-in-bashrc-logging", lambda e: dying_bashrc(e, True), "EbdError", False),
        ("die-in-bashrc", lambda e: dying_bashrc(e, False), "EbdError", False),
        ("die-after-ipc-logging-file", lambda e: bench.phase(e, "ipcdie", logging=True, tmpdir=True), "EbdError", False),
        ("unknown-command", lambda e: (e.write("bogus_command x"), e.is_responsive)[1], "EbdError", False),
        ("env-transfer-fails", bad_env, "False", False),
        ("shutdown", shutdown, None, False),
    ]
    if ctx.quick():
        # the stub matrix above covers every notice form in every read context; on the real daemon the quick tier keeps the
        # two extreme die scenarios (no log file / log file + synchronous expect) and leaves the rest to the thorough tier
        skip = {"die-logging", "die-in-bashrc", "die-after-ipc-logging-file", "preload-sync", "responsive",
                "phase-bashrcs-all", "die-in-bashrc-transfer"}
        scenarios = [sc for sc in scenarios if sc[0] not in skip]
    else:
        scenarios.append(("sigterm", sigterm, "any", False))
    sessions = []

    def hung():
        return any("did not finish" in p for s_ in sessions for p in s_[2])
    for name, fn, err, leaves in scenarios:
        if hung():
            ctx.note("a session hung (both sides waiting): the remaining daemon sessions were skipped")
            break
        sessions.append((name,) + bench.session(name, fn, expect_error=err if err != "any" else "False", leaves_daemon=leaves))
    ops = [bench.op_responsive, bench.op_preload_async, bench.op_preload_sync, bench.op_clear, bench.op_keys, bench.op_envdump,
           bench.op_phase, bench.op_phase, bench.op_preload_mixed]
    envs = caller_environments()
    for i in range(ctx.n(4, 80)):
        chosen = [rng.choice(ops) for _ in range(rng.randint(3, 8))]
        if hung():
            break
        if not ctx.quick() and i % 8 == 0:
            # thorough: the caller's environment changes every few sessions (fresh daemons)
            _p.shutdown_all_processors()
            bench.caller_env = envs[(ctx.seed + 1 + i // 8) % len(envs)]
            set_caller_environment(bench.caller_env)

        def seq(ebp, chosen=chosen):
            for f in chosen:
                if not f(ebp, rng):
                    return False
            return True
        sessions.append(("random:" + ",".join(f.__name__[3:] for f in chosen),) + bench.session("random", seq))

    # the harness' abstraction of notices must be the model's (first word of the line)
    lines_read = sorted({t for _, _, _, log, _ in sessions for k, t in log if k == "r" and t})
    for t, isn in zip(lines_read, ctx.model([{"cmd": "c35.notice", "line": t} for t in lines_read])):
        mine = t.strip().split(" ", 1)[0] in ("dying", "SIGINT", "SIGTERM")
        if isn != mine:
            ctx.mismatch({"line": t}, f"the model classifies this line as notice={isn}, the harness as {mine}")
    # bashrc requests: what the daemon wrote per item vs the model of __source_bashrcs
    bjobs = []
    for name, tr, problems, log, plans in sessions:
        starts = [i for i, (k, t) in enumerate(log) if k == "r" and t.strip() == "request_bashrcs"]
        for plan, st in zip(plans, starts):
            got = []
            for k, t in log[st + 1:]:
                if k == "w" and t.split("\n", 1)[0] == "end_request":
                    break
                if k == "r":
                    w = t.strip().split(" ", 1)[0]
                    if t == "":
                        got.append("eof")
                        break
                    if w in ("dying", "SIGINT", "SIGTERM"):
                        got.append("death")
                        break
                    got.append(w if w in ("next", "failed") else "junk:" + t.strip()[:40])
            bjobs.append((name, plan, got))
    bjobs = [j for j in bjobs if all(isinstance(st, int) for _, _, st in j[1])]       # a bashrc that dies is outside this model
    breps = ctx.model([{"cmd": "c35.bashrcs", "items": [[m, st] for m, _, st in plan]} for _, plan, _ in bjobs])
    for (name, plan, got), m in zip(bjobs, breps):
        case = {"scenario": name, "bashrcs": [[mo, (open(w).read() if mo == "path" else w), st] for mo, w, st in plan]}
        ctx.case(case, any(st for _, _, st in plan), key="bashrcs" + repr([(mo, st) for mo, _, st in plan]))
        ctx.count("bashrc_plan_len_%d" % len(plan))
        for mo, _, st in plan:
            ctx.count("bashrc_%s_status_%d" % (mo, st))
        if m == "bad-op":
            ctx.mismatch(case, "driver rejected the bashrc items")
        elif got != m:
            if got[-1:] == ["eof"] or (len(got) < len(m) and "death" not in got):
                ctx.violation(case, f"the daemon acknowledged only {got!r} of the bashrcs handed over (the model of __source_bashrcs "
                                    f"writes {m!r}): Python waits for `next`, the daemon for the next item")
            else:
                ctx.mismatch(case, f"the daemon answered the bashrc items with {got!r}, the model with {m!r}")
    reps = ctx.model([{"cmd": "c35.accept", "trace": tr} for _, tr, _, _, _ in sessions])
    for (name, tr, problems, log, _plans), rep, cenv in zip(sessions, reps, bench.envs_used):
        case = {"scenario": name, "trace": tr, "caller_environment": cenv, "repository": bench.repodir}
        ctx.count("caller_env_" + ("+".join(f"{k}={v}" for k, v in sorted(cenv.items())) or "POSIX"))
        kinds = {m for k, m in tr if k == "r"}
        nontrivial = bool(kinds & {"death", "request.ipc", "request.inherit", "request.bashrcs"}) or \
            any(tr[i][0] == "w" and tr[i + 1][0] == "w" and tr[i][1] == "preload" for i in range(len(tr) - 1))
        ctx.case(case, nontrivial, key=repr(tr))
        ctx.traces += 1
        ctx.evaluations += max(len(tr) - 1, 0)      # every observation is checked against the model
        ctx.count("scenario_" + name.split(":")[0])
        for k, m in tr:
            ctx.count(("wrote_" if k == "w" else "read_") + m)
        ctx.count("trace_len_%d0s" % (len(tr) // 10))
        for p in problems:
            ctx.violation(case, p)
        if rep == "bad-op":
            ctx.mismatch(case, "driver rejected the trace")
        elif not rep["ok"]:
            at = rep["prefix"]
            ctx.mismatch(case, f"the recorded session is not a behaviour of the model: rejected at observation {at}: "
                               f"{tr[max(0, at - 3):at + 2]!r}")
        dying_at = next((i for i, (k, t) in enumerate(log) if k == "r" and t.split(" ", 1)[0].strip() == "dying"), None)
        if dying_at is not None and not any(k == "r" and t.strip() == "dead" for k, t in log[dying_at:]):
            ctx.violation(case, f"a die notice {log[dying_at][1]!r} arrived but its message was not read up to `dead` "
                                f"(lines read afterwards: {[t for k, t in log[dying_at + 1:] if k == 'r'][:3]!r})")
        if any(m == "junk" for k, m in tr if k == "r"):
            ctx.mismatch(case, "a line read by Python could not be classified: " + repr([t for k, t in log if k == 'r'][:5]))
    ctx.extra["sessions"] = len(sessions)
