"""C07 — restrictions that compare equal are interchangeable (same match, same hash; keyed caches are sound)."""
import copy
import json
import re

PID = "C07"
LEAN_MODULES = ["Pkgcore.Props.C07"]
OBLIGATIONS = [
    "Pkgcore.C07.eq_implies_same_match",
    "Pkgcore.C07.eq_implies_same_hash",
    "Pkgcore.C07.repaired_equalities",
    "Pkgcore.C07.cache_lookup_sound",
    "Pkgcore.C07.cache_hit_complete",
    "Pkgcore.C07.caching_repo_sound",
    "Pkgcore.C07.builder_hash_history_independent",
    "Pkgcore.C07.instance_cache_transparent",
    "Pkgcore.C07.build_history_irrelevant",
    "Pkgcore.C07.atom_match_depends_only_on_canon",
    "Pkgcore.C07.atom_match_factors_through_canon",
    "Pkgcore.C07.equal_atoms_same_c04_match",
]
TRUSTED = [
    "CPython: hash of a tuple is a function of its members' hashes in order, hash of a frozenset a function of the set of members' hashes, "
    "hash of str/int/bool a function of the value; dict/lru_cache lookup = first key with equal hash that compares equal; set(a) == set(b) "
    "for members with lawful __eq__/__hash__ is mutual inclusion up to ==",
    "primitives left abstract in the model (every theorem holds for all of them): str.lower, re, user callables of FunctionRestriction, "
    "str(), iflatten_instance, match of identity-equality objects (AlwaysBool, Negate, AnyMatch, EqualityMatch)",
    "atom.__eq__ / _hash are the C02 model (atom.__cmp__(other) == 0, the canonical tuple with cpv.ver_hash_key); in the model's match, "
    "atom.match is an environment function of the atom's canonical form (category, package, operator, PMS value of version+revision, blocker kind, "
    "negate_vers, slot, sub-slot, slot operator, sorted USE deps, repository).  That the C04 model of atom.match (AndRestriction over "
    "atom.restrictions, incl. =* and the USE restrictions of _parse_nontransitive_use) is such a function is proved "
    "(atom_match_depends_only_on_canon, atom_match_factors_through_canon; valid versions, slot / sub-slot not the empty string, USE deps "
    "non-conditional as in C04); trusted: the C04 model itself (C04's own correspondence run) and the record conversion C03.toC04 "
    "(USE tokens lexed as _parse_nontransitive_use does; C03's subject).  Conditional USE deps (x?, x=) are outside C04's model: for them the "
    "function-of-canonical-form reading stays sampled (differently spelled equal atoms are matched on the real code)",
    "ver_cmp is taken from the C01 model; version strings are lexed into its structure by the harness",
    "snakeoil GenericEquality (compare getattr(x, attr, sentinel) over __attr_comparison__) and cached_hash as read in snakeoil 0.11",
    "snakeoil WeakInstMeta as read in snakeoil 0.11: cls(*a, **kw) is a dict lookup of (a, sorted kw) in the class's weak __inst_dict__ of alive "
    "instances; instances whose arguments compare equal are == (constructors are functions of their arguments).  The harness empties every "
    "restriction class's __inst_dict__ from outside to obtain the 'built alone' reference of a description",
]
ASSUMPTIONS = [
    "the revision handed to _VersionMatch is None or a cpv.Revision (as atoms and the documented API pass it), never a plain str",
    "the matched package's revision is a cpv.Revision object whenever its version is not None (true of every CPV)",
    "a _VersionMatch holds an operator set of _convert_str2op (it cannot be constructed otherwise)",
]
RULE = ("pairs of restrictions built independently through the public constructors with instance caching disabled: value matchers (StrExactMatch, "
        "StrGlobMatch, StrRegex, ContainmentMatch, _UseDepDefaultContainment, FlatteningRestriction, FunctionRestriction, StrConversion, "
        "_VersionMatch, AnyMatch, EqualityMatch, AlwaysBool, Negate), package restrictions (PackageRestriction, CategoryDep, PackageDep, SlotDep, "
        "SubSlotDep, RepositoryDep, VersionMatch, StaticUseDep, UseDepDefault, Conditional), boolean nodes of both types incl. KeyedAndRestriction, "
        "atoms and DepSets; the second member is a rebuilt copy, an equal-looking variant (negate moved between wrapper and value, converse operator "
        "under negate, ~ with/without negate, revision None/''/'0'/'00'/'1'/'01', reordered or duplicated USE / set members, ! vs !!, case "
        "variants, hashed vs unhashed, if_missing flipped, DepSet permuted/duplicated, key/tag/ignore_missing changed) or a one-field mutation, "
        "applied at a random depth; PackageRestrictionMulti over several attribute tuples; boolean nodes assembled step by step (finalize=False, "
        "add_restriction, finalize, with hash / dict / set / parent-node uses in between) against the same tree built in one go; sibling classes over the "
        "same arguments (ContainmentMatch <-> _UseDepDefaultContainment, StaticUseDep <-> UseDepDefault, also nested in boolean trees and multi-attribute "
        "restrictions); atoms built from their parts (operator, version, revision, blocker, slot, sub-slot, slot operator none/=/*, USE deps with "
        "sign and (+)/(-) default, repository) with variants differing in exactly one part or respelling it; families of 2-4 related descriptions "
        "built one after the other with instance caching ON and all kept alive, each compared with the same description built alone (all instance "
        "caches emptied) and pairwise with each other.  Each pair is compared with ==/!=/hash and matched against a universe of its domain (strings, string sets, "
        "(iuse, use) pairs, 40 packages).  non-trivial = the two objects are distinct and were built from different descriptions or hash states")


# ------------------------------------------------------------------ version lexing (into the C01 structure)

_suf = re.compile(r"^(alpha|beta|pre|rc|p)(\d*)$")


def lex_ver(s):
    parts = s.split("_")
    dotted = parts[0]
    letter = None
    if dotted and dotted[-1].isalpha():
        dotted, letter = dotted[:-1], dotted[-1]
    sufs = []
    for p in parts[1:]:
        m = _suf.match(p)
        sufs.append([m.group(1), m.group(2)])
    return {"comps": dotted.split("."), "letter": letter, "sufs": sufs}


# ------------------------------------------------------------------ descriptions

STRS = ["app", "dev", "a", "App", "x", "xy", "foo", "bar", "1", "0", ""]
FLAGS = ["x", "y", "z"]
VERS = ["1.0", "1.00", "1", "0.9", "2", "1.0_rc1", "1.0a"]
REVS = [None, "", "0", "00", "1", "01", "2"]
OPS = ["<", "<=", "=", ">=", ">", "~"]
STR_ATTRS = ["category", "package", "fullver", "slot", "subslot", "repo.repo_id", "nonexistent"]
SET_ATTRS = ["use", "iuse_stripped"]
ATOMS = ["=a/b-1.0*", "=a/b-1.00*", "=a/b-1-r1*", "=a/b-1-r01*", "~a/b-1.00", "=a/b-1.0_rc1", "=a/b-1.0_rc01", "a/b", "app/foo", "!a/b", "!!a/b", "a/b[x,y]", "a/b[y,x]", "a/b[x]", "a/b[-x,y]", "a/b[x(+)]", "a/b[x(-)]", "=a/b-1.0", "=a/b-1.00",
         "=a/b-1.0-r0", "~a/b-1.0", ">=a/b-1.0-r1", ">=a/b-1.0-r01", "<a/b-2", "=a/b-1*", "a/b:0", "a/b:0/0", "a/b:0=", "a/b:=", "a/b:*",
         "a/b::repo", "app/foo:1[x,-y]", "!!<app/foo-2:1", "!<app/foo-2:1"]
DEPSETS = ["a/b c/d", "c/d a/b", "a/b a/b c/d", "x? ( a/b ) c/d", "c/d x? ( a/b )", "|| ( a/b c/d )", "|| ( c/d a/b )", "a/b", "",
           "x? ( a/b c/d )", "x? ( c/d a/b )", "!x? ( a/b )", "a/b[x,y] c/d", "c/d a/b[y,x]", "!!a/b", "!a/b"]
REQUSE = ["x y", "y x", "x x y", "|| ( x y )", "|| ( y x )", "^^ ( x y )", "x? ( y )", "x? ( y ) z", "z x? ( y )", "?? ( x y z )", "!x? ( y z )"]


def g_str_leaf(rng, top=False):
    # StrConversion is not a restriction.base (no .type): it cannot be nested, only compared on its own
    k = rng.choice(["exact", "exact", "glob", "regex", "contain", "func", "always", "eqmatch"] + (["strconv", "strconv"] if top else []))
    if k == "exact":
        return {"k": k, "s": rng.choice(STRS), "cs": rng.random() < 0.7, "n": rng.random() < 0.3, "hf": rng.random() < 0.3}
    if k == "glob":
        return {"k": k, "s": rng.choice(STRS), "cs": rng.random() < 0.7, "p": rng.random() < 0.6, "n": rng.random() < 0.3, "hf": rng.random() < 0.3}
    if k == "regex":
        return {"k": k, "s": rng.choice(["^a", "p+", "o$", "[xy]", "^$", "A"]), "cs": rng.random() < 0.7, "m": rng.random() < 0.4,
                "n": rng.random() < 0.3, "hf": rng.random() < 0.3}
    if k == "contain":
        return g_contain(rng)
    if k == "func":
        return {"k": k, "f": rng.randrange(3), "n": rng.random() < 0.3}
    if k == "strconv":
        return {"k": k, "r": {"k": "exact", "s": rng.choice(STRS), "cs": True, "n": False, "hf": False}, "u": rng.random() < 0.3}
    if k == "always":
        return {"k": k, "t": "values", "b": rng.random() < 0.5}
    return {"k": "eqmatch", "data": rng.choice(STRS), "n": rng.random() < 0.3}


def g_contain(rng):
    vals = rng.sample(FLAGS, rng.choice([1, 1, 2, 3]))
    return {"k": "contain", "vals": vals, "single": len(vals) == 1 and rng.random() < 0.4, "all": rng.random() < 0.4, "n": rng.random() < 0.3}


def g_strs_leaf(rng):
    k = rng.choice(["contain", "contain", "contain", "flatten", "anymatch", "always"])
    if k == "contain":
        return g_contain(rng)
    if k == "flatten":
        return {"k": k, "d": rng.randrange(3), "r": g_contain(rng), "n": rng.random() < 0.3}
    if k == "anymatch":
        return {"k": k, "r": {"k": "exact", "s": rng.choice(FLAGS), "cs": True, "n": False, "hf": False}, "n": rng.random() < 0.3}
    return {"k": "always", "t": "values", "b": rng.random() < 0.5}


def g_usedef(rng):
    return {"k": "usedef", "m": rng.random() < 0.5, "vals": rng.sample(FLAGS, rng.choice([1, 1, 2])), "n": rng.random() < 0.4}


def g_pair_leaf(rng):
    """what may be handed an (iuse, use) pair: use-dep-default containments, but a plain containment or a constant is just as valid there"""
    r = rng.random()
    if r < 0.65:
        return g_usedef(rng)
    if r < 0.92:
        d = g_contain(rng)
        if rng.random() < 0.6:
            d["all"] = not d["n"]      # the shape a use-dep-default containment has
        return d
    return {"k": "always", "t": "values", "b": rng.random() < 0.5}


def g_value(rng, dom, depth):
    """value-type restriction over the domain `dom` ('str' | 'strs' | 'pair')"""
    if depth > 0 and rng.random() < 0.35:
        kind = rng.choice(["and", "or", "or", "one", "amo"])
        return {"k": "bool", "t": "values", "kind": kind, "n": rng.random() < 0.3,
                "cs": [g_value(rng, dom, depth - 1) for _ in range(rng.choice([0, 1, 2, 2, 3]))]}
    if depth > 0 and rng.random() < 0.08:
        return {"k": "negate", "r": g_value(rng, dom, depth - 1)}
    return g_str_leaf(rng) if dom == "str" else g_pair_leaf(rng) if dom == "pair" else g_strs_leaf(rng)


def g_ver(rng):
    return {"op": rng.choice(OPS), "ver": rng.choice(VERS), "rev": rng.choice(REVS), "n": rng.random() < 0.4}


def g_pkg(rng, depth):
    """package-type restriction"""
    r = rng.random()
    if depth > 0 and r < 0.3:
        kind = rng.choice(["and", "or", "or", "one", "amo", "keyed"])
        d = {"k": "bool", "t": "package", "kind": kind, "n": rng.random() < 0.3,
             "cs": [g_pkg(rng, depth - 1) for _ in range(rng.choice([0, 1, 2, 2, 3]))]}
        if kind == "keyed":
            d["key"], d["tag"] = rng.choice(["k1", "k2", None]), rng.choice([None, "t"])
        return d
    k = rng.choice(["pr", "pr", "pr", "prs", "prm", "prm", "dep", "vm", "vm", "staticuse", "usedefault", "cond", "atom", "atom", "negate", "always",
                    "depset"])
    if k == "prm":
        return g_prm(rng)
    if k == "pr":
        return {"k": "pr", "attr": rng.choice(STR_ATTRS), "r": g_value(rng, "str", depth), "n": rng.random() < 0.3, "im": rng.random() < 0.8}
    if k == "prs":
        return {"k": "pr", "attr": rng.choice(SET_ATTRS), "r": g_value(rng, "strs", depth), "n": rng.random() < 0.3, "im": True}
    if k == "dep":
        return {"k": "dep", "cls": rng.choice(["CategoryDep", "PackageDep", "SlotDep", "SubSlotDep", "RepositoryDep"]),
                "s": rng.choice(["app", "a", "foo", "b", "0", "1", "repo"]), "n": rng.random() < 0.3}
    if k == "vm":
        return dict(g_ver(rng), k="vm") if rng.random() < 0.8 else {"k": "vgm", "ver": rng.choice(VERS), "rev": rng.choice(REVS)}
    if k == "staticuse":
        return {"k": k, "false": rng.sample(FLAGS, rng.choice([0, 1, 2])), "true": rng.sample(FLAGS, rng.choice([0, 1, 2]))}
    if k == "usedefault":
        return {"k": k, "m": rng.random() < 0.5, "false": rng.sample(FLAGS, rng.choice([0, 1])), "true": rng.sample(FLAGS, rng.choice([0, 1, 2]))}
    if k == "cond":
        return {"k": k, "attr": "use", "r": dict(g_contain(rng), single=False), "n": rng.random() < 0.2,
                "payload": [g_pkg(rng, 0) for _ in range(rng.choice([0, 1, 2]))]}
    if k == "atom":
        return g_atom(rng)
    if k == "negate":
        return {"k": k, "r": g_pkg(rng, max(depth - 1, 0))}
    if k == "always":
        return {"k": k, "t": "package", "b": rng.random() < 0.5}
    return {"k": "depset", "s": rng.choice(DEPSETS)}


MULTI_ATTRS = [["iuse_stripped", "use"], ["iuse_effective", "use"], ["use", "iuse_stripped"], ["use", "use"], ["iuse_effective", "iuse_stripped"],
               ["iuse_stripped", "iuse_effective"]]


def g_prm(rng):
    """PackageRestrictionMulti over some attribute tuple (UseDepDefault is the one atoms build)"""
    return {"k": "prm", "attrs": rng.choice(MULTI_ATTRS), "n": rng.random() < 0.3, "r": g_value(rng, "pair", 1)}


# ---- atoms from their parts (rendered to text for the real parser), so that variants can differ in exactly one part
A_KEYS = [("a", "b"), ("a", "b"), ("a", "b"), ("app", "foo"), ("c", "d")]
A_OPS = ["", "", "", "=", "=", ">=", "<", "<=", ">", "~", "=*"]
A_REVS = ["", "", "0", "00", "1", "01", "2"]
A_REV_ALT = {"": ["0", "00"], "0": ["", "00"], "00": ["0", ""], "1": ["01"], "01": ["1"], "2": ["02"], "02": ["2"]}
A_VER_ALT = {"1.0": ["1.00"], "1.00": ["1.0"], "1": ["01"], "2": ["02"], "0.9": ["00.9"], "1.0_rc1": ["1.0_rc01", "1.00_rc1"], "1.0a": ["1.00a"]}
A_SLOTS = [None, "0", "1"]
A_SUBSLOTS = [None, "0", "2"]
A_REPOS = [None, "repo", "other"]


def g_use(rng):
    """static USE deps: [flag, '-' or '', '' | '(+)' | '(-)']"""
    if rng.random() < 0.45:
        return None
    dflt = rng.choice(["", "", "(+)", "(-)", None])       # None: mixed
    return [[f, rng.choice(["", "", "-"]), dflt if dflt is not None else rng.choice(["", "(+)", "(-)"])]
            for f in rng.sample(FLAGS, rng.choice([1, 2, 2, 3]))]


def g_atom_fields(rng):
    cat, pkg = rng.choice(A_KEYS)
    f = {"cat": cat, "pkg": pkg, "op": rng.choice(A_OPS), "ver": None, "rev": "", "block": rng.choice(["", "", "", "!", "!!"]),
         "slot": None, "subslot": None, "slotop": None, "use": g_use(rng), "repo": rng.choice(A_REPOS) if rng.random() < 0.25 else None}
    if f["op"]:
        f["ver"] = rng.choice(VERS)
        f["rev"] = "" if f["op"] == "~" else rng.choice(A_REVS)
    r = rng.random()
    if r < 0.3:
        f["slot"] = rng.choice(A_SLOTS[1:])
        f["subslot"] = rng.choice(A_SUBSLOTS)
        f["slotop"] = rng.choice([None, None, "="])
    elif r < 0.5:
        f["slotop"] = rng.choice(["=", "*"])
    return f


def atom_text(f):
    cpv = f"{f['cat']}/{f['pkg']}"
    if f["op"]:
        cpv += "-" + f["ver"] + ("-r" + f["rev"] if f["rev"] != "" else "")
    s = f["block"] + (("=" + cpv + "*") if f["op"] == "=*" else f["op"] + cpv)
    if f["slot"]:
        s += ":" + f["slot"] + ("/" + f["subslot"] if f["subslot"] else "") + ("=" if f["slotop"] == "=" else "")
    elif f["slotop"]:
        s += ":" + f["slotop"]
    if f["repo"]:
        s += "::" + f["repo"]
    if f["use"]:
        s += "[" + ",".join(sign + flag + dflt for flag, sign, dflt in f["use"]) + "]"
    return s


def g_atom(rng):
    if rng.random() < 0.35:
        return {"k": "atom", "s": rng.choice(ATOMS), "nv": rng.random() < 0.15}
    f = g_atom_fields(rng)
    return {"k": "atom", "f": f, "s": atom_text(f), "nv": rng.random() < 0.15 and bool(f["op"])}


def vary_atom_fields(rng, f):
    """the same atom with exactly one part respelled or changed; returns (fields, what)"""
    f = copy.deepcopy(f)
    opts = ["slotop", "slotop", "slot", "block", "repo", "use_drop"]
    if f["op"]:
        opts += ["ver_respell", "ver_respell", "rev", "rev", "op", "ver"]
    if f["slot"]:
        opts += ["subslot"]
    if f["use"]:
        opts += ["use_order", "use_order", "use_default", "use_default", "use_default", "use_sign", "use_dup"]
    c = rng.choice(opts)
    if c == "slotop":
        f["slotop"] = rng.choice([x for x in ([None, "="] if f["slot"] else [None, "=", "*"]) if x != f["slotop"]])
    elif c == "slot":
        f["slot"] = rng.choice([x for x in A_SLOTS if x != f["slot"]])
        if f["slot"] is None:
            f["subslot"] = None
        elif f["slotop"] == "*":
            f["slotop"] = None
    elif c == "subslot":
        f["subslot"] = rng.choice([x for x in A_SUBSLOTS if x != f["subslot"]])
    elif c == "block":
        f["block"] = rng.choice([x for x in ["", "!", "!!"] if x != f["block"]])
    elif c == "repo":
        f["repo"] = rng.choice([x for x in A_REPOS if x != f["repo"]])
    elif c == "use_drop":
        f["use"] = None if f["use"] else g_use(rng)
    elif c == "ver_respell":
        f["ver"] = rng.choice(A_VER_ALT.get(f["ver"], [f["ver"]]))
    elif c == "rev":
        if f["op"] != "~":
            f["rev"] = rng.choice(A_REV_ALT[f["rev"]]) if rng.random() < 0.7 else rng.choice(A_REVS)
    elif c == "op":
        f["op"] = rng.choice([o for o in A_OPS if o and o != f["op"]])
        if f["op"] == "~":
            f["rev"] = ""
    elif c == "ver":
        f["ver"] = rng.choice(VERS)
    elif c == "use_order":
        f["use"] = f["use"][::-1]
    elif c == "use_default":
        if rng.random() < 0.6:      # the same default (or none) on every flag
            d = rng.choice(["", "(+)", "(-)"])
            f["use"] = [[flag, sign, d] for flag, sign, _ in f["use"]]
        else:
            i = rng.randrange(len(f["use"]))
            f["use"][i][2] = rng.choice([x for x in ["", "(+)", "(-)"] if x != f["use"][i][2]])
    elif c == "use_sign":
        i = rng.randrange(len(f["use"]))
        f["use"][i][1] = "" if f["use"][i][1] else "-"
    elif c == "use_dup":
        f["use"] = f["use"] + f["use"][:1]
    return f, c


def g_top(rng):
    r = rng.random()
    if r < 0.04:
        return "str", g_str_leaf(rng, top=True)
    if r < 0.2:
        return "str", g_value(rng, "str", 2)
    if r < 0.3:
        return "strs", g_value(rng, "strs", 2)
    if r < 0.36:
        return "pair", g_value(rng, "pair", rng.choice([0, 0, 1, 2]))
    if r < 0.44:
        return "pkg", dict(g_ver(rng), k="ver")
    if r < 0.48:
        return "pkg", {"k": "verglob", "ver": rng.choice(VERS), "rev": rng.choice(REVS)}
    if r < 0.58:
        return "pkg", g_atom(rng)
    return "pkg", g_pkg(rng, 2)


CONVERSE = {"<": ">=", "<=": ">", ">": "<=", ">=": "<"}
REV_ALT = {None: ["", "0"], "": ["0", "00", None], "0": ["", "00", None], "00": ["0", ""], "1": ["01"], "01": ["1"], "2": ["02"], "02": ["2"]}


def paths(d, pre=(), pair=False):
    """all sub-descriptions with their path and whether the node is handed (iuse, use) pairs"""
    out = [(pre, d, pair)]
    for key in ("r",):
        if isinstance(d.get(key), dict):
            out += paths(d[key], pre + (key,), pair or d["k"] == "prm")
    for key in ("cs", "payload"):
        for i, c in enumerate(d.get(key, ()) if isinstance(d.get(key), list) else ()):
            out += paths(c, pre + (key, i), pair)
    return out


def variant(rng, d, dom=None):
    """an equal-looking (or nearly equal) variant of the description, changed at one random node"""
    d = copy.deepcopy(d)
    ps = paths(d, (), dom == "pair")
    path, node, pair_ctx = rng.choice(ps)
    k = node["k"]
    choice = rng.random()
    tag = "same"
    if choice < 0.15:
        pass
    elif "hf" in node and choice < 0.3:
        node["hf"] = not node["hf"]
        tag = "hash_state"
    elif k in ("ver", "vm"):
        c = rng.choice(["converse", "converse", "rev", "rev", "negate", "ver", "op"])
        tag = "ver_" + c
        if c == "converse" and node["op"] in CONVERSE:
            node["op"], node["n"] = CONVERSE[node["op"]], not node["n"]
        elif c == "rev":
            node["rev"] = rng.choice(REV_ALT[node["rev"]])
        elif c == "negate":
            node["n"] = not node["n"]
        elif c == "ver":
            node["ver"] = rng.choice(VERS)
        else:
            node["op"] = rng.choice(OPS)
    elif k in ("verglob", "vgm"):
        c = rng.choice(["rev", "rev", "ver"])
        tag = "verglob_" + c
        if c == "rev":
            node["rev"] = rng.choice(REV_ALT[node["rev"]])
        else:
            node["ver"] = rng.choice(VERS)
    elif k == "prm":
        c = rng.choice(["attrs", "attrs", "attrs", "n"])
        tag = "prm_" + c
        if c == "attrs":
            node["attrs"] = rng.choice([a for a in MULTI_ATTRS if a != node["attrs"]])
        else:
            node["n"] = not node["n"]
    elif k == "pr":
        c = rng.choice(["move_negate", "move_negate", "im", "attr", "n"])
        tag = "pr_" + c
        if c == "move_negate" and "n" in node["r"]:
            node["n"], node["r"]["n"] = not node["n"], not node["r"]["n"]
        elif c == "im":
            node["im"] = not node["im"]
        elif c == "attr":
            node["attr"] = rng.choice(STR_ATTRS)
        else:
            node["n"] = not node["n"]
    elif k == "contain" and pair_ctx and choice < 0.45:
        # the sibling class over the same flags (where a use-dep-default containment is a valid restriction)
        tag = "class_contain_usedef"
        vals, n = node["vals"], node["n"]
        node.clear()
        node.update({"k": "usedef", "m": rng.random() < 0.5, "vals": vals, "n": n})
    elif k == "contain":
        c = rng.choice(["reorder", "reorder", "dup", "single", "all", "n", "vals"])
        tag = "contain_" + c
        if c == "reorder":
            node["vals"] = node["vals"][::-1]
        elif c == "dup":
            node["vals"] = node["vals"] + node["vals"][:1]
            node["single"] = False
        elif c == "single":
            node["single"] = len(node["vals"]) == 1 and not node["single"]
        elif c == "all":
            node["all"] = not node["all"]
        elif c == "n":
            node["n"] = not node["n"]
        else:
            node["vals"] = rng.sample(FLAGS, rng.choice([1, 2]))
            node["single"] = False
    elif k in ("usedef", "usedefault", "staticuse") and choice < 0.45:
        # the sibling class built from the same flags: plain containment <-> use-dep-default containment
        tag = "class_" + k
        if k == "usedef":
            vals, n = node["vals"], node["n"]
            node.clear()
            node.update({"k": "contain", "vals": vals, "single": False, "all": not n, "n": n})
        elif k == "usedefault":
            node.pop("m")
            node["k"] = "staticuse"
        else:
            node["k"] = "usedefault"
            node["m"] = rng.random() < 0.5
    elif k in ("usedef", "usedefault"):
        c = rng.choice(["m", "m", "reorder", "n"])
        tag = "usedef_" + c
        if c == "m":
            node["m"] = not node["m"]
        elif c == "reorder":
            for key in ("vals", "true", "false"):
                if key in node:
                    node[key] = node[key][::-1]
        elif "n" in node:
            node["n"] = not node["n"]
    elif k in ("exact", "glob", "regex"):
        c = rng.choice(["case", "case", "n", "cs", "s"])
        tag = k + "_" + c
        if c == "case":
            node["s"] = node["s"].swapcase()
        elif c == "n":
            node["n"] = not node["n"]
        elif c == "cs":
            node["cs"] = not node["cs"]
        else:
            node["s"] = rng.choice(STRS)
    elif k == "atom" and "f" in node and choice < 0.85:
        node["f"], c = vary_atom_fields(rng, node["f"])
        node["s"] = atom_text(node["f"])
        tag = "atom1_" + c
    elif k == "atom":
        s = node["s"]
        node.pop("f", None)
        c = rng.choice(["use_order", "block", "other", "nv"])
        tag = "atom_" + c
        if c == "use_order" and "[" in s:
            head, use = s[:-1].split("[")
            node["s"] = head + "[" + ",".join(use.split(",")[::-1]) + "]"
        elif c == "block" and s.startswith("!"):
            node["s"] = s[1:] if s.startswith("!!") else "!" + s
        elif c == "nv":
            node["nv"] = not node["nv"]
        else:
            new = g_atom(rng)
            node.clear()
            node.update(new)
    elif k == "depset":
        toks = node["s"].split()
        c = rng.choice(["perm", "dup", "other"])
        tag = "depset_" + c
        if c == "perm" and "(" not in toks and len(toks) > 1:
            node["s"] = " ".join(toks[::-1])
        elif c == "dup" and "(" not in toks and toks:
            node["s"] = " ".join(toks + toks[:1])
        else:
            node["s"] = rng.choice(DEPSETS)
    elif k == "bool":
        c = rng.choice(["perm", "kind", "n", "key"])
        tag = "bool_" + c
        if c == "perm":
            node["cs"] = node["cs"][::-1]
        elif c == "kind":
            node["kind"] = rng.choice(["and", "or", "one", "amo"] + (["keyed"] if node["t"] == "package" else []))
            if node["kind"] == "keyed":
                node.setdefault("key", None), node.setdefault("tag", None)
        elif c == "n":
            node["n"] = not node["n"]
        elif c == "key" and node["kind"] == "keyed":
            node["key"] = rng.choice(["k1", "k2", "k3"])
    elif k == "dep":
        tag = "dep"
        if rng.random() < 0.5:
            node["n"] = not node["n"]
        else:
            node["cls"] = rng.choice(["CategoryDep", "PackageDep", "SlotDep", "SubSlotDep", "RepositoryDep"])
    elif k in ("func", "flatten", "eqmatch", "anymatch", "cond", "always", "strconv", "staticuse"):
        tag = k
        if "n" in node and rng.random() < 0.5:
            node["n"] = not node["n"]
        elif k == "func":
            node["f"] = rng.randrange(3)
        elif k == "flatten":
            node["d"] = rng.randrange(3)
        elif k == "strconv":
            node["u"] = not node["u"]
        elif k == "always":
            node["b"] = not node["b"]
        elif k == "staticuse":
            node["true"], node["false"] = node["true"][::-1], node["false"][::-1]
        elif k == "cond":
            node["payload"] = node["payload"][::-1]
    return d, tag


CORPUS = [
    # (domain, description a, description b) — every defect found, and the why_tests_cant cases
    ("pkg", {"k": "ver", "op": "~", "ver": "1.0", "rev": None, "n": True}, {"k": "ver", "op": "~", "ver": "1.0", "rev": None, "n": False}),
    ("pkg", {"k": "ver", "op": "<", "ver": "1.0", "rev": None, "n": True}, {"k": "ver", "op": ">=", "ver": "1.0", "rev": None, "n": False}),
    ("pkg", {"k": "ver", "op": "<=", "ver": "1.0", "rev": "1", "n": True}, {"k": "ver", "op": ">", "ver": "1.0", "rev": "01", "n": False}),
    ("pkg", {"k": "ver", "op": "=", "ver": "1.0", "rev": None, "n": False}, {"k": "ver", "op": "=", "ver": "1.0", "rev": "", "n": False}),
    ("pkg", {"k": "ver", "op": "=", "ver": "1.0", "rev": None, "n": False}, {"k": "ver", "op": "=", "ver": "1.0", "rev": "0", "n": False}),
    ("pkg", {"k": "ver", "op": "=", "ver": "1.0", "rev": "", "n": False}, {"k": "ver", "op": "=", "ver": "1.0", "rev": "00", "n": False}),
    ("pkg", {"k": "ver", "op": ">", "ver": "1.0", "rev": "1", "n": False}, {"k": "ver", "op": ">", "ver": "1.0", "rev": "01", "n": False}),
    ("pkg", {"k": "ver", "op": "=", "ver": "1.0", "rev": None, "n": True}, {"k": "ver", "op": "=", "ver": "1.00", "rev": None, "n": True}),
    ("pkg", {"k": "vm", "op": "<", "ver": "1.0", "rev": None, "n": True}, {"k": "vm", "op": ">=", "ver": "1.0", "rev": None, "n": False}),
    ("pkg", {"k": "vm", "op": "~", "ver": "1.0", "rev": None, "n": True}, {"k": "vm", "op": "~", "ver": "1.0", "rev": None, "n": False}),
    ("pkg", {"k": "verglob", "ver": "1.0", "rev": "1"}, {"k": "verglob", "ver": "1.0", "rev": "01"}),
    ("pkg", {"k": "verglob", "ver": "1.0", "rev": None}, {"k": "verglob", "ver": "1.0", "rev": ""}),
    ("pkg", {"k": "verglob", "ver": "1", "rev": ""}, {"k": "verglob", "ver": "1", "rev": "0"}),
    ("pkg", {"k": "verglob", "ver": "1.0", "rev": None}, {"k": "verglob", "ver": "1.00", "rev": None}),
    ("pkg", {"k": "vgm", "ver": "1.0", "rev": "1"}, {"k": "vgm", "ver": "1.0", "rev": "01"}),
    ("pkg", {"k": "verglob", "ver": "1.0_rc1", "rev": None}, {"k": "ver", "op": "=", "ver": "1.0_rc1", "rev": "", "n": True}),
    ("pkg", {"k": "verglob", "ver": "1.0", "rev": "1"}, {"k": "ver", "op": "~", "ver": "1.0", "rev": "1", "n": False}),
    ("pkg", {"k": "atom", "s": "=a/b-1.0", "nv": False}, {"k": "atom", "s": "=a/b-1.00", "nv": False}),
    ("pkg", {"k": "atom", "s": "=a/b-1*", "nv": False}, {"k": "atom", "s": "=a/b-1-r0*", "nv": False}),
    ("pkg", {"k": "atom", "s": "=a/b-1.0*", "nv": False}, {"k": "atom", "s": "=a/b-1.00*", "nv": False}),
    ("pkg", {"k": "atom", "s": "a/b:0", "nv": False}, {"k": "atom", "s": "a/b:0/0", "nv": False}),
    ("pkg", {"k": "atom", "s": "a/b:0=", "nv": False}, {"k": "atom", "s": "a/b:0", "nv": False}),
    ("pkg", {"k": "atom", "s": "~a/b-1.0", "nv": False}, {"k": "atom", "s": "~a/b-1.00", "nv": False}),
    ("str", {"k": "func", "f": 0, "n": False}, {"k": "func", "f": 0, "n": False}),
    ("strs", {"k": "flatten", "d": 0, "r": {"k": "contain", "vals": ["x"], "single": True, "all": False, "n": False}, "n": False},
     {"k": "flatten", "d": 0, "r": {"k": "contain", "vals": ["x"], "single": False, "all": False, "n": False}, "n": False}),
    ("str", {"k": "strconv", "r": {"k": "exact", "s": "1", "cs": True, "n": False, "hf": False}, "u": False},
     {"k": "strconv", "r": {"k": "exact", "s": "1", "cs": True, "n": False, "hf": False}, "u": True}),
    ("pair", {"k": "usedef", "m": True, "vals": ["x"], "n": False}, {"k": "usedef", "m": False, "vals": ["x"], "n": False}),
    ("pkg", {"k": "usedefault", "m": True, "false": [], "true": ["x"]}, {"k": "usedefault", "m": False, "false": [], "true": ["x"]}),
    ("pkg", {"k": "prm", "attrs": ["iuse_stripped", "use"], "n": False, "r": {"k": "usedef", "m": True, "vals": ["x"], "n": False}},
     {"k": "prm", "attrs": ["iuse_effective", "use"], "n": False, "r": {"k": "usedef", "m": True, "vals": ["x"], "n": False}}),
    ("pkg", {"k": "prm", "attrs": ["iuse_stripped", "use"], "n": False, "r": {"k": "usedef", "m": False, "vals": ["y"], "n": True}},
     {"k": "prm", "attrs": ["use", "iuse_stripped"], "n": False, "r": {"k": "usedef", "m": False, "vals": ["y"], "n": True}}),
    ("pkg", {"k": "prm", "attrs": ["iuse_stripped", "use"], "n": False, "r": {"k": "usedef", "m": True, "vals": ["x"], "n": False}},
     {"k": "usedefault", "m": True, "false": [], "true": ["x"]}),
    ("pkg", {"k": "prm", "attrs": ["use"], "n": False, "r": {"k": "usedef", "m": True, "vals": ["x"], "n": False}},
     {"k": "pr", "attr": "use", "r": {"k": "usedef", "m": True, "vals": ["x"], "n": False}, "n": False, "im": True}),
    ("pkg", {"k": "atom", "s": "!!a/b", "nv": False}, {"k": "atom", "s": "!a/b", "nv": False}),
    ("pkg", {"k": "atom", "s": "a/b[x,y]", "nv": False}, {"k": "atom", "s": "a/b[y,x]", "nv": False}),
    ("pkg", {"k": "atom", "s": "a/b[x(+)]", "nv": False}, {"k": "atom", "s": "a/b[x(-)]", "nv": False}),
    ("pkg", {"k": "atom", "s": "=a/b-1.0", "nv": False}, {"k": "atom", "s": "=a/b-1.0-r0", "nv": False}),
    ("pkg", {"k": "atom", "s": ">=a/b-1.0-r1", "nv": False}, {"k": "atom", "s": ">=a/b-1.0-r01", "nv": False}),
    ("pkg", {"k": "atom", "s": "<a/b-2", "nv": True}, {"k": "atom", "s": "<a/b-2", "nv": False}),
    ("pkg", {"k": "depset", "s": "a/b c/d"}, {"k": "depset", "s": "c/d a/b"}),
    ("pkg", {"k": "depset", "s": "a/b c/d"}, {"k": "depset", "s": "a/b a/b c/d"}),
    ("pkg", {"k": "depset", "s": "x? ( a/b ) c/d"}, {"k": "depset", "s": "c/d x? ( a/b )"}),
    ("pkg", {"k": "depset", "s": "a/b[x,y] c/d"}, {"k": "depset", "s": "c/d a/b[y,x]"}),
    ("str", {"k": "exact", "s": "x", "cs": True, "n": False, "hf": True}, {"k": "exact", "s": "x", "cs": True, "n": False, "hf": False}),
    ("str", {"k": "exact", "s": "X", "cs": False, "n": False, "hf": True}, {"k": "exact", "s": "x", "cs": False, "n": False, "hf": True}),
    ("str", {"k": "glob", "s": "A", "cs": False, "p": True, "n": True, "hf": False}, {"k": "glob", "s": "a", "cs": False, "p": True, "n": True, "hf": False}),
    ("strs", {"k": "contain", "vals": ["x", "y"], "single": False, "all": True, "n": False}, {"k": "contain", "vals": ["y", "x", "y"], "single": False, "all": True, "n": False}),
    ("pkg", {"k": "pr", "attr": "category", "r": {"k": "exact", "s": "app", "cs": True, "n": True, "hf": False}, "n": False, "im": True},
     {"k": "pr", "attr": "category", "r": {"k": "exact", "s": "app", "cs": True, "n": False, "hf": False}, "n": True, "im": True}),
    ("pkg", {"k": "pr", "attr": "category", "r": {"k": "exact", "s": "app", "cs": True, "n": False, "hf": False}, "n": False, "im": True},
     {"k": "pr", "attr": "category", "r": {"k": "exact", "s": "app", "cs": True, "n": False, "hf": False}, "n": False, "im": False}),
    ("pkg", {"k": "pr", "attr": "category", "r": {"k": "exact", "s": "a", "cs": True, "n": False, "hf": False}, "n": False, "im": True},
     {"k": "dep", "cls": "CategoryDep", "s": "a", "n": False}),
    ("pkg", {"k": "bool", "t": "package", "kind": "keyed", "n": False, "key": "k1", "tag": None, "cs": [{"k": "dep", "cls": "CategoryDep", "s": "a", "n": False}]},
     {"k": "bool", "t": "package", "kind": "keyed", "n": False, "key": "k2", "tag": "t", "cs": [{"k": "dep", "cls": "CategoryDep", "s": "a", "n": False}]}),
    ("pkg", {"k": "bool", "t": "package", "kind": "or", "n": False, "cs": [{"k": "vm", "op": "<", "ver": "1.0", "rev": None, "n": True}, {"k": "depset", "s": "a/b c/d"}]},
     {"k": "bool", "t": "package", "kind": "or", "n": False, "cs": [{"k": "vm", "op": "<", "ver": "1.0", "rev": None, "n": True}, {"k": "depset", "s": "c/d a/b"}]}),
    ("pkg", {"k": "cond", "attr": "use", "r": {"k": "contain", "vals": ["x"], "single": False, "all": False, "n": False}, "n": False,
             "payload": [{"k": "atom", "s": "a/b[x,y]", "nv": False}]},
     {"k": "cond", "attr": "use", "r": {"k": "contain", "vals": ["x"], "single": False, "all": False, "n": False}, "n": False,
      "payload": [{"k": "atom", "s": "a/b[y,x]", "nv": False}]}),
]


def _ud(m, vals, n):
    return {"k": "usedef", "m": m, "vals": vals, "n": n}


def _cm(vals, all_, n):
    return {"k": "contain", "vals": vals, "single": False, "all": all_, "n": n}


def _and(*cs):
    return {"k": "bool", "t": "values", "kind": "and", "n": False, "cs": list(cs)}


def _at(s):
    return {"k": "atom", "s": s, "nv": False}


CORPUS += [
    # sibling classes over the same flags: a use-dep-default containment is not the plain containment with the same shape and hash
    ("pair", _ud(False, ["x"], False), _cm(["x"], True, False)),
    ("pair", _ud(True, ["x", "y"], True), _cm(["x", "y"], False, True)),
    ("pair", _and(_ud(False, ["x"], True), _ud(False, ["y"], False)), _and(_cm(["x"], False, True), _cm(["y"], True, False))),
    ("pkg", {"k": "usedefault", "m": False, "false": ["x"], "true": ["y"]}, {"k": "staticuse", "false": ["x"], "true": ["y"]}),
    ("pkg", {"k": "prm", "attrs": ["iuse_stripped", "use"], "n": False, "r": _ud(True, ["y"], False)},
     {"k": "prm", "attrs": ["iuse_stripped", "use"], "n": False, "r": _cm(["y"], True, False)}),
    # one part of an atom written out, left implicit or changed: slot operator, sub-slot, USE defaults
    ("pkg", _at("a/b"), _at("a/b:*")), ("pkg", _at("a/b"), _at("a/b:=")), ("pkg", _at("a/b:*"), _at("a/b:=")),
    ("pkg", _at("a/b[x]"), _at("a/b:*[x]")), ("pkg", _at(">=a/b-1.0"), _at(">=a/b-1.0:*")), ("pkg", _at("!a/b"), _at("!a/b:*")),
    ("pkg", _at("a/b:0/0"), _at("a/b:0/0=")), ("pkg", _at("a/b:0/2"), _at("a/b:0")),
    ("pkg", _at("a/b[-x,y]"), _at("a/b[-x(-),y(-)]")), ("pkg", _at("a/b[x(+)]"), _at("a/b[x]")), ("pkg", _at("a/b[x(+),y(-)]"), _at("a/b[x(+),y(+)]")),
]

# descriptions built one after the other with instance caching on, all kept alive (both orders are run)
WARM_CORPUS = [
    ("pkg", [_at("a/b[-x,y]"), _at("a/b[-x(-),y(-)]")]),
    ("pkg", [_at("a/b[-x,y]"), _at("a/b[-x(+),y(+)]"), _at("a/b[y,-x]")]),
    ("pkg", [{"k": "staticuse", "false": ["x"], "true": ["y", "z"]}, {"k": "usedefault", "m": False, "false": ["x"], "true": ["y", "z"]},
             {"k": "usedefault", "m": True, "false": ["x"], "true": ["z", "y"]}]),
    ("pkg", [_at("=a/b-1.0"), _at("=a/b-1.00"), _at("=a/b-1.0-r0"), _at("~a/b-1.0")]),
    ("pkg", [_at("a/b:0"), _at("a/b:0="), _at("a/b:0/0"), _at("a/b")]),
    ("pkg", [{"k": "vm", "op": "<", "ver": "1.0", "rev": None, "n": True}, {"k": "vm", "op": ">=", "ver": "1.0", "rev": None, "n": False},
             {"k": "vm", "op": "~", "ver": "1.0", "rev": None, "n": True}, {"k": "vm", "op": "~", "ver": "1.0", "rev": None, "n": False}]),
    ("pair", [_and(_cm(["x"], False, True), _cm(["y"], True, False)), _and(_ud(False, ["x"], True), _ud(False, ["y"], False)),
              _and(_ud(True, ["x"], True), _ud(True, ["y"], False))]),
    ("strs", [_cm(["x", "y"], True, False), _cm(["y", "x"], True, False), _cm(["x", "y"], False, False)]),
]


def run(ctx):
    import re as _re
    from pkgcore.restrictions import boolean, packages, values, restriction
    from pkgcore.ebuild import restricts
    from pkgcore.ebuild.atom import atom
    from pkgcore.ebuild.cpv import Revision
    from pkgcore.ebuild import cpv as cpv_mod
    from pkgcore.ebuild.conditionals import DepSet
    from pkgcore.test.misc import FakePkg, FakeRepo
    from snakeoil import klass

    import time as _time
    t_run = _time.time()
    rng = ctx.rng
    K = {"disable_inst_caching": True}
    FUNCS = [lambda x: bool(x), lambda x: len(x) > 1, lambda x: "a" in x]
    DONT = [tuple, list, (tuple, list)]
    VCLS = {"and": boolean.AndRestriction, "or": boolean.OrRestriction, "one": boolean.JustOneRestriction,
            "amo": boolean.AtMostOneOfRestriction, "keyed": packages.KeyedAndRestriction}
    KIND_OF = {boolean.AndRestriction: "and", boolean.OrRestriction: "or", boolean.JustOneRestriction: "one",
               boolean.AtMostOneOfRestriction: "amo", packages.KeyedAndRestriction: "keyed"}
    PCLS = [packages.PackageRestriction, restricts.VersionMatch, restricts.SlotDep, restricts.SubSlotDep, restricts.CategoryDep,
            restricts.PackageDep, restricts.RepositoryDep, restricts.StaticUseDep, packages.PackageRestrictionMulti, restricts.UseDepDefault,
            values.GetAttrRestriction, restricts.VersionGlobMatch]
    ident = {}      # identity table for opaque things (functions, types, identity-equality objects)
    keep = []

    def oid(o):
        if id(o) not in ident:
            ident[id(o)] = len(ident)
            keep.append(o)
        return ident[id(o)]

    def mkrev(r):
        return None if r is None else Revision(r)

    def build(d, K=K):
        k = d["k"]
        if k == "exact":
            o = values.StrExactMatch(d["s"], case_sensitive=d["cs"], negate=d["n"], **K)
        elif k == "glob":
            o = values.StrGlobMatch(d["s"], case_sensitive=d["cs"], prefix=d["p"], negate=d["n"], **K)
        elif k == "regex":
            o = values.StrRegex(d["s"], case_sensitive=d["cs"], match=d["m"], negate=d["n"], **K)
        elif k == "contain":
            o = values.ContainmentMatch(d["vals"][0] if d["single"] else tuple(d["vals"]), match_all=d["all"], negate=d["n"], **K)
        elif k == "usedef":
            o = restricts._UseDepDefaultContainment(d["m"], tuple(d["vals"]), negate=d["n"])
        elif k == "flatten":
            o = values.FlatteningRestriction(DONT[d["d"]], build(d["r"], K), negate=d["n"], **K)
        elif k == "func":
            o = values.FunctionRestriction(FUNCS[d["f"]], negate=d["n"], **K)
        elif k == "strconv":
            o = (values.UnicodeConversion if d["u"] else values.StrConversion)(build(d["r"], K))
        elif k == "ver":
            o = restricts._VersionMatch(d["op"], d["ver"], mkrev(d["rev"]), negate=d["n"], **K)
        elif k == "vm":
            o = restricts.VersionMatch(d["op"], d["ver"], mkrev(d["rev"]), negate=d["n"], **K)
        elif k == "verglob":
            o = restricts._VersionGlobMatch(d["ver"], mkrev(d["rev"]), **K)
        elif k == "vgm":
            o = restricts.VersionGlobMatch(d["ver"], mkrev(d["rev"]), **K)
        elif k == "always":
            o = restriction.AlwaysBool(d["t"], d["b"], **K)
        elif k == "eqmatch":
            o = values.EqualityMatch(d["data"], negate=d["n"], **K)
        elif k == "anymatch":
            o = values.AnyMatch(build(d["r"], K), negate=d["n"], **K)
        elif k == "negate":
            o = restriction.Negate(build(d["r"], K))
        elif k == "pr":
            o = packages.PackageRestriction(d["attr"], build(d["r"], K), negate=d["n"], ignore_missing=d["im"], **K)
        elif k == "prm":
            o = packages.PackageRestrictionMulti(tuple(d["attrs"]), build(d["r"], K), negate=d["n"], **K)
        elif k == "dep":
            o = getattr(restricts, d["cls"])(d["s"], negate=d["n"], **K)
        elif k == "staticuse":
            o = restricts.StaticUseDep(tuple(d["false"]), tuple(d["true"]), **K)
        elif k == "usedefault":
            o = restricts.UseDepDefault(d["m"], tuple(d["false"]), tuple(d["true"]), **K)
        elif k == "cond":
            o = packages.Conditional(d["attr"], build(d["r"], K), tuple(build(c, K) for c in d["payload"]), negate=d["n"], **K)
        elif k == "bool":
            kw = dict(K, negate=d["n"])
            if d["kind"] == "keyed":
                kw.update(key=d.get("key"), tag=d.get("tag"))
            else:
                kw["node_type"] = d["t"]
            o = VCLS[d["kind"]](*[build(c, K) for c in d["cs"]], **kw)
        elif k == "atom":
            o = atom(d["s"], negate_vers=d["nv"], **K)
        elif k == "depset":
            o = DepSet.parse(d["s"], atom)
        else:
            raise ValueError(k)
        if d.get("hf"):
            hash(o)
        return o

    def to_model(o):
        """real object -> model description, by introspection only"""
        t = type(o)
        if t is values.StrExactMatch:
            return {"c": "exact", "s": o.exact, "cs": bool(o.case_sensitive), "n": bool(o.negate), "h": getattr(o, "_hash", None) is not None}
        if t is values.StrGlobMatch:
            return {"c": "glob", "s": o.glob, "p": bool(o.prefix), "n": bool(o.negate), "i": o.flags == _re.IGNORECASE,
                    "h": getattr(o, "_hash", None) is not None}
        if t is values.StrRegex:
            return {"c": "regex", "s": o.regex, "n": bool(o.negate), "i": o.flags == _re.IGNORECASE, "m": bool(o.ismatch),
                    "h": getattr(o, "_hash", None) is not None}
        if t is restricts._UseDepDefaultContainment:
            return {"c": "usedef", "m": bool(o.if_missing), "vals": sorted(o.vals), "n": bool(o.negate)}
        if t is values.ContainmentMatch:
            return {"c": "contain", "vals": sorted(o.vals), "all": bool(o.all), "n": bool(o.negate)}
        if t is values.FlatteningRestriction:
            return {"c": "flatten", "d": oid(o.dont_iter) if not isinstance(o.dont_iter, tuple) else 10 ** 6 + sum(oid(x) + 1 for x in o.dont_iter),
                    "r": to_model(o.restriction), "n": bool(o.negate)}
        if t is values.FunctionRestriction:
            return {"c": "func", "f": oid(o.func), "n": bool(o.negate)}
        if t in (values.StrConversion, values.UnicodeConversion):
            return {"c": "strconv", "r": to_model(o.restrict)}
        if t is restricts._VersionMatch:
            return {"c": "version", "vals": list(o.vals), "d": bool(o.droprev), "n": bool(o.negate), "ver": lex_ver(o.ver),
                    "rev": None if o.rev is None else o.rev.data}
        if t is restricts._VersionGlobMatch:
            return {"c": "verglob", "ver": lex_ver(o.ver), "rev": None if o.rev is None else o.rev.data}
        if t is packages.Conditional:
            return {"c": "cond", "attr": list(o._attr_split), "n": bool(o.negate), "r": to_model(o.restriction),
                    "payload": [to_model(c) for c in o.payload]}
        if t in PCLS:
            multi = isinstance(o, packages.PackageRestrictionMulti)
            return {"c": "pkg", "cls": PCLS.index(t), "multi": multi,
                    "attrs": [list(x) for x in o._attr_split] if multi else [list(o._attr_split)],
                    "n": bool(o.negate), "r": to_model(o.restriction)}
        if isinstance(o, DepSet):
            return {"c": "depset", "cs": [to_model(c) for c in o.restrictions]}
        if isinstance(o, atom):
            # the attributes atom.__cmp__ / _hash read, in the C02 driver's format
            return {"c": "atom", "a": {
                "cat": o.category, "pkg": o.package, "op": o.op,
                "ver": None if o.version is None else lex_ver(o.version),
                "rev": None if o.version is None else (o.revision.data if o.revision is not None else ""),
                "blocks": bool(o.blocks), "strong": bool(o.blocks_strongly), "negate": bool(o.negate_vers),
                "slot": o.slot, "subslot": o.subslot, "slotop": o.slot_operator,
                "use": None if o.use is None else list(o.use), "repo": o.repo_id}}
        if t in KIND_OF:
            return {"c": "bool", "k": KIND_OF[t], "t": {None: 0, "values": 1, "package": 2}[o.type], "n": bool(o.negate),
                    "cs": [to_model(c) for c in o.restrictions]}
        return {"c": "obj", "id": oid(o)}

    # ---------------------------------------------------------------- universes
    EFF = {}

    class EffPkg(FakePkg):
        """FakePkg whose iuse_effective (profile-implicit flags included) can differ from iuse_stripped"""
        __slots__ = ()
        iuse_effective = property(lambda self: EFF.get(id(self), frozenset(self.iuse_stripped)))

    def mkpkg(cpv, slot="0", subslot=None, use=(), iuse=(), repo="repo"):
        p = EffPkg(cpv, slot=slot, subslot=subslot, use=use, iuse=iuse, repo=FakeRepo(repo_id=repo))
        object.__setattr__(p, "use", frozenset(use))      # frozensets as on real packages (FakePkg keeps mutable sets)
        object.__setattr__(p, "iuse", frozenset(iuse))
        return p

    USE_IUSE = [((), ()), (("x",), ("x", "y")), (("x", "y"), ("y",)), (("y",), ("x", "y")), (("x", "y"), ("x", "y", "z")),
                ((), ("x", "y", "z")), (("y", "z"), ("y", "z"))]
    pkgs = []
    for cpv in ("a/b-1.0", "a/b-1.0-r0", "a/b-1.0-r1", "a/b-1.00", "a/b-0.9", "a/b-2", "a/b-1.0_rc1", "a/b-1.0a", "a/b-1", "a/b-1.0-r2",
                "app/foo-1.0", "app/foo-2-r1", "dev/bar-1.0", "c/d-1"):
        for slot, subslot, repo in (("0", None, "repo"), ("1", "2", "other"), ("0", "0", "repo")):
            # (use, iuse) cycles independently of the version / slot: flags on, off, missing from IUSE, set without being in IUSE
            use, iuse = USE_IUSE[len(pkgs) % len(USE_IUSE)]
            pkgs.append(mkpkg(cpv, slot, subslot, use, iuse, repo))
    pkgs = pkgs[:42]
    N_CORE = len(pkgs)
    # package-like objects WITHOUT a version (what key-only matching hands to restrictions: unversioned CPVs, and atoms used as the
    # matched object).  Most attributes are missing (AttributeError -> the sentinel path) or None on them.
    XPKGS = [cpv_mod.UnversionedCPV("a/b"), cpv_mod.CPV("app", "foo"), cpv_mod.CPV("c/d", versioned=False), atom("a/b"), atom("a/b:1[x]"), atom("c/d:0/2")]
    pkgs = pkgs + XPKGS
    # iuse_effective (the profile's implicit flags included) differs from iuse_stripped for some of them
    for i, p in enumerate(pkgs[:N_CORE]):
        eff = set(p.iuse_stripped) | ({"x"} if i % 3 == 0 else set()) | ({"y", "z"} if i % 5 == 1 else set())
        EFF[id(p)] = frozenset(eff)
    UNIV = {
        "str": ["app", "dev", "", "a", "App", "x", "xy", "foo", "bar", "1", "0", "APP", "apple", "Foo", "rebar"],
        "strs": [[], ["x"], ["y"], ["x", "y"], ["x", "y", "z"], ["z"], ["a"]],
        "pair": [(frozenset(i), frozenset(u)) for i in ((), ("x",), ("y",), ("x", "y"), ("x", "y", "z")) for u in ((), ("x",), ("x", "y"), ("y", "z"))],
        "pkg": pkgs,
    }

    def val_model(dom, x):
        if dom == "str":
            return {"v": "str", "s": x}
        if dom == "strs":
            return {"v": "strs", "xs": list(x)}
        if dom == "pair":
            return {"v": "tuple", "xs": [{"v": "strs", "xs": sorted(x[0])}, {"v": "strs", "xs": sorted(x[1])}]}
        p = x
        if p.version is None:
            # only what is a plain string / string collection; None valued attributes are listed in XBAD and restrictions reading them
            # are not compared with the model on this object (the property itself is still evaluated on it)
            fields = []
            for a in ("category", "package", "fullver", "slot", "subslot"):
                v = getattr(p, a, None)
                if isinstance(v, str):
                    fields.append([a, {"v": "str", "s": v}])
            for a in ("use", "iuse_stripped", "iuse_effective"):
                v = getattr(p, a, None)
                if v is not None:
                    fields.append([a, {"v": "strs", "xs": sorted(v)}])
            return {"v": "pkg", "fields": fields, "ver": None}
        fields = [["category", {"v": "str", "s": p.category}], ["package", {"v": "str", "s": p.package}], ["fullver", {"v": "str", "s": p.fullver}],
                  ["slot", {"v": "str", "s": p.slot}], ["subslot", {"v": "str", "s": p.subslot}],
                  ["use", {"v": "strs", "xs": sorted(p.use)}], ["iuse_stripped", {"v": "strs", "xs": sorted(p.iuse_stripped)}],
                  ["iuse_effective", {"v": "strs", "xs": sorted(p.iuse_effective)}],
                  ["repo", {"v": "pkg", "fields": [["repo_id", {"v": "str", "s": p.repo.repo_id}]], "ver": None}]]
        return {"v": "pkg", "fields": fields, "ver": {"ver": lex_ver(p.version), "rev": p.revision.data}}

    UNIV_MODEL = {dom: [val_model(dom, x) for x in xs] for dom, xs in UNIV.items()}
    _missing = object()
    XBAD = [{a for a in ("category", "package", "fullver", "slot", "subslot", "use", "iuse_stripped", "iuse_effective", "repo")
             if getattr(p, a, _missing) is None} for p in XPKGS]

    def attrs_read(m, out):
        """first components of every attribute path a model restriction pulls from the package"""
        if isinstance(m, dict):
            if m.get("c") == "pkg":
                out.update(a[0] for a in m["attrs"] if a)
            elif m.get("c") == "cond":
                out.update(m["attr"][:1])
            for v in m.values():
                attrs_read(v, out)
        elif isinstance(m, list):
            for v in m:
                attrs_read(v, out)
        return out

    def model_diff(dom, real, mod, m):
        """compare a real match vector with the model's: -> ("raised"|"ok"|"diff", index).  The versioned packages as a block (skipped when
        a match raised there); every unversioned object on its own, when the restriction reads no None valued attribute of it"""
        n = N_CORE if dom == "pkg" else len(real)
        if any(isinstance(x, str) for x in real[:n]):
            return "raised", None
        idx = list(range(n))
        if dom == "pkg":
            read = attrs_read(m, set())
            idx += [n + j for j in range(len(XPKGS)) if isinstance(real[n + j], bool) and not (read & XBAD[j])]
        for i in idx:
            if real[i] != mod[i]:
                return "diff", i
        return "ok", None

    def do_match(o, x):
        try:
            if isinstance(o, DepSet):
                # a DepSet has no match(); its meaning: every member left after USE evaluation matches (this harness-made reading needs
                # a configured package: not applied to the unversioned objects)
                if getattr(x, "version", 0) is None:
                    return "n/a"
                return all(bool(r.match(x)) for r in o.evaluate_depset(x.use).restrictions)
            return bool(o.match(x))
        except NotImplementedError:
            return "notimpl"
        except Exception as e:
            return "raised " + type(e).__name__

    def describe(dom, x):
        if dom == "pkg" and x.version is None:
            return f"the unversioned {type(x).__module__}.{type(x).__name__}({str(x)!r}) (version None)"
        return f"{x.cpvstr} slot={x.slot}/{x.subslot} use={sorted(x.use)} iuse={sorted(x.iuse_stripped)}" if dom == "pkg" else repr(x)

    # ---------------------------------------------------------------- pairs
    pend = []

    def stage(dom, da, db, tag):
        try:
            a, b = build(da), build(db)
        except Exception as e:
            ctx.note(f"construction raised {type(e).__name__}: {str(e)[:80]} (case skipped)")
            ctx.count("construction_failed")
            return
        stage_objs({"dom": dom, "a": da, "b": db, "variant": tag}, dom, a, b)

    def stage_objs(case, dom, a, b):
        ma, mb = to_model(a), to_model(b)   # before anything hashes them: the `_hash` state is part of the model
        rec = {"ma": ma, "mb": mb}
        try:
            rec["eq"], rec["eqrev"], rec["ne"] = bool(a == b), bool(b == a), bool(a != b)
        except Exception as e:
            ctx.violation(case, f"== raised {type(e).__name__}: {e}")
            return
        univ = UNIV[dom]
        rec["match_a"] = [do_match(a, x) for x in univ]
        rec["match_b"] = [do_match(b, x) for x in univ]
        # hashing last (it changes the `_hash` state that __eq__ of the _HashedGenericEquality classes looks at)
        try:
            rec["ha"], rec["hb"] = hash(a), hash(b)
        except TypeError as e:
            rec["ha"] = rec["hb"] = None
            ctx.count("unhashable")
        try:
            rec["eq_after_hash"] = bool(a == b)
        except Exception:
            rec["eq_after_hash"] = None
        if rec["eq_after_hash"] and rec["ha"] is not None and a is not b:
            # equal keys must be one key for dicts and sets (what restriction keyed caches rely on)
            if {a: "x"}.get(b) != "x" or {b: "x"}.get(a) != "x":
                ctx.violation(case, "a == b but one is not found under the other's key in a dict")
            if len({a, b}) != 1:
                ctx.violation(case, "a == b but they are two members of a set")
        rec["same_obj"] = a is b
        pend.append((case, rec, a, b))

    # ---- construction histories of boolean nodes: finalize=False, add_restriction, finalize, hashed in between
    def gen_history(rng):
        dom = rng.choice(["pkg", "pkg", "pkg", "str", "strs"])
        leaf = (lambda: g_pkg(rng, 0)) if dom == "pkg" else (lambda: g_value(rng, dom, 0))
        kinds = ["and", "or", "or", "one", "amo"] + (["keyed"] if dom == "pkg" else [])
        ops = []
        for _ in range(rng.choice([1, 2, 3, 4, 5])):
            r = rng.random()
            if r < 0.45:
                ops.append({"op": rng.choice(["hash", "dict", "set", "parent"])})
            elif r < 0.87:
                ops.append({"op": "add", "rs": [leaf() for _ in range(rng.choice([0, 1, 1, 1, 2]))]})
            else:
                ops.append({"op": "finalize"})
        ops.append({"op": "finalize"})
        for _ in range(rng.choice([0, 0, 1, 2])):
            ops.append(rng.choice([{"op": "hash"}, {"op": "add", "rs": [leaf()]}, {"op": "finalize"}, {"op": "set"}]))
        return {"dom": dom, "kind": rng.choice(kinds), "n": rng.random() < 0.3, "init": [leaf() for _ in range(rng.choice([0, 1, 1, 2]))],
                "ops": ops}

    hist_pend = []

    def stage_history(h, tag):
        dom = h["dom"]
        cls = VCLS[h["kind"]]
        kw = dict(K, negate=h["n"], finalize=False)
        if h["kind"] != "keyed":
            kw["node_type"] = "package" if dom == "pkg" else "values"
        case = {"history": h, "variant": tag}
        try:
            children = [build(d) for d in h["init"]]
            node = cls(*children, **kw)
        except Exception as e:
            ctx.note(f"construction raised {type(e).__name__}: {str(e)[:80]} (case skipped)")
            ctx.count("construction_failed")
            return
        outcomes, mops = [], []
        child_descs = list(h["init"])
        mchildren = [to_model(c) for c in children]
        for op in h["ops"]:
            try:
                if op["op"] == "hash":
                    hash(node)
                elif op["op"] == "dict":
                    {}[node] = "partial result"
                elif op["op"] == "set":
                    {node}
                elif op["op"] == "parent":
                    boolean.OrRestriction(node, node_type=node.type)      # instance cached: hashes its arguments
                elif op["op"] == "add":
                    new = [build(d) for d in op["rs"]]
                    mnew = [to_model(c) for c in new]
                    mops.append({"op": "add", "rs": mnew})
                    node.add_restriction(*new)
                    children.extend(new)
                    mchildren.extend(mnew)
                    child_descs.extend(op["rs"])
                else:
                    node.finalize()
                outcomes.append(True)
            except TypeError:
                outcomes.append(False)
            except Exception as e:
                ctx.violation(case, f"{op['op']} on a node under construction raised {type(e).__name__}: {e}")
                return
            if op["op"] != "add":
                mops.append({"op": "finalize" if op["op"] == "finalize" else "hash"})
            ctx.count("history_op_" + op["op"] + ("_ok" if outcomes[-1] else "_refused"))
        if list(node.restrictions) != children:
            ctx.violation(case, f"after the history the node holds {len(node.restrictions)} restrictions, {len(children)} were accepted")
            return
        req = {"cmd": "c07.build", "k": h["kind"], "t": {None: 0, "values": 1, "package": 2}[node.type], "n": h["n"],
               "init": mchildren[: len(h["init"])], "ops": mops}
        hist_pend.append((case, req, outcomes))
        # the property: the node is interchangeable with the same tree built in one go
        kw1 = dict(kw)
        kw1.pop("finalize")
        try:
            same_children = cls(*children, **kw1)
            rebuilt = cls(*[build(d) for d in child_descs], **kw1)
        except Exception as e:
            ctx.violation(case, f"building the same tree in one go raised {type(e).__name__}: {e}")
            return
        # hash both first: the `_hash` state of _HashedGenericEquality leaves takes part in their ==
        for o in (node, same_children, rebuilt):
            try:
                hash(o)
            except TypeError:
                pass
        stage_objs(dict(case, against="one-go tree over the same children"), dom, node, same_children)
        stage_objs(dict(case, against="one-go tree over independently rebuilt children"), dom, node, rebuilt)

    def flush_history():
        if not hist_pend:
            return
        reps = ctx.model([req for _, req, _ in hist_pend])
        for (case, req, outcomes), rep in zip(hist_pend, reps):
            ctx.case(case, any(o["op"] == "add" for o in case["history"]["ops"]) and any(o["op"] in ("hash", "dict", "set", "parent")
                                                                                         for o in case["history"]["ops"]))
            if not isinstance(rep, dict):
                ctx.mismatch(case, f"driver answered {rep!r}")
                continue
            if rep["oks"] != outcomes:
                i = [j for j, (x, y) in enumerate(zip(rep["oks"], outcomes)) if x != y][0]
                op = case["history"]["ops"][i]["op"]
                ctx.mismatch(case, f"call #{i} ({op}) on the node under construction {'succeeded' if outcomes[i] else 'raised TypeError'}, "
                                   f"the model says it {'succeeds' if rep['oks'][i] else 'raises TypeError'}")
            if rep["cachedIsFinal"] is False:
                ctx.mismatch(case, "model: cached hash differs from the hash of the final children (contradicts builder_hash_history_independent)")
        hist_pend.clear()

    def model_matches(items):
        """items: [(dom, model restriction)] -> the model's match vector (or "opaque") of each over its domain's universe; the universe
        travels once per request, not once per restriction"""
        out = [None] * len(items)
        reqs, slots = [], []
        for dom in UNIV:
            idx = [i for i, (d, _m) in enumerate(items) if d == dom]
            for lo in range(0, len(idx), 400):
                chunk = idx[lo:lo + 400]
                reqs.append({"cmd": "c07.matchmany", "rs": [items[i][1] for i in chunk], "vals": UNIV_MODEL[dom]})
                slots.append(chunk)
        for chunk, rep in zip(slots, ctx.model(reqs)):
            if not isinstance(rep, list) or len(rep) != len(chunk):
                for i in chunk:
                    out[i] = rep
            else:
                for i, r in zip(chunk, rep):
                    out[i] = r
        return out

    def flush():
        reps = ctx.model([{"cmd": "c07.pair", "a": rec["ma"], "b": rec["mb"]} for _case, rec, _a, _b in pend])
        items = []
        for case, rec, a, b in pend:
            dom = case["dom"] if "dom" in case else case["history"]["dom"]
            items += [(dom, rec["ma"]), (dom, rec["mb"])]
        mm = model_matches(items)
        for i, (case, rec, a, b) in enumerate(pend):
            judge(case, rec, reps[i], mm[2 * i], mm[2 * i + 1])
        pend.clear()

    def judge(case, rec, mp, mma, mmb):
        dom = case["dom"] if "dom" in case else case["history"]["dom"]
        if "history" in case:
            nontriv = not rec["same_obj"]
            ctx.case(case, nontriv, key=json.dumps(case["history"], sort_keys=True))
        elif "warm" in case:
            nontriv = not rec["same_obj"]
            ctx.case(case, nontriv, key=json.dumps([case["warm"], case["members"]], sort_keys=True))
        else:
            nontriv = not rec["same_obj"] and json.dumps(case["a"], sort_keys=True) != json.dumps(case["b"], sort_keys=True)
            ctx.case(case, nontriv, key=json.dumps([case["dom"], case["a"], case["b"]], sort_keys=True))
        ctx.count("dom_" + dom)
        ctx.count("variant_" + case["variant"])
        ctx.count("class_" + rec["ma"]["c"])
        if not isinstance(mp, dict):
            ctx.mismatch(case, f"driver answered {mp!r} for {json.dumps(rec['ma'])[:200]}")
            return
        eq = rec["eq"] or rec["eqrev"]
        ctx.count("equal_pairs" if eq else "unequal_pairs")
        if rec["eq"] != rec["eqrev"]:
            ctx.note("== is not symmetric on some pair: " + json.dumps(case)[:200])
            ctx.count("asymmetric_eq")
        if rec["ne"] == rec["eq"]:
            ctx.violation(case, f"a == b is {rec['eq']} and a != b is {rec['ne']}")
        # ---- edge C: the property on the real objects
        if eq:
            if rec["ha"] is not None and rec["ha"] != rec["hb"]:
                ctx.violation(case, f"a == b but hash(a) = {rec['ha']} != hash(b) = {rec['hb']}")
            diff = [i for i, (x, y) in enumerate(zip(rec["match_a"], rec["match_b"])) if x != y]
            if diff:
                i = diff[0]
                ctx.violation(case, f"a == b but a.match gives {rec['match_a'][i]} and b.match gives {rec['match_b'][i]} on {describe(dom, UNIV[dom][i])}")
            if any(m is True for m in rec["match_a"]) and any(m is False for m in rec["match_a"]):
                ctx.count("equal_pairs_with_nonconstant_match")
        if rec["eq_after_hash"] and rec["ha"] is not None and rec["ha"] != rec["hb"]:
            ctx.violation(case, "after hashing both, a == b with different hashes")
        # ---- edge A: the model's ==, hash keys and match
        if not (mp["wfa"] and mp["wfb"]):
            ctx.mismatch(case, "model: not well-formed (operator set outside _convert_str2op)")
        if mp["eq"] != rec["eq"] or mp["eqrev"] != rec["eqrev"]:
            ctx.mismatch(case, f"a == b is {rec['eq']} (b == a {rec['eqrev']}), the model says {mp['eq']} ({mp['eqrev']}); model a = {json.dumps(rec['ma'])[:300]}")
        if rec["ha"] is not None:
            if mp["hk"] and rec["ha"] != rec["hb"]:
                ctx.mismatch(case, "model hash keys agree but the real hashes differ")
            if not mp["hk"] and rec["ha"] == rec["hb"]:
                ctx.count("real_hash_collision_or_coarser_hash")
        for who, real, mod in (("a", rec["match_a"], mma), ("b", rec["match_b"], mmb)):
            if mod == "opaque":
                ctx.count("match_model_opaque")
                continue
            if not isinstance(mod, list):
                ctx.mismatch(case, f"driver answered {mod!r} to a match request")
                continue
            st, i = model_diff(dom, real, mod, rec["m" + who])
            if st == "raised":
                ctx.count("match_raised_on_ill_typed_value")      # e.g. a multi restriction whose child cannot unpack what it pulls
                continue
            ctx.count("match_model_compared")
            if st == "diff":
                ctx.mismatch(case, f"{who}.match on {describe(dom, UNIV[dom][i])} is {real[i]}, model gives {mod[i]}; model {who} = {json.dumps(rec['m' + who])[:300]}")

    # ---- instance caches: a restriction built while other restrictions are alive, against the same description built alone
    def inst_dicts():
        out, seen, stack = [], set(), [restriction.base]
        while stack:
            c = stack.pop()
            if c in seen:
                continue
            seen.add(c)
            stack.extend(c.__subclasses__())
            d = vars(c).get("__inst_dict__")
            if d is not None:
                out.append(d)
        return out

    def forget_instances():
        """empty every WeakInstMeta instance cache: what is built next is built as in a process where nothing else is alive"""
        for d in inst_dicts():
            d.clear()

    CACHED = {}      # no disable_inst_caching: the way pkgcore itself constructs restrictions

    def tree_nodes(o, out, depth=0):
        out.add(id(o))
        if depth > 6:
            return
        for attr in ("restriction", "restrict"):
            c = getattr(o, attr, None)
            if c is not None and not isinstance(c, (str, bytes)):
                tree_nodes(c, out, depth + 1)
        for attr in ("restrictions", "payload"):
            try:
                cs = getattr(o, attr, None)
            except Exception:
                cs = None
            if isinstance(cs, (tuple, list)):
                for c in cs:
                    tree_nodes(c, out, depth + 1)

    def g_usedep_flavoured(rng):
        k = rng.choice(["staticuse", "usedefault", "usedefault", "atom", "atom", "atom", "prm", "prs"])
        if k == "staticuse":
            return {"k": k, "false": rng.sample(FLAGS, rng.choice([0, 1, 1, 2])), "true": rng.sample(FLAGS, rng.choice([0, 1, 1, 2]))}
        if k == "usedefault":
            return {"k": k, "m": rng.random() < 0.5, "false": rng.sample(FLAGS, rng.choice([0, 1, 1, 2])), "true": rng.sample(FLAGS, rng.choice([0, 1, 1, 2]))}
        if k == "atom":
            f = g_atom_fields(rng)
            while not f["use"]:
                f["use"] = g_use(rng)
            return {"k": "atom", "f": f, "s": atom_text(f), "nv": False}
        if k == "prm":
            return g_prm(rng)
        return {"k": "pr", "attr": rng.choice(SET_ATTRS), "r": g_value(rng, "strs", 1), "n": rng.random() < 0.3, "im": True}

    def gen_family(rng):
        """a few related descriptions (one description, variants of it and variants of those) in a random order"""
        if rng.random() < 0.5:
            dom, d0 = "pkg", g_usedep_flavoured(rng)
        else:
            dom, d0 = g_top(rng)
        members = [d0]
        for _ in range(rng.choice([1, 1, 2, 3])):
            d, _t = variant(rng, rng.choice(members), dom)
            if rng.random() < 0.25:
                d, _t = variant(rng, d, dom)
            members.append(d)
        rng.shuffle(members)
        return {"dom": dom, "descs": members}

    warm_pend = []

    def stage_warm(fam, tag):
        dom, descs = fam["dom"], fam["descs"]
        univ = UNIV[dom]
        cold = []
        try:
            for d in descs:
                forget_instances()
                o = build(d, CACHED)
                cold.append(([do_match(o, x) for x in univ], to_model(o)))
                del o
            forget_instances()
            objs = [build(d, CACHED) for d in descs]        # built in this order, all alive together
        except Exception as e:
            ctx.note(f"construction raised {type(e).__name__}: {str(e)[:80]} (case skipped)")
            ctx.count("construction_failed")
            return
        node_sets = []
        for o in objs:
            ns = set()
            tree_nodes(o, ns)
            node_sets.append(ns)
        shared = any(node_sets[i] & node_sets[j] for i in range(len(objs)) for j in range(i))
        ctx.count("warm_families_sharing_instances" if shared else "warm_families_without_sharing")
        case = {"dom": dom, "warm": fam, "variant": tag}
        distinct = len({json.dumps(d, sort_keys=True) for d in descs}) > 1
        ctx.case(case, distinct, key=json.dumps(fam, sort_keys=True))
        vectors = []
        for i, (o, (cm, _m)) in enumerate(zip(objs, cold)):
            wm = [do_match(o, x) for x in univ]
            vectors.append(wm)
            diff = [j for j, (x, y) in enumerate(zip(wm, cm)) if x != y]
            if diff:
                j = diff[0]
                ctx.violation(dict(case, member=i),
                              f"description #{i} built while the restrictions of descriptions {list(range(i))} are alive matches {wm[j]} on "
                              f"{describe(dom, univ[j])}; built alone it matches {cm[j]} (the instance cache handed out a tree built for a "
                              f"different restriction: {o!r:.300})")
        warm_pend.append((case, dom, [m for _c, m in cold], vectors))
        # and the property itself on the objects as the caches deliver them
        for i in range(len(objs) - 1):
            stage_objs(dict(case, members=[i, i + 1]), dom, objs[i], objs[i + 1])

    def flush_warm():
        reps = iter(model_matches([(dom, m) for _case, dom, models, _v in warm_pend for m in models]))
        for case, dom, models, vectors in warm_pend:
            for i, (m, wm) in enumerate(zip(models, vectors)):
                rep = next(reps)
                st, j = ("raised", None) if rep == "opaque" or not isinstance(rep, list) else model_diff(dom, wm, rep, m)
                if st == "raised":
                    ctx.count("warm_match_model_opaque")
                    continue
                ctx.count("warm_match_model_compared")
                if st == "diff":
                    ctx.mismatch(dict(case, member=i), f"description #{i} built among alive restrictions matches {wm[j]} on {describe(dom, UNIV[dom][j])}, "
                                                       f"the model of the description built alone gives {rep[j]} (contradicts instance_cache_transparent)")
        warm_pend.clear()

    if ctx.replay_cases:
        for c in ctx.replay_cases:
            if "a" in c and "b" in c and "dom" in c:
                stage(c["dom"], c["a"], c["b"], "replay")
    if ctx.replay_cases:
        for c in ctx.replay_cases:
            if "history" in c:
                stage_history(c["history"], "replay")
    if ctx.replay_cases:
        for c in ctx.replay_cases:
            if "warm" in c:
                stage_warm(c["warm"], "replay")
    cat_leaf = {"k": "dep", "cls": "CategoryDep", "s": "a", "n": False}
    pkg_leaf = {"k": "dep", "cls": "PackageDep", "s": "b", "n": False}
    slot_leaf = {"k": "dep", "cls": "SlotDep", "s": "0", "n": False}
    for kind in ("and", "or", "one", "amo", "keyed"):
        for touch in ([], [{"op": "hash"}], [{"op": "dict"}, {"op": "set"}], [{"op": "parent"}]):
            for neg in (False, True):
                stage_history({"dom": "pkg", "kind": kind, "n": neg, "init": [cat_leaf],
                               "ops": touch + [{"op": "add", "rs": [pkg_leaf]}] + touch + [{"op": "finalize"}, {"op": "hash"}]}, "corpus_history")
        stage_history({"dom": "pkg", "kind": kind, "n": False, "init": [],
                       "ops": [{"op": "set"}, {"op": "add", "rs": [cat_leaf, pkg_leaf]}, {"op": "add", "rs": []}, {"op": "finalize"},
                               {"op": "add", "rs": [slot_leaf]}, {"op": "finalize"}, {"op": "dict"}]}, "corpus_history")
    flush_history()
    for dom, da, db in CORPUS:
        stage(dom, da, db, "corpus")
        stage(dom, db, da, "corpus")
        stage(dom, da, copy.deepcopy(da), "corpus_rebuild")
    flush()
    for dom, descs in WARM_CORPUS:
        stage_warm({"dom": dom, "descs": descs}, "corpus_warm")
        stage_warm({"dom": dom, "descs": descs[::-1]}, "corpus_warm")
    flush()
    flush_warm()
    n = ctx.n(2400, 50000)
    for i in range(n):
        dom, da = g_top(rng)
        r = rng.random()
        if r < 0.8:
            db, tag = variant(rng, da, dom)
            if rng.random() < 0.25:
                db, _ = variant(rng, db, dom)
        else:
            dom2, db = g_top(rng)
            tag = "independent"
            if dom2 != dom:
                db, tag = copy.deepcopy(da), "same"
        stage(dom, da, db, tag)
        if i % 6 == 0:
            stage_history(gen_history(rng), "history")
        if i % 5 == 0:
            stage_warm(gen_family(rng), "warm")
        if len(pend) >= 4000:      # each driver start costs ~1 s: batch
            flush()
    flush()
    flush_history()
    flush_warm()

    # ---------------------------------------------------------------- restriction-keyed caches on the real code
    from pkgcore.repository.misc import caching_repo
    from pkgcore.repository.util import SimpleTree
    from pkgcore.restrictions import required_use

    tree = SimpleTree({"a": {"b": ["1.0", "1.0-r0", "1.0-r1", "0.9", "2"], "c": ["1"]}, "app": {"foo": ["1.0", "2-r1"]}, "c": {"d": ["1"]}},
                      pkg_klass=lambda *a: FakePkg.for_tree_usage(*a, use=("x",), iuse=("x", "y")))
    ncache = 0
    for _ in range(ctx.n(150, 3000)):
        da = g_pkg(rng, 1)
        db, tag = variant(rng, da)
        try:
            a, b = build(da), build(db)
            if isinstance(a, DepSet) or isinstance(b, DepSet):
                continue
            eq = a == b
            hash(a), hash(b)
        except Exception:
            continue
        case = {"cache": "caching_repo", "a": da, "b": db, "variant": tag}
        try:
            fresh = sorted(p.cpvstr for p in tree.itermatch(b))
            crepo = caching_repo(tree, iter)
            list(crepo.match(a))              # prime the cache with the (possibly equal) other key
            cached = sorted(p.cpvstr for p in crepo.match(b))
        except Exception as e:
            ctx.note(f"caching_repo query raised {type(e).__name__}: {str(e)[:60]}")
            continue
        ncache += 1
        ctx.case(case, bool(eq) and a is not b)
        ctx.count("cache_queries_equal_keys" if eq else "cache_queries_distinct_keys")
        if cached != fresh:
            ctx.violation(case, f"caching_repo primed with an {'equal' if eq else 'unequal'} key answers {cached}, a fresh query gives {fresh}")
    nru = 0
    iuse = {"x", "y", "z"}
    try:
        mk = lambda s: DepSet.parse(s, values.ContainmentMatch, operators={"||": boolean.OrRestriction, "": boolean.AndRestriction,
                                                                         "^^": boolean.JustOneRestriction, "??": boolean.AtMostOneOfRestriction},
                                  element_func=_ru_element(values))
        sols = lambda d: sorted(sorted(s.items()) for s in required_use.find_constraint_satisfaction(d, iuse))
        for s1 in REQUSE:
            for s2 in REQUSE:
                d1, d2 = mk(s1), mk(s2)
                required_use._compiled_constraints.cache_clear()
                fresh = sols(d2)
                required_use._compiled_constraints.cache_clear()
                sols(d1)
                cached = sols(d2)
                nru += 1
                case = {"cache": "compiled REQUIRED_USE", "a": s1, "b": s2}
                ctx.case(case, d1 == d2 and s1 != s2)
                ctx.count("requse_equal_keys" if d1 == d2 else "requse_distinct_keys")
                if d1 == d2 and hash(d1) != hash(d2):
                    ctx.violation(case, "equal REQUIRED_USE DepSets with different hashes")
                if cached != fresh:
                    ctx.violation(case, f"solutions of {s2!r} after compiling {s1!r}: {cached[:3]}…, fresh: {fresh[:3]}…")
    except Exception as e:
        ctx.mismatch({"cache": "compiled REQUIRED_USE"}, f"could not exercise the REQUIRED_USE cache: {type(e).__name__}: {e}")
    ctx.extra["cache_pairs_on_real_code"] = {"caching_repo": ncache, "required_use_lru": nru}
    ctx.extra["universe_sizes"] = {k: len(v) for k, v in UNIV.items()}
    ctx.extra["run_part_wall_s"] = round(_time.time() - t_run, 1)


def _ru_element(values):
    def f(tok):
        if tok.startswith("!"):
            return values.ContainmentMatch(tok[1:], negate=True)
        return values.ContainmentMatch(tok)
    return f


LEVEL_TEXT = ("Kernel-checked Lean 4 theorems about a model of __eq__/__hash__/match of 15 restriction class families (after 7 fix commits): equal "
              "restrictions match the same values for every nesting, environment and value (eq_implies_same_match, structural induction incl. "
              "_convert_ops normalisation, Revision comparison, frozenset attributes, tuple and set-based (DepSet) equality of children) and have "
              "equal hash keys (eq_implies_same_hash); a dict keyed by restrictions returns only values stored under an equal key, hence the value "
              "computed for the query itself (cache_lookup_sound, caching_repo_sound) and always hits on an equal key (cache_hit_complete); C04's "
              "model of atom.match gives one verdict for atoms with one C02 canonical form (atom_match_depends_only_on_canon: version respelling via the "
              "C01 key / ver_hash_key, USE order via permutation invariance of the lexed deps), which is what the atom case of the model assumes; a "
              "description rebuilt bottom-up through instance caches that answer any constructor call with an alive equal instance matches what "
              "the description built alone matches, whatever was built before (instance_cache_transparent, build_history_irrelevant). Tied to "
              "the code by building pairs of real objects, comparing ==, hash and match with the model, evaluating the property directly on the "
              "real objects, and exercising caching_repo and the REQUIRED_USE lru_cache with equal keys.")
LEVEL_NOTE = ("Trusted: CPython hash/dict/set semantics as stated; abstract primitives (re, str.lower, user functions); atom.match as a function of "
              "the compared attributes is proved for the C04 model (non-conditional USE deps), the C04 model and C03.toC04 are trusted here. Revision arguments restricted to None / cpv.Revision.")
