"""C32 — every IPC helper request gets exactly one truthful single-line reply.

The real `run_generic_phase` (ebd.py) is run with a real `EbuildProcessor` object whose pipes are files: the
"daemon" is a scripted request stream (`env_received`, then `__ebd_ipc_cmd` requests of six lines each, then a
terminator), so the real `run_phase`, `generic_handler`, `IpcCommand.__call__`, `_encode_ret` and the error path of
`run_generic_phase` all execute.  Two kinds of sessions:
  * probe sessions: the helper body is a scripted `IpcCommand` subclass (returns None/int/str/tuple, raises
    IpcCommandError(code, msg) or something else), so its outcome is known and everything written/left unread is
    compared with the Lean model (edge A) and with the property (edge C);
  * real-helper sessions: doins/dodoc/doexe/dodir/keepdir/dosym/dohard on a scratch image directory, with options
    forcing the external `install` fallback, real obstacles in the image (a regular file where a directory is needed) and
    injected failures (several errnos) of the os-level primitives copyfile/mkdir/chmod/chown/symlink; the replies are decoded
    by the real bash functions `__ebd_read_array` (ebuild-daemon-lib.bash) and compared with what is on disk (existence,
    content, requested mode);
  * parse-failure sessions: for EVERY helper class of ebd_ipc (introspection), requests its declared argparse interface cannot
    accept (unknown internal option, unknown flag, surplus positional arguments, no arguments), fatal and nonfatal, on one set of
    long-lived helper objects; one failure reply each, nothing done in the image, nonfatal ones followed by a served dodir;
  * directory-creation sessions: dodir/keepdir requests for 1-3 directories each of which is fresh, already there, blocked
    by a regular file (at the leaf or at a parent) or hit by a failing mkdir/chmod; reply compared with the Lean model of
    `_install_dirs` (`installDirsPy`) and with the directories on disk.
"""
import errno
import io
import os
import shlex
import shutil
import subprocess
import tempfile
import time

PID = "C32"
LEAN_MODULES = ["Pkgcore.Props.C32"]
OBLIGATIONS = [
    "Pkgcore.C32.one_reply_per_request",
    "Pkgcore.C32.reply_single_line",
    "Pkgcore.C32.status_truthful",
    "Pkgcore.C32.nonfatal_failure_returned",
    "Pkgcore.C32.fatal_failure_fails_build",
    "Pkgcore.C32.success_continues",
    "Pkgcore.C32.install_fallback_truthful",
    "Pkgcore.C32.install_fallback_legacy_counterexample",
    "Pkgcore.C32.install_dirs_truthful",
    "Pkgcore.C32.reply_read_exactly_partial",
    "Pkgcore.C32.reply_read_exactly_counterexample",
    "Pkgcore.C32.legacy_multiline_counterexample",
    "Pkgcore.C32.session_replies_matched",
    "Pkgcore.C32.session_stops_at_failure",
    "Pkgcore.C32.channel_synchronised_partial",
    "Pkgcore.C32.reply_independent_of_history",
]
TRUSTED = [
    "the helper bodies (argument parsing and file-system work of doins, dodir, …) are a parameter of the model: only their "
    "outcome (return value / IpcCommandError(code, msg) / other exception) enters; shlex.split and chdir likewise",
    "the bash side of a reply (`IFS=$'\\a' read -a` without -r, `[[ ${ret} == 0 ]]`) is modelled by bashRead/statusField; tied to "
    "the real functions of ebuild-daemon-lib.bash by decoding every recorded reply stream with them",
    "str(int) is modelled by C31's `digits`",
]
ASSUMPTIONS = [
    "request fields are single lines (the protocol is line based: a newline inside an argument, in $PWD or in the option string "
    "is outside the model) and the daemon writes complete requests",
    "IpcCommandError is never raised with code 0 (checked on every error observed: CodeOk)",
    "the message of a reply does not end in an unpaired backslash (guard MsgClosed of reply_read_exactly_partial; `read` without "
    "-r would join the next line; no helper message observed or found by reading ends that way: paths are repr()-quoted)",
    "on the external `install` path success means exit status 0 of every `install` invocation (e.g. `install -v` fails on its "
    "closed stdout although the file is copied; the reply then truthfully reports the command's failure)",
]
RULE = ("request streams of 1-6 requests; probe sessions: outcomes None/int/str/tuple/IpcCommandError(code,msg)/other exception, "
        "messages with newlines, \\a, backslashes, quotes, non-ASCII; nonfatal true/false; valid, unbalanced and empty option "
        "strings; existing/vanished cwd; terminators succeeded/failed/unknown command; real-helper sessions: request sequences on "
        "ONE set of long-lived helper objects (7 helpers, recursive installs of trees with directory symlinks and dangling "
        "symlinks, earlier requests failing nonfatally inside each coroutine, then valid requests), "
        "existing/missing sources, options handled in Python, options forcing the `install` fallback (valid and invalid for "
        "install), a regular file in the image where a directory is needed, injected ENOSPC/EACCES/EROFS/EIO/EDQUOT in "
        "copyfile/mkdir/chmod/chown/symlink; directory-creation sessions (1-3 directories, each fresh/existing/blocked at leaf or "
        "parent/failing mkdir/failing chmod, with and without diroptions); parse-failure sessions for every helper class (unknown "
        "internal option / unknown flag / surplus arguments / no arguments, fatal and nonfatal); probe bodies also raise the "
        "module's IpcCommandError subclasses; non-trivial = the session contains a failing request or "
        "a fallback to `install`; distinct by request stream")
LEVEL_TEXT = ("Kernel-checked Lean 4 theorems, for every request, every behaviour of shlex/chdir/the helper body: exactly one reply line "
              "is written (by __call__ or by run_generic_phase's error path), it contains no line break, its status field reads as "
              "success exactly when the action succeeded, nonfatal failures return code and message and let the build go on, fatal ones "
              "fail it; the install fallback is truthful; over a whole stream the dispatch loop consumes six lines and writes one "
              "reply per request in order and stops at the first fatal failure; the daemon's `read` consumes exactly one reply each "
              "time (guarded: message without dangling backslash, with counterexample). Pre-fix behaviours are counterexample "
              "theorems. Tied to the code by running the real run_generic_phase/generic_handler/IpcCommand on scripted streams and "
              "decoding the replies with the real bash functions.")
LEVEL_NOTE = ("Trusted: Lean kernel, standard axioms; helper bodies enter only through their outcome; the bash `read` model is validated "
              "against the real __ebd_read_array on every recorded reply stream, not proved.  reply_independent_of_history holds of the model by construction (the model keeps no helper state): it is the "
              "specification the long-lived-object sessions of the harness test the real helpers against, not independent proof evidence.")


# ---------------------------------------------------------------- scaffolding around the real code

class Obs:
    def __init__(self):
        self.msgs = []

    def warn(self, m):
        self.msgs.append(("warn", m))

    def info(self, m):
        self.msgs.append(("info", m))

    def error(self, m):
        self.msgs.append(("error", m))

    def write(self, m, **kw):
        self.msgs.append(("write", m))

    def flush(self):
        pass


class Op:
    def __init__(self, pkg, ed):
        self.pkg, self.observer, self.ED, self.env, self.userpriv = pkg, Obs(), ed, {}, False


def make_probe(ebd_ipc, script):
    class Probe(ebd_ipc.IpcCommand):
        """helper whose body is scripted: outcome looked up by the NUL-joined arguments"""
        seen = []

        def run(self, args):
            Probe.seen.append(list(args))
            what = script.get("\0".join(args), script["__default__"])
            if what == "other":
                raise RuntimeError("scripted failure")
            if "cls" in what:
                # one of the module's own IpcCommandError subclasses, built the way the module builds it
                raise getattr(ebd_ipc, what["cls"])(list(what["payload"]))
            if "err" in what:
                raise ebd_ipc.IpcCommandError(what["err"][1], code=what["err"][0])
            r = what["ok"]
            return tuple(r) if isinstance(r, list) else r
    return Probe


class Session:
    """runs the real run_generic_phase against a scripted daemon"""

    def __init__(self, mods, scratch):
        self.processor, self.ebd_mod, self.ebd_ipc = mods
        self.scratch = scratch
        self.pipe = os.path.join(scratch, "pipe")

    def run(self, pkg, handlers, lines):
        processor, ebd_mod = self.processor, self.ebd_mod
        p = processor.EbuildProcessor.__new__(processor.EbuildProcessor)
        p._readonly_vars = frozenset()
        p._outstanding_expects = []
        p.pid = None
        p.ebd_read = io.BytesIO(b"env_received\n" + "".join(l + "\n" for l in lines).encode("utf-8", "surrogateescape"))
        p.ebd_write = open(self.pipe, "w", errors="surrogateescape")
        saved = ebd_mod.request_ebuild_processor, ebd_mod.release_ebuild_processor
        ebd_mod.request_ebuild_processor = lambda **kw: p
        ebd_mod.release_ebuild_processor = lambda e: True
        try:
            try:
                ret = ebd_mod.run_generic_phase(pkg, "install", {"VT": "1"}, False, False, extra_handlers=handlers)
                end = {"finished": bool(ret)}
                exc = None
            except BaseException as e:  # noqa
                exc = e
                chain, x = [], e
                while x is not None:
                    chain.append(type(x).__name__)
                    x = x.__cause__
                if "UnhandledCommand" in chain:
                    end = "unhandled"
                elif type(e).__name__ == "ProcessorError":
                    end = {"finished": False}
                elif "InternalError" in chain:
                    end = "eof"
                else:
                    # an escaping IpcCommandError (wrapped in GenericBuildError) or the re-raised cause of an
                    # IpcInternalError: the build failed because of the helper
                    end = "buildFailed"
                self.last_chain = chain
        finally:
            ebd_mod.request_ebuild_processor, ebd_mod.release_ebuild_processor = saved
            p.ebd_write.close()
        written = open(self.pipe, "rb").read()
        marker = b"start_processing\n"
        replies = written.split(marker, 1)[1] if marker in written else None
        left = p.ebd_read.read()
        return end, replies, left, exc


BASH_DECODE = r'''
die() { printf 'DIE\0' ; exit 3; }
source "$1"/ebuild-daemon-lib.bash
dir=$2; n=$3
for (( i = 0; i < n; i++ )); do
	read -r cnt < "${dir}/${i}.n"
	exec 7< "${dir}/${i}.replies"
	PKGCORE_EBD_READ_FD=7
	printf 'S\0'
	for (( k = 0; k < cnt; k++ )); do
		ret=()
		IFS=$'\07' read -u 7 -a ret || { printf 'EOF\0'; break; }
		printf 'R\0%s\0%s\0' "${#ret[@]}" "${ret[0]}"
	done
	IFS= read -u 7 -r -d '' rest
	printf 'T\0%s\0' "${rest}"
	exec 7<&-
done
printf 'E\0'
'''


def bash_decode(ebd_path, streams):
    """streams: list of (reply bytes, number of requests) -> list of ([(nfields, status)], rest bytes, eof flag)"""
    if not streams:
        return []
    d = tempfile.mkdtemp(prefix="c32-bash-")
    try:
        for i, (data, n) in enumerate(streams):
            open(os.path.join(d, f"{i}.replies"), "wb").write(data)
            open(os.path.join(d, f"{i}.n"), "w").write(f"{n}\n")
        open(os.path.join(d, "run.sh"), "w").write(BASH_DECODE)
        # the loop body repeats __ebd_read_array's own `IFS=$'\07' read -u fd -a` (the function dies on EOF, which would end the batch)
        p = subprocess.run([shutil.which("bash"), "--norc", "--noprofile", os.path.join(d, "run.sh"), ebd_path, d, str(len(streams))],
                           stdin=subprocess.DEVNULL, stdout=subprocess.PIPE, stderr=subprocess.DEVNULL, env={"PATH": "/nonexistent"},
                           timeout=600)
        f = p.stdout.split(b"\0")
        out, j = [], 0
        while f[j] != b"E":
            assert f[j] == b"S", f[j]
            j += 1
            rs, eof = [], False
            while f[j] in (b"R", b"EOF"):
                if f[j] == b"EOF":
                    eof = True
                    j += 1
                    continue
                rs.append((int(f[j + 1]), f[j + 2]))
                j += 3
            assert f[j] == b"T"
            out.append((rs, f[j + 1], eof))
            j += 2
        assert len(out) == len(streams)
        return out
    finally:
        shutil.rmtree(d, ignore_errors=True)


def check_read_function(ebd_path):
    """the decode loop above must be the text of __ebd_read_array (minus the die): tie to the source"""
    src = open(os.path.join(ebd_path, "ebuild-daemon-lib.bash")).read()
    return "IFS=$'\\07' read -u ${PKGCORE_EBD_READ_FD} -a $1" in src and '[[ ${ret} == 0 ]]' in src


# ---------------------------------------------------------------- generators

MSGS = ["", "plain message", "two\nlines", "install: unrecognized option '--bogus'\nTry 'install --help' for more information.\n",
        "bell\x07inside", "back\\slash", "double\\\\back", "tab\there", "quote ' \" `$x`", "non-ascii é日本", "trailing space ",
        "\nleading newline", "a\n\nb\n", "cr\r\nlf", "x" * 300, "ends with bell\x07", "0", "-1"]
RETS = [None, None, None, 0, 1, 17, -3, "", "cat/pkg-1.2", "two\nlines", "with\x07bell", "é", "0", [3, "own code"],
        [0, "two\nlines"]]


def error_subclasses(ebd_ipc):
    """the module's IpcCommandError subclasses that are built from one list (UnknownOptions, UnknownArguments, ...), by
    introspection: name -> (code, msg) of an instance built from `payload`"""
    out, todo = {}, list(ebd_ipc.IpcCommandError.__subclasses__())
    while todo:
        c = todo.pop()
        todo += c.__subclasses__()
        if c.__module__ == ebd_ipc.__name__:
            try:
                c(["probe"])
            except Exception:  # noqa
                continue
            out[c.__name__] = c
    return out


def subclass_outcome(classes, name, payload):
    e = classes[name](list(payload))
    return {"err": [e.code, e.msg], "cls": name, "payload": list(payload)}


def gen_probe_session(rng, idx, workdir, classes=None):
    script = {"__default__": {"ok": None}}
    lines, reqs = [], []
    k = rng.choice([1, 1, 2, 3, 4, 6])
    splits, badcwds = {}, []
    for i in range(k):
        name = rng.choice(["probe", "probe", "other_helper"])
        nonfatal = rng.choice(["true", "false", "true", " true ", "false", "yes"])
        args = [f"tok{idx}_{i}"] + [rng.choice(["a", "b c", "é", "", "-x", "--", "x" * 40]) for _ in range(rng.choice([0, 0, 1, 2, 3]))]
        if rng.random() < 0.1:
            args = []
        r = rng.random()
        if not args:
            out = {"ok": None}       # no arguments: the default outcome of the script
        elif r < 0.4:
            out = {"ok": rng.choice(RETS)}
        elif r < 0.7 or (r < 0.85 and not classes):
            out = {"err": [rng.choice([1, 1, 1, 2, 64, 127, 255]), rng.choice(MSGS)]}
        elif r < 0.85:
            out = subclass_outcome(classes, rng.choice(sorted(classes)),
                                   [rng.choice(["--bogus", "-z", "extra", "é", "two\nlines", "x y"]) for _ in range(rng.choice([1, 1, 2, 3]))])
        else:
            out = "other"
        argline = "".join(a + "\0" for a in args)
        key = "\0".join(_parse_args(argline))
        script[key] = out
        opts = rng.choice(["", "", "--dest=\"/usr\"", "--a=1 --b='x y'", "--dest=\"/usr", "'unbalanced", "a\\", "  "])
        cwd = workdir if rng.random() < 0.9 else os.path.join(workdir, "vanished")
        if cwd != workdir:
            badcwds.append(cwd)
        try:
            splits[opts.strip()] = [shlex.split(opts.strip()), ""]
        except ValueError as e:
            splits[opts.strip()] = [None, str(e)]
        lines += [name, nonfatal, cwd, "install", opts, argline]
        reqs.append({"name": name, "nonfatal": nonfatal, "cwd": cwd, "options": opts, "args": args, "outcome": out})
    term = rng.choice(["phases succeeded", "phases succeeded", "phases failed ebd::install failed", "bogus_command x", None])
    if term is not None:
        lines.append(term)
    return {"kind": "probe", "lines": lines, "requests": reqs, "script": script, "splits": splits, "badcwds": badcwds, "terminator": term}


def _parse_args(line):
    a = line.strip().strip("\0")
    return a.split("\0") if a else []


PROBE_CORPUS = [
    # (requests as (name, nonfatal, options, args, outcome), terminator)
    ([("probe", "true", "", ["m"], {"err": [1, "install: a\ninstall: b\n"]}), ("probe", "true", "", ["n"], {"ok": None})], "phases succeeded"),
    ([("probe", "false", "", ["m"], {"err": [1, "two\nlines"]}), ("probe", "true", "", ["n"], {"ok": None})], "phases succeeded"),
    ([("probe", "true", "--dest=\"/usr", ["q"], {"ok": None}), ("probe", "true", "", ["n"], {"ok": 1})], "phases succeeded"),
    ([("probe", "false", "'x", ["q"], {"ok": None}), ("probe", "true", "", ["n"], {"ok": 1})], "phases succeeded"),
    ([("probe", "true", "", ["z"], "other"), ("probe", "true", "", ["n"], {"ok": None})], "phases succeeded"),
    ([("probe", "true", "", ["r"], {"ok": "multi\nline\nvalue"}), ("probe", "true", "", ["s"], {"ok": [0, "x"]})], "phases failed ebd::x failed"),
    ([("probe", "true", "", [], {"ok": None})], "unknown_cmd"),
]


# ---------------------------------------------------------------- the check

def run(ctx):
    from pkgcore.ebuild import ebd as ebd_mod
    from pkgcore.ebuild import ebd_ipc, processor
    from pkgcore.ebuild import const as e_const
    from pkgcore.test.misc import FakePkg

    scratch = tempfile.mkdtemp(prefix="c32-")
    try:
        _run(ctx, (processor, ebd_mod, ebd_ipc), e_const.EBD_PATH, FakePkg, scratch)
    finally:
        shutil.rmtree(scratch, ignore_errors=True)


def _run(ctx, mods, ebd_path, FakePkg, scratch):
    processor, ebd_mod, ebd_ipc = mods
    rng = ctx.rng
    t0 = time.time()
    if not check_read_function(ebd_path):
        ctx.mismatch({"file": "ebuild-daemon-lib.bash"}, "__ebd_read_array / __ipc_exit no longer read the reply the way the model assumes")
    pkg = FakePkg("cat/pkg-1", eapi="8")
    work = os.path.join(scratch, "work")
    os.makedirs(work)
    sess = Session(mods, scratch)

    # ---- _encode_ret, directly
    enc_cases = [None, 0, 1, -5, 12345678901234567890, "", "x", "a\nb", "\n", "é", "a\x07b", "back\\", (0, ""), (1, "m\nn"), (255, "é\n"),
                 (-2, "neg"), ("0", "string code")]
    reqs = []
    for r in enc_cases:
        if isinstance(r, tuple) and not isinstance(r[0], int):
            continue
        reqs.append({"cmd": "c32.encode", "ret": list(r) if isinstance(r, tuple) else r})
    enc_ok = [r for r in enc_cases if not (isinstance(r, tuple) and not isinstance(r[0], int))]
    for r, rep in zip(enc_ok, ctx.model(reqs)):
        real = str(ebd_ipc.IpcCommand._encode_ret(r))
        case = {"kind": "encode", "ret": repr(r)}
        ctx.case(case, isinstance(r, (str, tuple)) and "\n" in str(r))
        if "\n" in real:
            ctx.violation(case, f"_encode_ret gives a multi-line reply {real!r}")
        elif rep == "bad-op" or rep[0] != real:
            ctx.mismatch(case, f"_encode_ret gives {real!r}, the model {rep!r}")

    # ---- probe sessions
    sessions = []
    if ctx.replay_cases:
        sessions += [c for c in ctx.replay_cases if isinstance(c, dict) and c.get("kind") == "probe"]
    classes = error_subclasses(ebd_ipc)
    ctx.extra["error_subclasses"] = sorted(classes)
    corpus = list(PROBE_CORPUS)
    for cname in sorted(classes):
        # the module's own error subclasses (built from one list), raised by a fatal and by a nonfatal request
        for nf in ("false", "true"):
            corpus.append(([("probe", nf, "", ["u" + cname], subclass_outcome(classes, cname, ["--bogus", "-z"])),
                            ("probe", "true", "", ["n"], {"ok": None})], "phases succeeded"))
    for reqs_, term in corpus:
        script, lines, rq, splits = {"__default__": {"ok": None}}, [], [], {}
        for name, nf, opts, args, out in reqs_:
            argline = "".join(a + "\0" for a in args)
            script["\0".join(args)] = out
            try:
                splits[opts.strip()] = [shlex.split(opts.strip()), ""]
            except ValueError as e:
                splits[opts.strip()] = [None, str(e)]
            lines += [name, nf, work, "install", opts, argline]
            rq.append({"name": name, "nonfatal": nf, "cwd": work, "options": opts, "args": args, "outcome": out})
        sessions.append({"kind": "probe", "lines": lines + [term], "requests": rq, "script": script, "splits": splits, "badcwds": [],
                         "terminator": term})
    for i in range(ctx.n(500, 8000)):
        sessions.append(gen_probe_session(rng, i, work, classes))

    mreqs, results = [], []
    for s in sessions:
        Probe = make_probe(ebd_ipc, s["script"])
        Probe.seen = []
        op = Op(pkg, os.path.join(scratch, "image") + "/")
        handlers = {"probe": Probe(op), "other_helper": Probe(op)}
        results.append(sess.run(pkg, handlers, s["lines"]) + (Probe.seen,))
        mreqs.append({"cmd": "c32.session", "helpers": ["probe", "other_helper"], "lines": s["lines"],
                      "splits": [[k, v[0], v[1]] for k, v in s["splits"].items()], "badcwds": s["badcwds"],
                      "default": s["script"]["__default__"],
                      "outcomes": [[k, v] for k, v in s["script"].items() if k != "__default__"]})
    mreps = ctx.model(mreqs)
    streams, stream_info = [], []
    for s, (end, replies, left, exc, seen), m in zip(sessions, results, mreps):
        case = {"kind": "probe", "lines": s["lines"], "requests": s["requests"], "script": s["script"], "splits": s["splits"],
                "badcwds": s["badcwds"], "terminator": s["terminator"]}
        failing = any(r["outcome"] == "other" or "err" in r["outcome"] for r in s["requests"])
        ctx.case(case, failing, key=repr(s["lines"]))
        ctx.count("probe_requests_%d" % len(s["requests"]))
        ctx.count("end_" + (end if isinstance(end, str) else "finished_%s" % end["finished"]))
        if m == "bad-op":
            ctx.mismatch(case, "driver rejected the session")
            continue
        if replies is None:
            ctx.mismatch(case, "run_generic_phase never reached start_processing")
            continue
        real_replies = replies.decode("utf-8", "surrogateescape").split("\n")
        if real_replies[-1] != "":
            ctx.violation(case, "the last reply is not newline terminated")
            continue
        real_replies = real_replies[:-1]
        real_left = left.decode("utf-8", "surrogateescape").split("\n")[:-1] if left else []
        # the requests that were processed = those up to and including the first one that fails the build
        n_proc = 0
        for r in s["requests"]:
            n_proc += 1
            o = _effective(r, s)
            if o == "other" or ("err" in o and r["nonfatal"].strip() != "true"):
                break
        # edge C: one single-line reply per processed request (the number of lines in the reply stream)
        if len(real_replies) != n_proc:
            ctx.violation(case, f"{n_proc} requests were processed but {len(real_replies)} reply lines were written: {real_replies!r}")
            continue
        # edge A: model
        if m["replies"] != real_replies:
            ctx.mismatch(case, f"replies {real_replies!r}, model {m['replies']!r}")
        elif m["left"] != real_left and not (m["end"] == "eof" and real_left == []):
            ctx.mismatch(case, f"left unread {real_left!r}, model {m['left']!r}")
        elif (("unhandled" if isinstance(m["end"], dict) and "unhandled" in m["end"] else m["end"]) != end):
            ctx.mismatch(case, f"session ended with {end!r} ({type(exc).__name__}: {str(exc)[:80]}), model {m['end']!r}")
        for r, rep in zip(s["requests"], real_replies):
            ctx.count("outcome_" + ("other" if r["outcome"] == "other" else next(iter(r["outcome"]))))
            if "err" in (r["outcome"] if isinstance(r["outcome"], dict) else {}):
                if r["outcome"]["err"][0] == 0:
                    ctx.note("an IpcCommandError with code 0 was generated")
        streams.append((replies + b"SENTINEL\n", len(real_replies)))
        stream_info.append((case, s, real_replies))
    # the real bash reads the replies: one per request, truthful status, pipe left at the sentinel
    mread = ctx.model([{"cmd": "c32.read", "pipe": st[0].decode("latin-1"), "n": st[1]} for st in streams])
    for (case, s, real_replies), (rs, rest, eof), mr in zip(stream_info, bash_decode(ebd_path, streams), mread):
        dangling = any(_dangling(r) for r in real_replies)
        if dangling:
            ctx.count("reply_with_dangling_backslash")
            continue          # outside the guard of reply_read_exactly_partial (only the probe can produce it)
        if eof or rest != b"SENTINEL\n" or len(rs) != len(real_replies):
            ctx.violation(case, f"bash read {len(rs)} replies for {len(real_replies)} requests and left {rest[:60]!r} in the pipe")
            continue
        want = []
        for r in s["requests"][:len(rs)]:
            o = _effective(r, s)
            if o == "other" or "err" in o:
                want.append(False)
            elif isinstance(o["ok"], list):
                want.append(str(o["ok"][0]) == "0")
            else:
                want.append(True)
        got = [st == b"0" for _, st in rs]
        if got != want:
            ctx.violation(case, f"bash sees success flags {got}, the actions' outcomes are {want}")
        elif mr is None or mr[0] != got or mr[1] != "SENTINEL\n":
            ctx.mismatch(case, f"the model's `read` gives {mr!r}, bash gives {got} and leaves the sentinel")
    ctx.extra["probe_sessions"] = len(sessions)
    t = ctx.extra.setdefault("timing_s", {})
    t["probe"] = round(time.time() - t0, 1)
    t0 = time.time()
    _install_fallback(ctx, mods, pkg, scratch, rng)
    t["install_fallback"] = round(time.time() - t0, 1)
    t0 = time.time()
    _real_helpers(ctx, mods, ebd_path, pkg, scratch, rng, sess)
    t["real_helpers"] = round(time.time() - t0, 1)
    t0 = time.time()
    _dir_creation(ctx, mods, ebd_path, pkg, scratch, rng, sess)
    t["dir_creation"] = round(time.time() - t0, 1)
    t0 = time.time()
    _parse_failures(ctx, mods, ebd_path, pkg, scratch, rng, sess)
    t["parse_failures"] = round(time.time() - t0, 1)


def _effective(r, s):
    """outcome of a probe request as the handler sees it: unparsable options win, then a vanished cwd, then the script"""
    if s["splits"][r["options"].strip()][0] is None:
        return {"err": [1, "invalid options"]}
    if r["cwd"] in s["badcwds"]:
        return "other"
    return r["outcome"]


def _dangling(reply):
    # a backslash quotes the next character: scan forward
    pending = False
    for ch in reply:
        pending = (not pending) and ch == "\\"
    return pending


def _install_fallback(ctx, mods, pkg, scratch, rng):
    """_install_cmd / _install_dirs_cmd with a scripted spawn_get_output vs installGroups"""
    processor, ebd_mod, ebd_ipc = mods
    from snakeoil.process import spawn
    ed = os.path.join(scratch, "img2") + "/"
    os.makedirs(ed, exist_ok=True)
    src = os.path.join(scratch, "srcfile")
    open(src, "w").write("x")
    cases = [[(0, [])], [(1, ["install: cannot stat 'a'\n"])], [(0, []), (0, [])], [(0, []), (2, ["l1\n", "l2\n"])], [(1, []), (0, [])],
             [(127, ["sh: install: not found\n"])]]
    for _ in range(ctx.n(60, 600)):
        cases.append([(rng.choice([0, 0, 0, 1, 2, 64]), [rng.choice(["a\n", "b c\n", "é\n", ""]) for _ in range(rng.randint(0, 3))])
                      for _ in range(rng.randint(1, 4))])
    reps = ctx.model([{"cmd": "c32.install", "groups": [[c, o] for c, o in g]} for g in cases])
    saved = spawn.spawn_get_output
    try:
        for groups, rep in zip(cases, reps):
            calls = []

            def fake(cmd, **kw):
                calls.append(cmd)
                return groups[len(calls) - 1]
            spawn.spawn_get_output = fake
            for which in ("files", "dirs"):
                calls.clear()
                op = Op(pkg, ed)
                h = ebd_ipc.Doins(op)
                h.opts = ebd_ipc.arghparse.Namespace(dest="/", insoptions=["-C"], diroptions=["-C"])
                try:
                    if which == "files":
                        # one destination per group: each (source, dest) pair with a distinct dest is one `install` call
                        h._install_cmd().send([(src, f"d{i}") for i in range(len(groups))])
                    else:
                        if len(groups) != 1:
                            continue
                        h._install_dirs_cmd().send(["dd"])
                    real = {"ok": None}
                except ebd_ipc.IpcCommandError as e:
                    real = {"err": [e.code, e.msg]}
                case = {"kind": "install-" + which, "groups": groups}
                ctx.case(case, any(c for c, _ in groups), key=which + repr(groups))
                ctx.count("install_fallback_" + which)
                executed = groups[:len(calls)]
                all_ok = all(c == 0 for c, _ in executed)
                if ("ok" in real) != all_ok:
                    ctx.violation(case, f"`install` exit statuses {[c for c, _ in executed]} but the helper reports {real}")
                elif "err" in real and real["err"][0] == 0:
                    ctx.violation(case, "a failure is reported with code 0 (reads as success on the bash side)")
                elif rep == "bad-op" or rep[0] != real:
                    ctx.mismatch(case, f"the fallback gives {real}, the model {rep!r}")
    finally:
        spawn.spawn_get_output = saved


ERRNOS = [errno.ENOSPC, errno.EACCES, errno.EROFS, errno.EIO, errno.EDQUOT]


class OsFaults:
    """os-level fault injection: while active, the primitives `shutil.copyfile`, `os.mkdir` (hence `os.makedirs` and every
    library routine creating directories), `os.chmod`/`os.lchown`/`os.chown` and the link function of dosym raise
    OSError(errno) when the path they are asked to touch contains one of the registered markers."""

    def __init__(self, ebd_ipc, faults):
        # faults: list of (primitive class, path marker, errno); classes: copyfile, mkdir, attr, symlink
        self.ebd_ipc = ebd_ipc
        self.bad = {}
        for prim, marker, eno in faults:
            self.bad.setdefault(prim, []).append((marker, eno))
        self.hits = []

    def _wrap(self, prim, orig, argno):
        bad = self.bad.get(prim, [])

        def f(*a, **kw):
            path = os.fspath(a[argno])
            if isinstance(path, bytes):
                path = os.fsdecode(path)
            for marker, eno in bad:
                if (marker + "/") in path + "/":
                    self.hits.append((prim, path))
                    raise OSError(eno, os.strerror(eno), path)
            return orig(*a, **kw)
        return f

    def __enter__(self):
        ebd_ipc = self.ebd_ipc
        self.saved = (shutil.copyfile, os.mkdir, os.chmod, os.lchown, os.chown, ebd_ipc.Dosym._link)
        if "copyfile" in self.bad:
            shutil.copyfile = self._wrap("copyfile", self.saved[0], 1)
        if "mkdir" in self.bad:
            os.mkdir = self._wrap("mkdir", self.saved[1], 0)
        if "attr" in self.bad:
            os.chmod = self._wrap("attr", self.saved[2], 0)
            os.lchown = self._wrap("attr", self.saved[3], 0)
            os.chown = self._wrap("attr", self.saved[4], 0)
        if "symlink" in self.bad:
            ebd_ipc.Dosym._link = staticmethod(self._wrap("symlink", self.saved[5], 1))
        return self

    def __exit__(self, *a):
        shutil.copyfile, os.mkdir, os.chmod, os.lchown, os.chown, self.ebd_ipc.Dosym._link = self.saved


FILE_MODE, DIR_MODE = 0o640, 0o750      # differ from what the umask alone would give, so a skipped chmod shows on disk


def _real_helpers(ctx, mods, ebd_path, pkg, scratch, rng, sess):
    """request sequences against ONE set of long-lived helper objects (as in a build: ebd.__init__ creates them once),
    on one image directory; earlier requests fail nonfatally inside each of the helpers' coroutines (file install,
    directory creation, symlink install, recursive walk), later valid requests must still be served truthfully."""
    processor, ebd_mod, ebd_ipc = mods
    work = os.path.join(scratch, "rwork")
    os.makedirs(work)
    for n in ("f1", "f2", "doc.txt"):
        open(os.path.join(work, n), "w").write("content of " + n)
    # treeA: files, a sub directory, a symlink to a directory (handled by install_symlinks); treeB: a dangling symlink
    os.makedirs(os.path.join(work, "treeA/sub"))
    open(os.path.join(work, "treeA/a.txt"), "w").write("content of a")
    open(os.path.join(work, "treeA/sub/b.txt"), "w").write("content of b")
    os.symlink("sub", os.path.join(work, "treeA/dlink"))
    os.makedirs(os.path.join(work, "treeB"))
    open(os.path.join(work, "treeB/ok.txt"), "w").write("content of ok")
    os.symlink("missing-target", os.path.join(work, "treeB/broken"))

    ed = os.path.join(scratch, "image-long") + "/"
    os.makedirs(ed)
    old_umask = os.umask(0o022)
    try:
        _real_helper_sessions(ctx, mods, ebd_path, pkg, rng, sess, work, ed)
    finally:
        os.umask(old_umask)


def _real_helper_sessions(ctx, mods, ebd_path, pkg, rng, sess, work, ed):
    processor, ebd_mod, ebd_ipc = mods
    op = Op(pkg, ed)
    handlers = {"doins": ebd_ipc.Doins(op), "dodoc": ebd_ipc.Dodoc(op), "doexe": ebd_ipc.Doexe(op), "dodir": ebd_ipc.Dodir(op),
                "keepdir": ebd_ipc.Keepdir(op), "dosym": ebd_ipc.Dosym(op), "dohard": ebd_ipc.Dohard(op)}

    def make_request(si, i, kind, mode, nonfatal):
        """-> (lines, request record); the expectation is only informational, truth comes from the disk"""
        dest = f"/s{si}_d{i}"
        root = ed + dest.lstrip("/")
        ins = {"fallback_ok": "-m0640 -C", "fallback_bad": "-m0640 --bogus-option"}.get(mode, "-m0640")
        if mode in ("blocked", "blocked-leaf"):
            # a real obstacle in the image: a regular file where the request needs a directory
            leaf = mode == "blocked-leaf" and kind in ("dodir", "keepdir")
            os.makedirs(root if leaf else os.path.dirname(root), exist_ok=True)
            open(root + "/x" if leaf else root, "w").write("in the way")
        if kind in ("doins", "dodoc", "doexe"):
            srcs = ["nonexistent-file"] if mode == "missing" else ["f1"]
            opts = f'--dest="{dest}" --insoptions="{ins}"' + ('' if kind == "dodoc" else ' --diroptions=""')
            args, probe = srcs, ("file", root + "/f1")
        elif kind in ("doins-r", "dodoc-r"):
            tree = "treeB" if mode == "dangling" else "treeA"
            opts = f'--dest="{dest}" --insoptions="{ins}"' + ('' if kind == "dodoc-r" else ' --diroptions=""')
            args, probe = ["-r", tree], ("tree", root + "/" + tree)
            if mode == "linkexists":
                os.makedirs(root + "/treeA")
                os.symlink("elsewhere", root + "/treeA/dlink")      # the directory symlink cannot be created
        elif kind in ("dodir", "keepdir"):
            dirins = {"fallback_ok": "-m0750 -C", "fallback_bad": "-m0750 --bogus-option"}.get(mode, "-m0750")
            opts = f'--diroptions="{dirins}"'
            args, probe = [dest + "/x"], ("keep" if kind == "keepdir" else "dir", root + "/x")
        elif kind == "dosym":
            opts = ""
            args = ["only-one-arg"] if mode == "missing" else ["/target/of/link", dest + "/sym"]
            probe = ("link", root + "/sym")
        else:
            opts = ""
            args, probe = [dest + "/hardsrc", dest + "/hard"], ("exists", root + "/hard")     # the source does not exist
        name = kind.split("-")[0]
        lines = [name, nonfatal, work, "install", opts, "".join(a + "\0" for a in args)]
        return lines, {"name": name, "kind": kind, "nonfatal": nonfatal, "mode": mode, "options": opts, "args": args,
                       "probe": list(probe), "dest": dest}

    def on_disk(r):
        what, path = r["probe"]
        if what == "file":
            return (os.path.isfile(path) and open(path).read() == "content of f1"
                    and os.stat(path).st_mode & 0o7777 == FILE_MODE)
        if what == "tree":
            if path.endswith("treeB"):
                return False          # its dangling symlink cannot be installed (`install` semantics: stat of the source fails)
            return (os.path.isfile(path + "/a.txt") and os.path.isfile(path + "/sub/b.txt") and os.path.islink(path + "/dlink")
                    and os.readlink(path + "/dlink") == "sub")
        if what == "dir":
            return os.path.isdir(path) and os.stat(path).st_mode & 0o7777 == DIR_MODE
        if what == "keep":
            return (os.path.isdir(path) and os.stat(path).st_mode & 0o7777 == DIR_MODE
                    and any(f.startswith(".keep_") for f in os.listdir(path)))
        if what == "link":
            return os.path.islink(path) and os.readlink(path) == "/target/of/link"
        return os.path.exists(path)

    FAULT_TARGET = {"doins": "copyfile", "dodoc": "copyfile", "doexe": "copyfile", "doins-r": None, "dodoc-r": None,
                    "dodir": "mkdir", "keepdir": "mkdir", "dosym": "symlink"}
    # scripted openers: a nonfatal failure inside each coroutine, then valid requests of every kind on the same helpers
    OPENERS = [
        [("doins-r", "dangling"), ("doins-r", "py"), ("doins", "py"), ("dodoc-r", "py")],        # install + walk
        [("doins-r", "linkexists"), ("doins-r", "py"), ("dodir", "py")],                         # symlinks + walk
        [("doins-r", "fault-dirs"), ("doins-r", "py"), ("keepdir", "py")],                       # dirs + walk
        [("dodoc-r", "dangling"), ("dodoc-r", "py"), ("dodoc", "py")],
        [("doins", "fault"), ("doins", "py"), ("doins-r", "py")],
        [("doins", "fallback_bad"), ("doins", "py"), ("doins", "fallback_ok"), ("doins", "py")],
        [("dodir", "fallback_bad"), ("dodir", "py"), ("dodir", "fault"), ("dodir", "py")],
        [("dosym", "fault"), ("dosym", "py"), ("doexe", "fallback_bad"), ("doexe", "py")],
        # real obstacles and failing attribute changes, nonfatal then fatal
        [("dodir", "blocked"), ("dodir", "py"), ("keepdir", "blocked-leaf"), ("keepdir", "py"), ("doins", "blocked"), ("doins", "py")],
        [("dodir", "fault-attr"), ("dodir", "py"), ("doins", "fault-attr"), ("doins", "py"), ("dosym", "blocked"), ("dosym", "py")],
        [("dodir", "py"), ("dodir", "blocked", "false"), ("dodir", "py")],
        [("keepdir", "fault", "false"), ("keepdir", "py")],
    ]
    KINDS = ["doins", "doins", "doins-r", "doins-r", "dodoc", "dodoc-r", "doexe", "dodir", "keepdir", "dosym", "dohard"]
    streams, infos = [], []
    nsess = ctx.n(40, 500)
    for si in range(nsess):
        if si < len(OPENERS):
            plan = [(o[0], o[1], o[2] if len(o) > 2 else "true") for o in OPENERS[si]]
        else:
            plan = []
            for _ in range(rng.choice([2, 3, 4, 5])):
                kind = rng.choice(KINDS)
                if kind.endswith("-r"):
                    mode = rng.choice(["py", "py", "dangling", "linkexists", "fault-dirs", "fallback_ok"])
                else:
                    mode = rng.choice(["py", "py", "fallback_ok", "fallback_bad", "missing", "fault", "blocked"]
                                      + (["blocked-leaf", "fault-attr"] if kind in ("dodir", "keepdir") else [])
                                      + (["fault-attr"] if kind in ("doins", "dodoc", "doexe") else []))
                plan.append((kind, mode, "true" if rng.random() < 0.85 else "false"))
        lines, reqs, faults = [], [], []
        for i, (kind, mode, nonfatal) in enumerate(plan):
            l, r = make_request(si, i, kind, mode, nonfatal)
            lines += l
            reqs.append(r)
            eno = rng.choice(ERRNOS)
            if mode == "fault" and FAULT_TARGET.get(kind):
                faults.append((FAULT_TARGET[kind], r["dest"], eno))
            if mode == "fault-dirs":
                faults.append(("mkdir", r["dest"], eno))
            if mode == "fault-attr":
                faults.append(("attr", r["dest"], eno))
        lines.append("phases succeeded")

        # fault injection: a primitive fails whenever it touches the destination of a faulted request
        with OsFaults(ebd_ipc, faults):
            end, replies, left, exc = sess.run(pkg, handlers, lines)
        case = {"kind": "real", "session": si, "requests": reqs, "faults": [[f[0], f[1], errno.errorcode[f[2]]] for f in faults],
                "note": "helper objects are shared by all sessions of the run, in session order"}
        ctx.case(case, any(r["mode"] != "py" for r in reqs), key=repr(lines))
        for r in reqs:
            ctx.count("helper_" + r["kind"])
            ctx.count("mode_" + r["mode"])
        if replies is None:
            ctx.mismatch(case, "run_generic_phase never reached start_processing")
            continue
        disk = [on_disk(r) for r in reqs]
        for r, ok in zip(reqs, disk):
            ctx.count("disk_%s_%s_%s" % (r["kind"], r["mode"], "ok" if ok else "failed"))
        reply_lines = replies.decode("utf-8", "surrogateescape").split("\n")
        n_replies = len(reply_lines) - 1
        # requests processed: up to and including the first fatal failure
        n_proc = 0
        for r, ok in zip(reqs, disk):
            n_proc += 1
            if not ok and r["nonfatal"] != "true":
                break
        if reply_lines[-1] != "" or n_replies != n_proc:
            ctx.violation(case, f"{n_proc} requests should have been processed (first fatal failure included) but the reply stream is "
                                f"{reply_lines!r}; on disk the actions succeeded={disk}; session ended with {end!r} "
                                f"({type(exc).__name__}: {str(exc)[:100]})")
            continue
        fatal_failure = any((not ok) and r["nonfatal"] != "true" for r, ok in zip(reqs[:n_proc], disk))
        if fatal_failure and end != "buildFailed":
            ctx.violation(case, f"a fatal helper failure did not fail the build (session ended with {end!r})")
        if not fatal_failure and end != {"finished": True}:
            ctx.violation(case, f"no fatal failure, yet the session ended with {end!r} ({type(exc).__name__}: {str(exc)[:100]})")
        streams.append((replies + b"SENTINEL\n", n_proc))
        infos.append((case, reqs, disk))
    for (case, reqs, disk), (rs, rest, eof) in zip(infos, bash_decode(ebd_path, streams)):
        if eof or rest != b"SENTINEL\n":
            ctx.violation(case, f"after one `read` per request bash is left with {rest[:80]!r} instead of the next message")
            continue
        got = [st == b"0" for _, st in rs]
        want = disk[:len(rs)]
        if got != want:
            ctx.violation(case, f"reply statuses read by bash {[st for _, st in rs]} say success={got}, on disk the actions succeeded={want}")
    ctx.extra["real_helper_sessions"] = nsess
    ctx.traces += nsess


DIR_CONDS = ["fresh", "fresh", "existing", "blocked-parent", "blocked-leaf", "mkdir-fault", "attr-fault"]
DIR_CORPUS = [
    # (helper, diroptions given, nonfatal, condition of each requested directory)
    ("dodir", True, "true", ["fresh"]),
    ("dodir", True, "true", ["blocked-parent"]),
    ("dodir", True, "false", ["blocked-parent"]),
    ("dodir", True, "true", ["blocked-leaf"]),
    ("dodir", True, "true", ["mkdir-fault"]),
    ("dodir", True, "true", ["attr-fault"]),
    ("dodir", True, "true", ["existing", "attr-fault"]),
    ("dodir", False, "true", ["fresh", "blocked-leaf", "fresh"]),
    ("dodir", False, "true", ["attr-fault", "existing"]),
    ("keepdir", True, "true", ["fresh", "mkdir-fault"]),
    ("keepdir", True, "false", ["blocked-leaf"]),
    ("keepdir", False, "true", ["existing", "fresh"]),
    ("dodir", True, "true", ["fresh", "fresh", "blocked-parent"]),
]


def _dir_creation(ctx, mods, ebd_path, pkg, scratch, rng, sess):
    """dodir/keepdir (the Python path of `_install_dirs`) on one pair of long-lived helper objects: every requested directory
    is fresh, already there, blocked by a regular file (leaf or parent) or hit by a failing mkdir / chmod.  The reply must be
    the model's (`installDirsPy`, theorem install_dirs_truthful) and must say success exactly when every requested directory is
    on disk with the requested mode."""
    processor, ebd_mod, ebd_ipc = mods
    ed = os.path.join(scratch, "image-dirs") + "/"
    os.makedirs(ed)
    work = os.path.join(scratch, "dwork")
    os.makedirs(work)
    op = Op(pkg, ed)
    handlers = {"dodir": ebd_ipc.Dodir(op), "keepdir": ebd_ipc.Keepdir(op)}
    plans = list(DIR_CORPUS)
    for _ in range(ctx.n(40, 600)):
        plans.append((rng.choice(["dodir", "dodir", "keepdir"]), rng.random() < 0.75, "true" if rng.random() < 0.8 else "false",
                      [rng.choice(DIR_CONDS) for _ in range(rng.choice([1, 1, 2, 3]))]))
    old_umask = os.umask(0o022)
    records, mreqs, streams = [], [], []
    try:
        for ci, (helper, withopts, nonfatal, conds) in enumerate(plans):
            steps, faults, paths, targets = [], [], [], []
            for di, cond in enumerate(conds):
                marker = f"/c{ci}/d{di}"
                rel = marker + "/usr/lib"
                path = os.path.join(ed, "", rel.lstrip("/"))
                mk = at = None
                eno = rng.choice(ERRNOS)
                if cond == "existing":
                    os.makedirs(path, mode=0o755)
                elif cond == "blocked-parent":
                    os.makedirs(os.path.dirname(os.path.dirname(path)))
                    open(os.path.dirname(path), "w").write("in the way")
                    mk = os.strerror(errno.ENOTDIR)
                elif cond == "blocked-leaf":
                    os.makedirs(os.path.dirname(path))
                    open(path, "w").write("in the way")
                    mk = os.strerror(errno.EEXIST)
                elif cond == "mkdir-fault":
                    faults.append(("mkdir", marker, eno))
                    mk = os.strerror(eno)
                elif cond == "attr-fault":
                    faults.append(("attr", marker, eno))
                    at = os.strerror(eno)
                steps.append([repr(path), mk, at])
                paths.append(path)
                targets.append(rel)
            opts = '--diroptions="-m0750"' if withopts else '--diroptions=""'
            lines = [helper, nonfatal, work, "install", opts, "".join(a + "\0" for a in targets), "phases succeeded"]
            with OsFaults(ebd_ipc, faults):
                end, replies, left, exc = sess.run(pkg, handlers, lines)
            keep = f".keep_{pkg.category}_{pkg.PN}-{pkg.slot}"
            disk = [os.path.isdir(p_) and (not withopts or os.stat(p_).st_mode & 0o7777 == DIR_MODE)
                    and (helper != "keepdir" or os.path.isfile(os.path.join(p_, keep))) for p_ in paths]
            case = {"kind": "dirs", "helper": helper, "diroptions": opts, "nonfatal": nonfatal, "targets": targets,
                    "conditions": conds, "faults": [[f[0], f[1], errno.errorcode[f[2]]] for f in faults],
                    "note": "one Dodir and one Keepdir object serve all cases of the run, in order"}
            ctx.case(case, any(c not in ("fresh", "existing") for c in conds), key=repr((helper, withopts, nonfatal, conds)))
            for c in conds:
                ctx.count("dircond_" + c)
            ctx.count("dirs_withopts_%s" % withopts)
            records.append((case, replies, end, exc, disk, nonfatal))
            mreqs.append({"cmd": "c32.installdirs", "opts": withopts, "steps": steps})
    finally:
        os.umask(old_umask)
    decoded = bash_decode(ebd_path, [((r[1] or b"") + b"SENTINEL\n", 1) for r in records])
    for (case, replies, end, exc, disk, nonfatal), m, (rs, rest, eof) in zip(records, ctx.model(mreqs), decoded):
        if replies is None:
            ctx.mismatch(case, "run_generic_phase never reached start_processing")
            continue
        text = replies.decode("utf-8", "surrogateescape")
        if text.count("\n") != 1 or not text.endswith("\n"):
            ctx.violation(case, f"one request, but the reply stream is {text!r}")
            continue
        reply = text[:-1]
        done = all(disk)
        if eof or rest != b"SENTINEL\n" or len(rs) != 1:
            ctx.violation(case, f"after one `read` bash is left with {rest[:80]!r} instead of the next message")
            continue
        said = rs[0][1] == b"0"
        if said != done:
            ctx.violation(case, f"reply {reply!r} reads as success={said}, but on disk the requested directories are as "
                                f"requested={disk} (directory with mode {'0750' if case['diroptions'].endswith('0750\"') else 'any'}"
                                f"{', keep file' if case['helper'] == 'keepdir' else ''})")
            continue
        want_end = {"finished": True} if done or nonfatal == "true" else "buildFailed"
        if end != want_end:
            ctx.violation(case, f"directories as requested={disk}, nonfatal={nonfatal}: the session should end with {want_end!r}, "
                                f"it ended with {end!r} ({type(exc).__name__}: {str(exc)[:100]})")
            continue
        if m == "bad-op":
            ctx.mismatch(case, "driver rejected the steps")
            continue
        outcome, m_ok, m_done = m
        m_reply = "0" if "ok" in outcome else "%d\x07%s" % (outcome["err"][0], outcome["err"][1])
        if m_done != done:
            ctx.mismatch(case, f"the steps given to the model say done={m_done}, the disk says {disk}")
        elif m_reply != reply:
            ctx.mismatch(case, f"reply {reply!r}, the model of _install_dirs gives {m_reply!r}")
    ctx.extra["dir_creation_cases"] = len(plans)


class OpAll(Op):
    """what the helpers' constructors and argument parsers read from the build operation"""

    def __init__(self, pkg, ed, tmp):
        super().__init__(pkg, ed)
        self.env = {"T": tmp, "DISTDIR": tmp, "EPREFIX": "", "ROOT": "/", "EROOT": "/", "SYSROOT": "/", "ESYSROOT": "/", "ED": ed,
                    "WORKDIR": tmp}
        self.domain = None
        self._ipc_helpers = {}


def all_helpers(ebd_ipc, op):
    """one object of every concrete helper class of the module, keyed by its command name (introspection)"""
    import inspect
    out = {}
    for n, cls in sorted(inspect.getmembers(ebd_ipc, inspect.isclass)):
        if issubclass(cls, ebd_ipc.IpcCommand) and cls is not ebd_ipc.IpcCommand and not n.startswith("_") \
                and cls.__module__ == ebd_ipc.__name__:
            h = cls(op)
            out[n.lower() if not hasattr(cls, "name") else cls.name] = h
    op._ipc_helpers = out
    return out


def _bad_requests(h, work_files, work):
    """requests that the helper's own declared interface (its argparse parsers, read by introspection) cannot accept:
    -> list of (mode, options, args)"""
    out = []
    ap = getattr(h, "arg_parser", None)
    work_files = [os.path.join(work, f) for f in work_files]
    known_flags = set()
    positionals = []
    if ap is not None:
        for a in ap._actions:
            known_flags.update(a.option_strings)
            if not a.option_strings:
                positionals.append(a)
    flag = next(f for f in ("-Z", "-Q", "-J", "--c32-no-such-flag") if f not in known_flags)
    open_ended = any(a.nargs in ("+", "*") for a in positionals)
    fixed = sum(a.nargs if isinstance(a.nargs, int) else 1 for a in positionals if a.nargs not in ("+", "*", "?"))
    def value_for(a, i):
        # a value the positional's declared type accepts (an existing file, an atom, ...), so that only the extra is wrong
        for cand in [work_files[i % len(work_files)], "dev-libs/c32"]:
            try:
                if a.type is not None:
                    a.type(cand)
                return cand
            except Exception:  # noqa
                continue
        return work_files[0]
    good = []
    for a in positionals:
        good += [value_for(a, len(good) + k) for k in range(a.nargs if isinstance(a.nargs, int) else 1)]
    if hasattr(h, "parser"):
        # an internal option the helper does not have
        out.append(("unknown-option", '--dest="/pf" --c32-no-such-option=1', good))
        out.append(("unknown-option-only", "--c32-no-such-option", good))
    if ap is not None and h.name != "eapply":       # eapply hands leading dash options on to patch(1): not its own interface
        # free-form target lists (dodir, docompress, ...) take any word, also one that looks like a flag
        if all(a.type is not None for a in positionals if a.nargs in ("+", "*")):
            out.append(("unknown-flag", "", [flag] + good))
        if not open_ended:
            out.append(("surplus-argument", "", good + ["surplus"]))
            out.append(("surplus-arguments", "", good + ["surplus", "é more"]))
        if positionals:
            out.append(("no-arguments", "", []))
    return out


def _parse_failures(ctx, mods, ebd_path, pkg, scratch, rng, sess):
    """for EVERY helper of the module: requests that fail in option/argument parsing (unknown internal option, unknown flag,
    surplus positional arguments, no arguments), nonfatal and fatal, on one set of long-lived helper objects; after a nonfatal
    one a valid dodir follows.  Each must get exactly one single-line reply that reads as failure; the nonfatal ones let the
    session go on (and the dodir is done and answered 0), the fatal ones fail the build."""
    processor, ebd_mod, ebd_ipc = mods
    ed = os.path.join(scratch, "image-pf") + "/"
    work = os.path.join(scratch, "pfwork")
    os.makedirs(ed)
    os.makedirs(work)
    files = ["pf1", "pf2"]
    for n in files:
        open(os.path.join(work, n), "w").write("content of " + n)
    handlers = all_helpers(ebd_ipc, OpAll(pkg, ed, work))
    ctx.extra["helpers_with_parse_failure_requests"] = sorted(handlers)
    plans = []
    for name in sorted(handlers):
        for mode, opts, args in _bad_requests(handlers[name], files, work):
            plans.append((name, mode, opts, args))
    records, streams = [], []
    thorough = ctx.n(0, 1)
    for pi, (name, mode, opts, args) in enumerate(plans):
        nfs = ["false", "true"] if (thorough or mode in ("unknown-option", "unknown-flag", "surplus-argument")
                                    or rng.random() < 0.3) else [rng.choice(["false", "true"])]
        for nonfatal in nfs:
            d = f"/pf{pi}_{nonfatal}/dir"
            lines = [name, nonfatal, work, "install", opts, "".join(a + "\0" for a in args),
                     "dodir", "true", work, "install", "", d + "\0", "phases succeeded"]
            before = _tree(ed)
            end, replies, left, exc = sess.run(pkg, handlers, lines)
            after = _tree(ed)
            case = {"kind": "parse-failure", "helper": name, "mode": mode, "nonfatal": nonfatal, "options": opts, "args": args,
                    "lines": lines, "note": "one object per helper serves all cases of the run, in order"}
            ctx.case(case, True, key=repr((name, mode, nonfatal)))
            ctx.count("parsefail_" + mode)
            ctx.count("parsefail_helper_" + name)
            if replies is None:
                ctx.mismatch(case, "run_generic_phase never reached start_processing")
                continue
            new = sorted(after - before)
            want_new = [ed + d.lstrip("/")] if nonfatal == "true" else []
            new_leaves = [p_ for p_ in new if not any(q.startswith(p_ + "/") for q in new)]
            text = replies.decode("utf-8", "surrogateescape")
            reply_lines = text.split("\n")
            n_want = 2 if nonfatal == "true" else 1
            info = f"session ended with {end!r} ({type(exc).__name__}: {str(exc)[:100]})"
            if reply_lines[-1] != "" or len(reply_lines) - 1 != n_want:
                ctx.violation(case, f"{n_want} request(s) had to be answered (the first one is not acceptable to {name}: {mode}) but the "
                                    f"reply stream is {reply_lines!r}; {info}")
                continue
            if new_leaves != want_new:
                ctx.violation(case, f"the image gained {new_leaves!r}, expected {want_new!r} (the rejected request must do nothing, "
                                    f"the dodir after a nonfatal failure must be done); replies {reply_lines!r}; {info}")
                continue
            want_end = {"finished": True} if nonfatal == "true" else "buildFailed"
            if end != want_end:
                ctx.violation(case, f"the session should end with {want_end!r}; {info}; replies {reply_lines!r}")
                continue
            records.append((case, n_want))
            streams.append((replies + b"SENTINEL\n", n_want))
    for (case, n_want), (rs, rest, eof) in zip(records, bash_decode(ebd_path, streams)):
        if eof or rest != b"SENTINEL\n" or len(rs) != n_want:
            ctx.violation(case, f"after one `read` per request bash is left with {rest[:80]!r} instead of the next message")
            continue
        got = [st == b"0" for _, st in rs]
        want = [False, True][:n_want]
        if got != want:
            ctx.violation(case, f"reply statuses read by bash {[st for _, st in rs]} say success={got}, the truth is {want}")
    ctx.extra["parse_failure_cases"] = len(records)


def _tree(root):
    out = set()
    for dp, dns, fns in os.walk(root):
        for n in dns + fns:
            out.add(os.path.join(dp, n))
    return out
