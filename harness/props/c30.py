"""C30 — world-file updates record exactly the requested entries, atomically."""
import os
import shutil
import tempfile
from unittest import mock

PID = "C30"
LEAN_MODULES = ["Pkgcore.Props.C30"]
OBLIGATIONS = [
    "Pkgcore.C30.world_add_exact",
    "Pkgcore.C30.world_remove_exact",
    "Pkgcore.C30.others_intact",
    "Pkgcore.C30.entry_identifies_name_and_slot",
    "Pkgcore.C30.flush_atomic",
    "Pkgcore.C30.flush_discard_keeps_old",
    "Pkgcore.C30.update_worldset_persists",
    "Pkgcore.C30.update_sequence_exact",
    "Pkgcore.C30.failed_flush_never_loses_entries",
    "Pkgcore.C30.failed_flush_keeps_file",
    "Pkgcore.C30.unfixed_modify_counterexample",
]
TRUSTED = [
    "lexing of the world file (readlines_ascii: split on newlines + strip; '\\n'.join on write) is modelled as a list of stripped lines; "
    "the harness splits/strips the real text the same way before handing it to the model",
    "atom(text)/str(atom) round-trip and atom equality = text equality on the canonical entry texts that occur (subject of C02/C03); "
    "checked for every generated entry, non-canonical ones are never generated",
    "snakeoil AtomicWriteFile as the op sequence open(tmp,'w'), chmod, chown, buffered writes reaching the file at close, rename(tmp, path); "
    "the real sequence of OS-level calls is recorded on every flush and compared with the model's; rename(2) is atomic",
    "table valid_slot_chars regenerated from pkgcore.ebuild.atom on every run; the forbidden first characters are probed through atom()",
]
ASSUMPTIONS = [
    "the world file exists and every line of it is a comment, blank, an @set reference or a valid atom (otherwise loading raises and nothing is written)",
    "WorldFile is used without a config that resolves nested sets: '@set' lines are dropped on the next flush, as the code's own warning says "
    "('it will be wiped on update'); comments and blank lines are not entries and are dropped as well",
    "only name and slot of the given atom matter (version, USE deps, sub-slot, slot operator and repo id are ignored by _modify by design)",
]
RULE = ("a case = an existing world file (1-12 lines: plain, slotted, versioned, USE-dep and repo-id atoms, comments, blanks, @sets, padded and duplicate "
        "lines, with/without trailing newline) + 1-6 update_worldset/add/remove requests with atoms whose slot is absent, '0', one character, "
        "multi-character, dotted, with sub-slot/operator/version/USE decorations; removals aim at recorded entries 2/3 of the time; every flush is "
        "traced at OS-call level and every crash point is read back by a fresh WorldFile; non-trivial = at least one request changed the file and "
        "at least one atom had a multi-character or '0' slot or a pre-existing entry for the same name; key = file lines + requests")
LEVEL_TEXT = ("Kernel-checked Lean 4 theorems about a model of WorldFile._modify/add/remove, FileList._parse/flush (AtomicWriteFile) and "
              "pmerge.update_worldset: adding/removing changes exactly the entry `name` or `name:slot` for every valid slot string "
              "(world_add_exact, world_remove_exact), every other entry stays (others_intact; entries determine name and slot), every prefix of "
              "flush's file operations leaves the old or the complete new file and only the temp file is otherwise touched (flush_atomic, "
              "flush_discard_keeps_old), and any request sequence with flushes ends, in memory and in a fresh parse of the file, with exactly "
              "the entries the requests describe (update_worldset_persists, update_sequence_exact). Tied to the code by running the real "
              "WorldFile/update_worldset on generated files and atoms, tracing the OS calls of each flush, reading each crash point back with a "
              "fresh WorldFile, and comparing with the model and with an independent oracle.")
LEVEL_NOTE = ("Trusted: Lean kernel; standard axioms only; line lexing and atom text round-trip (sampled); AtomicWriteFile's call sequence "
              "(recorded and compared each run); atomicity of rename(2).")

CATS = ["dev-util", "dev-libs", "sys-apps", "x11-base", "dev-lang", "app-misc", "virtual", "a", "media-libs", "net_misc", "x"]
PKGS = ["bsdiff", "diffball", "xorg-x11", "python", "libfoo", "b", "foon", "lib", "mylib", "c++tools", "gtk+", "foo-bar", "z9", "pkg_x", "Foo_bar", "lib1-2x"]
SLOTS = ["0", "1", "2", "3", "9", "a", "10", "00", "01", "3.11", "2.7", "0.1", "1.0.2", "stable", "1_2", "a+b", "2-r1", "0a", "30", "100", "3.11.0_p1", "_x", "+"]


def gen_tables(repo):
    from pkgcore.ebuild import atom as atom_mod
    chars = sorted(atom_mod.valid_slot_chars)
    bad = []
    for c in chars:
        try:
            atom_mod.atom("a/b:" + c + "1")
        except atom_mod.MalformedAtom:
            bad.append(c)
    q = lambda c: "'\\''" if c == "'" else "'\\\\'" if c == "\\" else "'%s'" % c
    text = ("-- GENERATED from /repo by harness/props/c30.py (gen_tables); do not edit\n"
            "namespace Pkgcore.Generated.C30\n"
            f"def validSlotChars : List Char := [{', '.join(q(c) for c in chars)}]\n"
            f"def slotBadFirst : List Char := [{', '.join(q(c) for c in bad)}]\n"
            "end Pkgcore.Generated.C30\n")
    return {"Pkgcore/Generated/C30Tables.lean": text}


# ------------------------------------------------------------------ oracle (independent of pkgcore)

def entry_of(key, slot):
    return key if slot in (None, "0") else key + ":" + slot


def lex(text):
    """what readlines_ascii(path, True) yields: lines, stripped"""
    return [l.strip() for l in text.split("\n")] if text else []


def entries_of(text):
    out = []
    for l in lex(text):
        if l and l[0] not in "#@" and l not in out:
            out.append(l)
    return out


# ------------------------------------------------------------------ generators

KEYS = []     # filled by run(): the CATS x PKGS combinations the real atom() accepts with an unchanged key


def gen_key(rng):
    return rng.choice(KEYS)


def gen_slot(rng, valid_chars, bad_first):
    k = rng.random()
    if k < 0.2:
        return None
    if k < 0.3:
        return "0"
    if k < 0.8:
        return rng.choice(SLOTS)
    n = rng.randint(1, 6)
    first = rng.choice([c for c in valid_chars if c not in bad_first])
    return first + "".join(rng.choice(valid_chars) for _ in range(n - 1))


def decorate(rng, key, slot):
    """an atom text with this key and slot plus things _modify ignores"""
    ver, use, sub, op, repo = "", "", "", "", ""
    k = rng.random()
    if k < 0.25:
        v = rng.choice(["1", "1.2", "0.4", "10.0.1_rc2", "2-r1"])
        op, ver = rng.choice(["=", ">=", "<", "~"]), "-" + v
        if op == "~":
            ver = "-" + v.split("-r")[0]
    if slot is not None and rng.random() < 0.25:
        sub = "/" + rng.choice(["1", "2.1", "abc", slot])
    if slot is not None and rng.random() < 0.15:
        sub += "="
    if rng.random() < 0.2:
        repo = "::" + rng.choice(["gentoo", "local_overlay"])
    if rng.random() < 0.2:
        use = "[" + rng.choice(["foo", "-bar", "foo,-bar", "baz?"]) + "]"
    return op + key + ver + (":" + slot + sub if slot is not None else "") + repo + use


def gen_world_lines(rng, valid_chars, bad_first):
    lines = []
    for _ in range(rng.randint(1, 12)):
        k = rng.random()
        key = gen_key(rng)
        if k < 0.35:
            lines.append(key)
        elif k < 0.6:
            s = gen_slot(rng, valid_chars, bad_first)
            lines.append(key + (":" + s if s else ""))
        elif k < 0.7:
            lines.append(rng.choice(["=", ">=", "<="]) + key + "-" + rng.choice(["1", "0.4", "2.0-r1"]))
        elif k < 0.75:
            lines.append(key + "[" + rng.choice(["foo", "-bar"]) + "]")
        elif k < 0.8:
            lines.append(key + "::gentoo")
        elif k < 0.87:
            lines.append(rng.choice(["# a comment", "#", "#dev-util/commented", "# x/y:3"]))
        elif k < 0.92:
            lines.append("")
        elif k < 0.96:
            lines.append("@" + rng.choice(["system", "world", "my-set"]))
        elif lines:
            lines.append(rng.choice(lines))           # duplicate
    return lines


def render_world(rng, lines):
    out = []
    for l in lines:
        if l and rng.random() < 0.1:
            l = rng.choice([" ", "\t", ""]) + l + rng.choice([" ", "  ", "\t"])
        out.append(l)
    return "\n".join(out) + ("\n" if rng.random() < 0.7 else "")


def gen_case(rng, valid_chars, bad_first):
    lines = gen_world_lines(rng, valid_chars, bad_first)
    text = render_world(rng, lines)
    present = entries_of(text)
    reqs = []
    for _ in range(rng.randint(1, 6)):
        remove = rng.random() < 0.4
        plain = [e for e in present if e[0] not in "=<>~" and "[" not in e and "::" not in e]
        if plain and rng.random() < (0.66 if remove else 0.3):
            e = rng.choice(plain)
            key, _, slot = e.partition(":")
            slot = slot or rng.choice([None, "0"])
        else:
            key, slot = gen_key(rng), gen_slot(rng, valid_chars, bad_first)
        if reqs and rng.random() < 0.2:      # the very same atom again (add X, remove X, add X on one object)
            prev = rng.choice(reqs)
            key, slot = prev["key"], prev["slot"]
            reqs.append({"op": "remove" if remove else "add", "key": key, "slot": slot, "atom": prev["atom"]})
        else:
            reqs.append({"op": "remove" if remove else "add", "key": key, "slot": slot, "atom": decorate(rng, key, slot)})
        e = entry_of(key, slot)
        if remove:
            present = [x for x in present if x != e]
        elif e not in present:
            present.append(e)
    return {"text": text, "reqs": reqs, "via": rng.choice(["pmerge", "pmerge", "pmerge", "api"]),
            "fresh_instance": rng.random() < 0.3, "stale_tmp": rng.random() < 0.15}


def corpus():
    R = lambda op, key, slot, atom=None: {"op": op, "key": key, "slot": slot, "atom": atom or (key + (":" + slot if slot is not None else ""))}
    base = "dev-util/bsdiff\n"
    C = lambda text, reqs, **kw: dict({"text": text, "reqs": reqs, "via": "pmerge", "fresh_instance": False, "stale_tmp": False}, **kw)
    return [
        # the defect fixed in the repo: slots handled character by character
        C(base, [R("add", "a/b", "3.11")]),
        C(base, [R("add", "a/b", "10")]),
        C("a/b:10\na/b\na/b:1\n", [R("remove", "a/b", "10")]),
        C("dev-lang/python:3.11\ndev-lang/python:3.12\n", [R("remove", "dev-lang/python", "3.11"), R("add", "dev-lang/python", "3.13")]),
        C(base, [R("add", "a/b", "00"), R("add", "a/b", "0"), R("add", "a/b", "0.1"), R("remove", "a/b", "00")]),
        # test_filelist.py scenarios
        C("dev-util/bsdiff", [R("add", "dev-util/foon", None), R("add", "dev-util/lib", None, "=dev-util/lib-1"), R("add", "dev-util/mylib", "2")], via="api"),
        C("dev-util/diffball\ndev-util/bsdiff", [R("remove", "dev-util/diffball", None, "=dev-util/diffball-0.4")], via="api"),
        C("@world\ndev-util/bsdiff", [R("add", "x/y", None)]),
        # slot 0 vs. an existing explicit :0 entry, sub-slots, operators, decorations
        C("a/b:0\na/b:1\n", [R("add", "a/b", "0"), R("remove", "a/b", "0")]),
        C(base, [R("add", "a/b", "2", "a/b:2/2.1="), R("add", "c/d", None, "c/d:="), R("add", "e/f", None, "e/f:*"), R("add", "g/h", "0", "g/h:0/1")]),
        C(base, [R("add", "a/b", "3", ">=a/b-1.2:3::gentoo[x]")]),
        # removal of something unrecorded: KeyError, no flush
        C(base, [R("remove", "x/y", None), R("remove", "dev-util/bsdiff", "2")]),
        C("# only a comment\n\n", [R("remove", "x/y", None), R("add", "x/y", "1.2.3")]),
        C("", [R("add", "x/y", None), R("remove", "x/y", None)]),
        # duplicates, padding, comments are normalised away; other entries survive
        C(" a/b \na/b\n#c\n\n=dev-util/bsdiff-0.4\nx/y[foo]\nq/r::gentoo\n", [R("add", "n/m", "1_2"), R("remove", "a/b", None)]),
        C(base, [R("add", "a/b", "3.11")], stale_tmp=True),
        C(base, [R("add", "a/b", "1"), R("add", "a/b", "1"), R("remove", "a/b", "1"), R("remove", "a/b", "1")], fresh_instance=True),
        # the same request repeated on one object: the outcome of request k must not depend on requests < k beyond the set itself
        C(base, [R("add", "a/b", "1"), R("remove", "a/b", "1"), R("add", "a/b", "1"), R("remove", "a/b", "1"), R("add", "a/b", "1")]),
        C("x/y\n", [R("add", "x/y", None), R("remove", "x/y", None), R("add", "x/y", None)]),
    ]


# ------------------------------------------------------------------ tracing a flush at OS-call level

class Tracer:
    """records every mutating OS-level call made while active, with a snapshot of the directory *before* the call"""

    def __init__(self, d, fail_at=None):
        self.d = d
        self.events = []       # (kind, names..)
        self.snaps = []        # directory content before each event
        self.fail_at = fail_at  # index of the event that raises OSError instead of executing
        self.real = {}

    def snap(self):
        out = {}
        for n in os.listdir(self.d):
            with open(os.path.join(self.d, n), "rb") as f:
                out[n] = f.read()
        return out

    def event(self, *ev):
        self.snaps.append(self.snap())
        self.events.append(ev)
        if self.fail_at is not None and len(self.events) - 1 == self.fail_at:
            raise OSError(28, "injected failure at " + ev[0])

    def rel(self, p):
        p = os.fspath(p)
        return os.path.relpath(p, self.d) if os.path.isabs(p) else p

    def __enter__(self):
        tr = self
        real_open, real_rename, real_chmod, real_chown, real_unlink = open, os.rename, os.chmod, os.chown, os.unlink

        class RecFile:
            def __init__(self, f, name):
                self._f, self._name, self._dirty = f, name, False

            def write(self, data):
                self._dirty = True
                return self._f.write(data)

            def close(self):
                if not self._f.closed:
                    if self._dirty:
                        try:
                            tr.event("write", self._name)      # the buffered data reaches the file now
                        except OSError:
                            self._dirty = False
                            self._f.close()
                            raise
                    self._dirty = False
                return self._f.close()

            def __getattr__(self, a):
                return getattr(self._f, a)

        def w_open(file, mode="r", *a, **kw):
            if any(c in mode for c in "wax+") and isinstance(file, (str, os.PathLike)):
                tr.event("open", tr.rel(file))
                return RecFile(real_open(file, mode, *a, **kw), tr.rel(file))
            return real_open(file, mode, *a, **kw)

        def w_rename(s, dst, *a, **kw):
            tr.event("rename", tr.rel(s), tr.rel(dst))
            return real_rename(s, dst, *a, **kw)

        def w_chmod(p, *a, **kw):
            tr.event("chmod", tr.rel(p))
            return real_chmod(p, *a, **kw)

        def w_chown(p, *a, **kw):
            tr.event("chown", tr.rel(p))
            return real_chown(p, *a, **kw)

        def w_unlink(p, *a, **kw):
            tr.event("unlink", tr.rel(p))
            return real_unlink(p, *a, **kw)

        self.patches = [mock.patch("snakeoil.fileutils.open", w_open, create=True), mock.patch.object(os, "rename", w_rename),
                        mock.patch.object(os, "replace", w_rename), mock.patch.object(os, "chmod", w_chmod),
                        mock.patch.object(os, "chown", w_chown), mock.patch.object(os, "unlink", w_unlink),
                        mock.patch.object(os, "remove", w_unlink)]
        for p in self.patches:
            p.start()
        return self

    def __exit__(self, *a):
        for p in reversed(self.patches):
            p.stop()
        self.final = self.snap()


# ------------------------------------------------------------------ the check

def run(ctx):
    from pkgcore.ebuild.atom import atom
    from pkgcore.ebuild import atom as atom_mod
    from pkgcore.pkgsets.filelist import WorldFile
    from pkgcore.scripts.pmerge import update_worldset

    rng = ctx.rng
    valid_chars = sorted(atom_mod.valid_slot_chars)
    bad_first = [c for c in valid_chars if _rejects(atom, "a/b:" + c + "1")]
    KEYS[:] = [c + "/" + p for c in CATS for p in PKGS if not _rejects(atom, c + "/" + p) and atom(c + "/" + p).key == c + "/" + p]
    ctx.extra["key_pool"] = len(KEYS)
    root = tempfile.mkdtemp(prefix="verif-c30-")
    gid = os.getgid()
    parse_cache = {}
    pending = []

    def fresh_parse(content):
        """what a fresh WorldFile sees in a file with this content (sorted atom texts), or an error name"""
        if content is None:
            return None
        if content not in parse_cache:
            d = tempfile.mkdtemp(dir=root)
            p = os.path.join(d, "world")
            with open(p, "wb") as f:
                f.write(content)
            try:
                parse_cache[content] = sorted(str(a) for a in WorldFile(p, gid=gid))
            except Exception as e:
                parse_cache[content] = "error:" + type(e).__name__
            shutil.rmtree(d)
        return parse_cache[content]

    def run_case(case, idx):
        d = os.path.join(root, "c%d" % idx)
        os.makedirs(d)
        path = os.path.join(d, "world")
        with open(path, "w") as f:
            f.write(case["text"])
        with open(os.path.join(d, "bystander"), "w") as f:
            f.write("do not touch\n")
        if case["stale_tmp"]:
            with open(os.path.join(d, ".update.world"), "w") as f:
                f.write("x")
        desc = {"world_text": case["text"], "requests": [[r["op"], r["atom"]] for r in case["reqs"]], "via": case["via"],
                "fresh_instance_per_request": case["fresh_instance"], "stale_tmp": case["stale_tmp"]}
        # canonical-entry premise of the model (C03's subject): every entry text round-trips
        for e in entries_of(case["text"]):
            try:
                if str(atom(e)) != e:
                    ctx.count("noncanonical_entry_skipped")
                    return
            except Exception:
                ctx.count("invalid_entry_skipped")
                return
        steps = []
        ws = WorldFile(path, gid=gid)
        expected = entries_of(case["text"])
        changed = False
        for r in case["reqs"]:
            if case["fresh_instance"]:
                ws = WorldFile(path, gid=gid)
            a = atom(r["atom"])
            if a.key != r["key"] or (a.slot or None) != r["slot"]:
                ctx.mismatch(desc, f"generator: atom({r['atom']!r}) has key {a.key!r} slot {a.slot!r}, expected {r['key']!r} {r['slot']!r}")
                return
            before = read_file(path)
            keyerror = False
            with Tracer(d) as tr:
                try:
                    if case["via"] == "pmerge":
                        update_worldset(ws, a, remove=(r["op"] == "remove"))
                        # update_worldset swallows the KeyError: detect it by the absence of a flush
                        keyerror = r["op"] == "remove" and not tr.events
                    else:
                        try:
                            (ws.remove if r["op"] == "remove" else ws.add)(a)
                            ws.flush()
                        except KeyError:
                            keyerror = True
                except Exception as e:
                    ctx.violation(desc, f"{r['op']} {r['atom']} raised {type(e).__name__}: {e}")
                    return
            after = read_file(path)
            ent = entry_of(r["key"], r["slot"])
            # ---- edge C: exactly the requested entry, everything else intact, reported KeyError iff unrecorded
            if r["op"] == "add":
                want = expected + ([ent] if ent not in expected else [])
                want_keyerror = False
            else:
                want_keyerror = ent not in expected
                want = [x for x in expected if x != ent]
            got_lines = sorted(entries_of(after.decode()))
            if keyerror != want_keyerror:
                ctx.violation(desc, f"{r['op']} {r['atom']}: KeyError={keyerror}, entry recorded before={not want_keyerror}")
            if keyerror:
                if after != before or tr.events:
                    ctx.violation(desc, f"{r['op']} {r['atom']}: nothing to remove but the file was rewritten")
            else:
                changed = True
                if got_lines != sorted(want):
                    ctx.violation(desc, f"{r['op']} {r['atom']}: file holds {got_lines}, expected exactly {sorted(want)}")
                if after.decode() != "\n".join(lex(after.decode())) or len(lex(after.decode())) != len(got_lines):
                    ctx.violation(desc, f"{r['op']} {r['atom']}: flushed file has stray/duplicate/blank lines: {after!r}")
                fp = fresh_parse(after)
                if fp != sorted(want):
                    ctx.violation(desc, f"{r['op']} {r['atom']}: a fresh WorldFile reads {fp}, expected {sorted(want)}")
                mem = sorted(str(x) for x in ws)
                if mem != sorted(want):
                    ctx.violation(desc, f"{r['op']} {r['atom']}: in-memory set {mem}, expected {sorted(want)}")
            # ---- crash points: before every OS-level call, and after the last
            snaps = tr.snaps + [tr.final]
            old_set, new_set = sorted(expected), sorted(want)
            for k, s in enumerate(snaps):
                seen = fresh_parse(s.get("world"))
                if seen != old_set and seen != new_set:
                    ctx.violation(desc, f"{r['op']} {r['atom']}: crash before OS call #{k} ({tr.events[k] if k < len(tr.events) else 'end'}) "
                                        f"leaves a world file read as {seen}; old {old_set}, new {new_set}")
                if s.get("bystander") != b"do not touch\n" or set(s) - {"world", "bystander", ".update.world"}:
                    ctx.violation(desc, f"flush touched other files: {sorted(s)}")
            if not keyerror and ".update.world" in tr.final:
                ctx.violation(desc, "temp file left behind after a completed flush")
            steps.append({"keyerror": keyerror, "events": [list(e) for e in tr.events],
                          "states": [[fresh_parse(s.get("world")), ".update.world" in s] for s in snaps],
                          "mem": sorted(str(x) for x in ws)})
            ctx.count("crash_points", len(snaps))
            ctx.count("req_%s_%s" % (r["op"], "keyerror" if keyerror else "done"))
            sl = r["slot"]
            ctx.count("slot_" + ("none" if sl is None else "zero" if sl == "0" else "1char" if len(sl) == 1 else "dotted" if "." in sl else "multichar"))
            expected = want
            ctx.traces += 1
        interesting = changed and any((r["slot"] is not None and (len(r["slot"]) > 1 or r["slot"] == "0")) or
                                      any(e.split(":")[0] == r["key"] for e in entries_of(case["text"])) for r in case["reqs"])
        ctx.case(desc, nontrivial=interesting, key=repr((lex(case["text"]), [(r["op"], r["key"], r["slot"]) for r in case["reqs"]],
                                                         case["fresh_instance"], case["stale_tmp"])))
        ctx.count("via_" + case["via"])
        ctx.count("world_entries_%d" % min(len(entries_of(case["text"])), 9))
        ctx.count("requests_%d" % len(case["reqs"]))
        for l in lex(case["text"]):
            ctx.count("line_" + ("blank" if not l else "comment" if l[0] == "#" else "set" if l[0] == "@" else "slotted" if ":" in l.replace("::", "") else
                                 "versioned" if l[0] in "=<>~" else "plain"))
        pending.append((case, desc, steps))
        shutil.rmtree(d)

    def run_fault(case, idx, fail_at):
        """a failing OS call inside flush: the error must surface and the world file must stay as it was"""
        d = os.path.join(root, "f%d" % idx)
        os.makedirs(d)
        path = os.path.join(d, "world")
        with open(path, "w") as f:
            f.write(case["text"])
        r = case["reqs"][0]
        desc = {"world_text": case["text"], "request": [r["op"], r["atom"]], "inject_oserror_at_call": fail_at}
        ws = WorldFile(path, gid=gid)
        ent = entry_of(r["key"], r["slot"])
        if r["op"] == "remove" and ent not in entries_of(case["text"]):
            shutil.rmtree(d)
            return
        raised = False
        with Tracer(d, fail_at=fail_at) as tr:
            try:
                update_worldset(ws, atom(r["atom"]), remove=(r["op"] == "remove"))
            except OSError:
                raised = True
            except Exception as e:
                ctx.violation(desc, f"unexpected {type(e).__name__}: {e}")
        del ws
        if fail_at < len(tr.events):
            ctx.count("fault_at_" + tr.events[fail_at][0])
            ctx.case(desc, nontrivial=True)
            if not raised:
                ctx.violation(desc, "an OS error inside flush was swallowed")
            if read_file(path) != case["text"].encode():
                ctx.violation(desc, f"a failed flush changed the world file: {read_file(path)!r}")
            for s in tr.snaps + [tr.final]:
                if s.get("world") != case["text"].encode():
                    ctx.violation(desc, "a failed flush exposed a different world file at some point")
        shutil.rmtree(d)

    pending_discard = []
    pending_seq = []

    def gen_fault_sequence():
        """2-6 update_worldset calls on one long-lived WorldFile; 1-2 of them (never the last) meet a transient OSError in their flush;
        the faulted call is often a re-add of an entry that is already recorded"""
        case = gen_case(rng, valid_chars, bad_first)
        while len(case["reqs"]) < 2:
            case = gen_case(rng, valid_chars, bad_first)
        case["via"], case["fresh_instance"], case["stale_tmp"] = "pmerge", False, False
        present = [e for e in entries_of(case["text"]) if e[0] not in "=<>~" and "[" not in e and "::" not in e]
        n = len(case["reqs"])
        faulted = set(rng.sample(range(n - 1), min(n - 1, rng.choice([1, 1, 2]))))
        for i in faulted:
            if present and rng.random() < 0.6:
                e = rng.choice(present)
                key, _, slot = e.partition(":")
                slot = slot or rng.choice([None, "0"])
                case["reqs"][i] = {"op": rng.choice(["add", "add", "remove"]), "key": key, "slot": slot, "atom": decorate(rng, key, slot)}
            case["reqs"][i]["fail_at"] = rng.choice([3, 4, 4, 4])     # the buffered data reaching the file / the final rename
        return case

    def run_fault_sequence(case, idx):
        d = os.path.join(root, "q%d" % idx)
        os.makedirs(d)
        path = os.path.join(d, "world")
        with open(path, "w") as f:
            f.write(case["text"])
        desc = {"world_text": case["text"], "one_long_lived_WorldFile": True,
                "requests": [[r["op"], r["atom"]] + (["flush fails transiently at OS call #%d" % r["fail_at"]] if "fail_at" in r else [])
                             for r in case["reqs"]]}
        for e in entries_of(case["text"]):
            if _rejects(atom, e) or str(atom(e)) != e:
                shutil.rmtree(d)
                return
        ws = WorldFile(path, gid=gid)
        initial = set(entries_of(case["text"]))
        allowed = {}          # entry -> set of states (True = recorded) the file may show after the next successful flush
        steps = []
        ok = True
        for r in case["reqs"]:
            a = atom(r["atom"])
            ent = entry_of(r["key"], r["slot"])
            before = read_file(path)
            raised = None
            with Tracer(d, fail_at=r.get("fail_at")) as tr:
                try:
                    update_worldset(ws, a, remove=(r["op"] == "remove"))
                except OSError as e:
                    raised = e
                except Exception as e:
                    ctx.violation(desc, f"{r['op']} {r['atom']} raised {type(e).__name__}: {e}")
                    ok = False
            if not ok:
                break
            after = read_file(path)
            flushed = bool(tr.events) and raised is None
            fault_hit = "fail_at" in r and r["fail_at"] < len(tr.events)
            if fault_hit and raised is None:
                ctx.violation(desc, f"{r['op']} {r['atom']}: the injected OSError inside flush was swallowed")
            cur = allowed.setdefault(ent, {ent in initial})
            want_state = r["op"] == "add"
            allowed[ent] = {want_state} if flushed else cur | {want_state}
            if not flushed:
                if after != before:
                    ctx.violation(desc, f"{r['op']} {r['atom']}: no successful flush, yet the world file changed: {after!r}")
            else:
                got = set(entries_of(after.decode()))
                for e in sorted(initial | set(allowed) | got):
                    states = allowed.get(e, {e in initial})
                    if (e in got) not in states:
                        why = "an entry nobody asked to remove was dropped" if e not in got else "an entry nobody asked to add appeared"
                        ctx.violation(desc, f"after {r['op']} {r['atom']} the world file {'lacks' if e not in got else 'has'} {e!r}: {why} "
                                            f"(file: {sorted(got)})")
                # what was just written is what every entry now *is*
                for e in set(allowed):
                    allowed[e] = {e in got} if (e in got) in allowed[e] else allowed[e]
            steps.append({"keyerror": r["op"] == "remove" and not tr.events, "file": fresh_parse(after), "mem": sorted(str(x) for x in ws),
                          "failed": fault_hit})
            ctx.count("seq_step_" + ("faulted" if fault_hit else "flushed" if flushed else "keyerror"))
        if ok:
            ctx.case(desc, nontrivial=any(st["failed"] for st in steps),
                     key=repr((lex(case["text"]), [(r["op"], r["key"], r["slot"], r.get("fail_at")) for r in case["reqs"]])))
            pending_seq.append((desc, case, steps))
        shutil.rmtree(d)


    BODY_FAULTS = [("str", RuntimeError), ("str", KeyboardInterrupt), ("str", MemoryError), ("sorted", KeyboardInterrupt),
                   ("write", OSError), ("write-partial", OSError), ("write", KeyboardInterrupt)]

    def run_body_fault(case, idx, mode, exc_cls, k):
        """a fault raised *inside the body of flush()* — while the new content is rendered (str() of the k-th entry, the sort) or
        handed to the file object (write raising before / after part of the data) — i.e. after the temp file was opened and before
        close(): the error must surface, the temp file must be discarded and the world file must keep its old content exactly
        (theorem flush_discard_keeps_old; the data is buffered, so OS-level injection alone never reaches these points)"""
        import pkgcore.pkgsets.filelist as fl_mod
        d = os.path.join(root, "b%d" % idx)
        os.makedirs(d)
        path = os.path.join(d, "world")
        with open(path, "w") as f:
            f.write(case["text"])
        if case.get("stale_tmp"):
            with open(os.path.join(d, ".update.world"), "w") as f:
                f.write("x")
        r = case["reqs"][0]
        ent = entry_of(r["key"], r["slot"])
        if r["op"] == "remove" and ent not in entries_of(case["text"]):
            shutil.rmtree(d)
            return
        for e in entries_of(case["text"]):
            if _rejects(atom, e) or str(atom(e)) != e:
                shutil.rmtree(d)
                return
        desc = {"world_text": case["text"], "request": [r["op"], r["atom"]], "fault_inside_flush_body": mode,
                "raises": exc_cls.__name__, "at_call": k, "stale_tmp": bool(case.get("stale_tmp"))}
        old_bytes = case["text"].encode()
        old_set = sorted(entries_of(case["text"]))
        ws = WorldFile(path, gid=gid)
        a = atom(r["atom"])
        state = {"armed": False, "calls": 0, "fired": False}
        real_awf = fl_mod.AtomicWriteFile
        real_str = atom.__str__

        def fire():
            state["fired"] = True
            state["armed"] = False
            raise exc_cls("injected fault in the body of flush (%s)" % mode)

        class FaultyFile:
            """the AtomicWriteFile flush() works with; arms the fault once the temp file exists"""
            def __init__(self, *args, **kw):
                self._real = real_awf(*args, **kw)
                state["armed"] = True

            def write(self, data):
                if state["armed"] and mode in ("write", "write-partial"):
                    if mode == "write-partial":
                        self._real.write(data[: max(1, len(data) // 2)])
                    fire()
                return self._real.write(data)

            def close(self):
                state["armed"] = False
                return self._real.close()

            def discard(self):
                state["armed"] = False
                return self._real.discard()

            def __getattr__(self, n):
                return getattr(self._real, n)

        def faulty_str(self_):
            if state["armed"] and mode == "str":
                state["calls"] += 1
                if state["calls"] == k:
                    fire()
            return real_str(self_)

        def faulty_sorted(*args, **kw):
            if state["armed"] and mode == "sorted":
                fire()
            return sorted(*args, **kw)

        raised = None
        with Tracer(d) as tr, mock.patch.object(fl_mod, "AtomicWriteFile", FaultyFile), \
                mock.patch.object(atom, "__str__", faulty_str), mock.patch.object(fl_mod, "sorted", faulty_sorted, create=True):
            try:
                update_worldset(ws, a, remove=(r["op"] == "remove"))
            except BaseException as e:     # noqa: B036 — KeyboardInterrupt / MemoryError are injected on purpose
                raised = e
            finally:
                state["armed"] = False
        del ws
        if not state["fired"]:            # e.g. fewer than k entries: nothing was injected, nothing to check
            shutil.rmtree(d)
            return
        ctx.count("bodyfault_%s_%s" % (mode, exc_cls.__name__))
        ctx.case(desc, nontrivial=True)
        if not isinstance(raised, exc_cls):
            ctx.violation(desc, f"a {exc_cls.__name__} raised inside flush() did not surface (got {type(raised).__name__ if raised else 'no exception'})")
        after = read_file(path)
        if after != old_bytes:
            ctx.violation(desc, f"a fault inside flush() replaced the world file although the new content was never completely written: "
                                f"{after!r} instead of the old {old_bytes!r}")
        if fresh_parse(after) != old_set:
            ctx.violation(desc, f"after a fault inside flush() a fresh WorldFile reads {fresh_parse(after)}, old set {old_set}")
        snaps = tr.snaps + [tr.final]
        for i, sn in enumerate(snaps):
            if sn.get("world") != old_bytes:
                ctx.violation(desc, f"crash point #{i} during the failed flush shows a world file different from the old one: {sn.get('world')!r}")
                break
        pending_discard.append((desc, case, [list(e) for e in tr.events],
                                [[fresh_parse(sn.get("world")), ".update.world" in sn] for sn in snaps], mode))
        shutil.rmtree(d)

    try:
        cases = corpus()
        for i in range(ctx.n(700, 12000)):
            cases.append(gen_case(rng, valid_chars, bad_first))
        if not ctx.quick():
            # bounded-exhaustive: every slot of the pool (and every 1-2 character slot over a small alphabet) x add/remove x 3 worlds
            alpha = ["0", "1", "a", ".", "_", "+", "-"]
            pool = SLOTS + [a + b for a in alpha if a not in bad_first for b in alpha] + [None]
            worlds = ["a/b\n", "a/b:1\na/b:0\na/b\n", "x/y\na/b:3.11\na/b:3\n"]
            for s in pool:
                for wtext in worlds:
                    for op in ("add", "remove"):
                        cases.append({"text": wtext + (("a/b:" + s + "\n") if (op == "remove" and s not in (None, "0")) else ""),
                                      "reqs": [{"op": op, "key": "a/b", "slot": s, "atom": "a/b" + (":" + s if s is not None else "")}],
                                      "via": "pmerge", "fresh_instance": False, "stale_tmp": False})
        for i, c in enumerate(cases):
            run_case(c, i)
        nf = 0
        for i, c in enumerate(cases[: ctx.n(40, 400)]):
            for fail_at in range(5):
                run_fault(c, nf, fail_at)
                nf += 1
        seq_corpus = [
            {"text": "app-misc/foo\ndev-libs/bar:10\n", "via": "pmerge", "fresh_instance": False, "stale_tmp": False, "reqs": [
                {"op": "add", "key": "app-misc/foo", "slot": None, "atom": "=app-misc/foo-1.0", "fail_at": 4},
                {"op": "add", "key": "sys-apps/baz", "slot": "1.2", "atom": "sys-apps/baz:1.2"}]},
            {"text": "app-misc/foo\ndev-libs/bar:10\n", "via": "pmerge", "fresh_instance": False, "stale_tmp": False, "reqs": [
                {"op": "remove", "key": "dev-libs/bar", "slot": "10", "atom": "dev-libs/bar:10", "fail_at": 4},
                {"op": "remove", "key": "dev-libs/bar", "slot": "10", "atom": "dev-libs/bar:10"},
                {"op": "add", "key": "x/y", "slot": None, "atom": "x/y", "fail_at": 3},
                {"op": "remove", "key": "app-misc/foo", "slot": None, "atom": "app-misc/foo"}]},
        ]
        for i, c in enumerate(seq_corpus + [gen_fault_sequence() for _ in range(ctx.n(150, 2500))]):
            run_fault_sequence(c, i)
        nb = 0
        for i, c in enumerate(cases[: ctx.n(60, 600)]):
            n_after = len(entries_of(c["text"])) + 1
            for mode, exc_cls in BODY_FAULTS:
                for k in ({1, (n_after + 1) // 2, n_after} if mode == "str" else {1}):
                    if mode == "str" and exc_cls is not RuntimeError and k != 1 and i % 3:
                        continue
                    run_body_fault(c, nb, mode, exc_cls, k)
                    nb += 1
    finally:
        shutil.rmtree(root, ignore_errors=True)

    # ---- edge A: the Lean model on the same inputs
    reqs = [{"cmd": "c30.update", "path": "world", "lines": lex(case["text"]), "stale_tmp": case["stale_tmp"],
             "reqs": [{"op": r["op"], "key": r["key"], "slot": r["slot"]} for r in case["reqs"]]} for case, _, _ in pending]
    for (case, desc, steps), rep in zip(pending, ctx.model(reqs)):
        if not isinstance(rep, dict):
            ctx.mismatch(desc, f"driver answered {rep!r}")
            continue
        if len(rep["steps"]) != len(steps):
            ctx.mismatch(desc, "model and implementation executed a different number of requests")
            continue
        for i, (mine, theirs) in enumerate(zip(steps, rep["steps"])):
            model_events = [[o[0]] + o[1:3] if o[0] == "rename" else [o[0], o[1]] for o in theirs["ops"]]
            model_states = [[None if w is None else sorted(w), t] for w, t in theirs["states"]]
            got = {"keyerror": mine["keyerror"], "events": mine["events"], "states": mine["states"], "mem": mine["mem"]}
            want = {"keyerror": theirs["keyerror"], "events": model_events, "states": model_states, "mem": sorted(theirs["mem"])}
            if got != want:
                diff = {k: (got[k], want[k]) for k in got if got[k] != want[k]}
                ctx.mismatch(desc, f"request #{i}: implementation vs Lean model differ in {diff}")
                break
    # ---- request sequences with transient flush failures on one WorldFile object (theorem failed_flush_never_loses_entries)
    sreqs = [{"cmd": "c30.update", "path": "world", "lines": lex(case["text"]), "stale_tmp": False,
              "reqs": [{"op": r["op"], "key": r["key"], "slot": r["slot"], "fail": st["failed"]} for r, st in zip(case["reqs"], steps)]}
             for _, case, steps in pending_seq]
    for (desc, case, steps), rep in zip(pending_seq, ctx.model(sreqs)):
        if not isinstance(rep, dict):
            ctx.mismatch(desc, f"driver answered {rep!r}")
            continue
        for i, (mine, theirs) in enumerate(zip(steps, rep["steps"])):
            want = {"keyerror": theirs["keyerror"], "mem": sorted(theirs["mem"]), "file": sorted(theirs["states"][-1][0])}
            got = {"keyerror": mine["keyerror"], "mem": mine["mem"], "file": mine["file"]}
            if got != want:
                ctx.mismatch(desc, f"request #{i}: implementation {got} vs Lean model {want}")
                break
    # ---- failed flushes (fault in the body): the real call sequence and every crash point against `discardOps` / flush_discard_keeps_old
    dreqs = [{"cmd": "c30.discard", "path": "world", "lines": lex(case["text"]), "stale_tmp": bool(case.get("stale_tmp")),
              "chunks": [["partial"]] if mode == "write-partial" else []} for _, case, _, _, mode in pending_discard]
    for (desc, case, events, states, mode), rep in zip(pending_discard, ctx.model(dreqs)):
        if not isinstance(rep, dict):
            ctx.mismatch(desc, f"driver answered {rep!r}")
            continue
        mev = [[o[0], o[1]] for o in rep["ops"]]
        mst = [[None if w is None else sorted(w), t] for w, t in rep["states"]]
        if events != mev or states != mst:
            ctx.mismatch(desc, f"failed flush: implementation calls {events} states {states} vs Lean model (discardOps) {mev} {mst}")
    # the entry function itself, over every slot seen
    slots = sorted({r["slot"] for c, _, _ in pending for r in c["reqs"] if r["slot"] is not None})
    ereqs = [{"cmd": "c30.entry", "key": "cat/pkg", "slot": s} for s in slots + [None]]
    for q, rep in zip(ereqs, ctx.model(ereqs)):
        want = entry_of("cat/pkg", q["slot"])
        if rep != [want, want]:
            ctx.mismatch({"slot": q["slot"]}, f"entry text: model/spec {rep}, oracle {want}")


def read_file(p):
    try:
        with open(p, "rb") as f:
            return f.read()
    except FileNotFoundError:
        return None


def _rejects(atom, text):
    try:
        atom(text)
        return False
    except Exception:
        return True
