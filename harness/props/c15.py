"""C15 — successful resolutions produce dependency-closed, slot-consistent plans (pkgcore.resolver.plan & co).

Also hosts the in-memory repository fixture and generators shared with C16."""
import re
import sys
from functools import partial

PID = "C15"
LEAN_MODULES = ["Pkgcore.Props.C15"]
OBLIGATIONS = [
    "Pkgcore.C15.planOk_sound",
    "Pkgcore.C15.planOk_complete",
    "Pkgcore.C15.limiter_refuses_blocked",
    "Pkgcore.C15.unforced_slot_unique",
    "Pkgcore.C15.reorder_perm",
    "Pkgcore.C15.reorder_keeps_clause",
]
TECHNIQUE = "verified certificate checker (Lean 4) deciding every plan the real resolver reports + proved planner-state invariants"
TRUSTED = [
    "the backtracking search of merge_plan itself is NOT modelled: assurance about it is per reported plan (every plan of every run is "
    "decided by the verified checker planOk), not for all inputs",
    "the flags the reorder strategy model is given (alternative is a blocker; alternative already provided = state.match_atom(a) or a in "
    "livefs_dbs) are read off the real resolver; what is modelled and proved is what the strategy does with them",
    "atom.match is re-expressed in Lean (key, version operator via C01's versionMatch, slot) and compared with the real atom.match on every "
    "atom x package of every case; dependency strings go through the real DepSet.parse / cnf_solutions",
    "serialisation of repositories and plans (harness) — cross-checked by an independent Python evaluation of the property on the real objects "
    "that has to agree with the Lean checker problem by problem",
]
ASSUMPTIONS = [
    "'packages it merges' = non-installed packages put in place by add/replace operations of state.iter_ops(True); 'installed packages it keeps' = "
    "installed packages not displaced by a replace/remove operation; blockers are counted for merged packages",
    "build-time classes (DEPEND/BDEPEND) are checked against the final package set like the others",
    "repositories: <= 6 names x <= 3 versions, 2-3 slots, one source repo + one installed repo; atoms: plain, < <= = >= > ~ with revisions and "
    "suffixes, slot deps, weak/strong blockers, any-of groups; no USE deps, no slot operators, no =* globs",
]
RULE = ("three streams of repositories (each with installed database, 1-2 targets, resolver = upgrade / min-install / empty-tree): (a) key-acyclic "
        "dependency graphs with consistent installed twins, (b) key-acyclic with installed packages whose slot/deps differ from the source twin, "
        "(c) adversarial: cycles, self-dependencies, contradictory ranges, (d) key-acyclic 'family' repositories whose dependency strings are drawn "
        "from a small per-case stock of atoms and any-of groups — the same alternatives recur (permuted, shortened, doubled) in several classes, "
        "versions and packages, as RDEPEND=\"${DEPEND}\" and version bumps make them do — including atoms nothing provides (a name no repository "
        "has, a version range or slot nobody reaches), (e) 'late-reject' repositories: highest versions given up after part of their dependencies "
        "was planned, installed packages weakly blocked by the highest versions of several targets and displaced for them, (f) 'bootstrap' "
        "repositories: multi-slot packages whose newer slots need another slot of their own name (slot dependency or version range, any class, "
        "directly or through a helper, old slot installed or not, sometimes a real cycle back), requested by unslotted/slotted/ranged atoms "
        "as targets and through multi-version consumers; after every resolution the real depset reorder strategy of the used resolver is compared "
        "with the Lean model on every clause of every package; every successful plan is decided by the Lean checker and by an "
        "independent Python evaluation; non-trivial = resolver reported success and the plan merges at least one package with a dependency clause")

CLASSES = ("depend", "bdepend", "rdepend", "idepend", "pdepend")
VERSIONS = ["1", "1.1", "1.10", "2_rc1", "2", "2-r1", "3"]
NAMES = ["b", "c", "d", "e", "f", "g"]
SUF = re.compile(r"^(alpha|beta|pre|rc|p)(\d*)$")


# ---------------------------------------------------------------- fixture: in-memory repositories of fake packages

_fx = {}


def fixture():
    """classes bound to the pkgcore tree under test (imported lazily: vlib sets sys.path first)"""
    if _fx:
        return _fx
    from pkgcore.ebuild import resolver
    from pkgcore.ebuild.atom import atom
    from pkgcore.ebuild.conditionals import DepSet
    from pkgcore.ebuild.cpv import VersionedCPV
    from pkgcore.repository.util import SimpleTree

    class Pkg(VersionedCPV):
        __slots__ = ("repo", "_d", "_deps")
        package_is_real = True

        def __init__(self, repo, meta, c, p, v):
            super().__init__(c, p, v)
            sf = object.__setattr__
            sf(self, "repo", repo)
            sf(self, "_d", meta.get(self.cpvstr, {}))
            sf(self, "_deps", {})

        def _dep(self, k):
            d = self._deps.get(k)
            if d is None:
                d = self._deps[k] = DepSet.parse(self._d.get(k, ""), atom)
            return d

        depend = property(lambda s: s._dep("depend"))
        bdepend = property(lambda s: s._dep("bdepend"))
        rdepend = property(lambda s: s._dep("rdepend"))
        pdepend = property(lambda s: s._dep("pdepend"))
        idepend = property(lambda s: s._dep("idepend"))
        slot = property(lambda s: s._d.get("slot", "0"))
        subslot = property(lambda s: s._d.get("slot", "0"))
        built = property(lambda s: s.repo.livefs)
        # USE state (only atoms with USE dependencies look at it; C16's lookup histories use them)
        use = property(lambda s: frozenset(s._d.get("use", "").split()))
        iuse = property(lambda s: frozenset(s._d.get("iuse", "").split()))
        iuse_effective = property(lambda s: frozenset(s._d.get("iuse", "").split()))

        @property
        def slotted_atom(self):
            return atom(f"{self.key}:{self.slot}")

        def __repr__(self):
            return f"{self.cpvstr}::{self.repo.repo_id}"

    def mk(repo_id, d, livefs=False):
        cp = {}
        for cpv in d:
            c = VersionedCPV(cpv)
            cp.setdefault(c.category, {}).setdefault(c.package, []).append(c.fullver)
        t = SimpleTree(cp, livefs=livefs, repo_id=repo_id)
        t.package_class = partial(Pkg, t, d)
        return t

    def build(case):
        s = mk("src", case["src"])
        v = mk("vdb", case["vdb"], livefs=True)
        if case["mode"] == "upgrade":
            r = resolver.upgrade_resolver([v], [s])
        elif case["mode"] == "min":
            r = resolver.min_install_resolver([v], [s])
        else:
            r = resolver.upgrade_resolver([v], [s], resolver_cls=resolver.empty_tree_merge_plan)
        return r, s, v

    _fx.update(atom=atom, DepSet=DepSet, VersionedCPV=VersionedCPV, build=build, mk=mk, Pkg=Pkg)
    return _fx


# ---------------------------------------------------------------- generators

def gen_atom(rng, names, blockers=True):
    n = rng.choice(names)
    k = rng.random()
    v = rng.choice(VERSIONS)
    if k < 0.42:
        s = f"a/{n}"
    elif k < 0.57:
        s = f">=a/{n}-{v}"
    elif k < 0.66:
        s = f"<a/{n}-{v}"
    elif k < 0.72:
        s = f"<=a/{n}-{v}"
    elif k < 0.80:
        s = f"=a/{n}-{v}"
    elif k < 0.85:
        s = f"~a/{n}-{v.split('-r')[0]}"
    elif k < 0.95:
        s = f"a/{n}:{rng.randint(0, 1)}"
    else:
        s = f">a/{n}-{v}:{rng.randint(0, 1)}"
    if blockers and rng.random() < 0.15:
        s = rng.choice(["!", "!", "!!"]) + s
    return s


def gen_deps(rng, allowed, names, p_rdep=0.55, p_other=0.22):
    """dependency strings; plain atoms only over `allowed` names, blockers over all `names`"""
    out = {}
    for cls in CLASSES:
        if rng.random() < (p_rdep if cls == "rdepend" else p_other):
            parts = []
            for _ in range(rng.randint(1, 2)):
                if allowed and rng.random() < 0.8:
                    if rng.random() < 0.3:
                        parts.append("|| ( " + " ".join(gen_atom(rng, allowed, blockers=rng.random() < 0.15)
                                                        for _ in range(rng.randint(2, 3))) + " )")
                    else:
                        parts.append(gen_atom(rng, allowed, blockers=False))
                if rng.random() < 0.2:
                    parts.append(rng.choice(["!", "!!"]) + gen_atom(rng, names, blockers=False))
            if parts:
                out[cls] = " ".join(parts)
    return out


def gen_case(rng, stream):
    """stream: 'dag' | 'dag-twins' | 'wild'"""
    names = NAMES[: rng.randint(2, 6 if stream != "wild" else 5)]
    src, vdb = {}, {}

    def allowed(i):
        return names if stream == "wild" else names[i + 1:]

    for i, n in enumerate(names):
        for v in rng.sample(VERSIONS, rng.randint(1, 3)):
            meta = gen_deps(rng, allowed(i), names)
            meta["slot"] = str(rng.choice([0, 0, 0, 1]))
            src[f"a/{n}-{v}"] = meta
    for i, n in enumerate(names):
        if rng.random() < 0.45:
            v = rng.choice(VERSIONS)
            cpv = f"a/{n}-{v}"
            if cpv in src and (stream == "dag" or rng.random() < 0.6):
                meta = dict(src[cpv])
            else:
                meta = gen_deps(rng, allowed(i), names)
                meta["slot"] = src[cpv]["slot"] if (cpv in src and stream == "dag") else str(rng.choice([0, 0, 1]))
            vdb[cpv] = meta
    targets = [gen_atom(rng, names, blockers=False) for _ in range(rng.randint(1, 2))]
    return {"src": src, "vdb": vdb, "targets": targets, "mode": rng.choice(["upgrade", "min", "empty"]), "stream": stream}


GHOSTS = ["n", "o"]      # names no repository of a case provides


def gen_family_case(rng):
    """key-acyclic repositories whose dependency strings come from a small per-case stock of atoms and any-of groups: the same
    alternatives recur — permuted, with one dropped, with one doubled — in several clauses, classes, versions and packages (what
    RDEPEND="${DEPEND}", shared eclass dependencies and version bumps do in real trees).  The stock contains atoms nothing provides
    (a name no repository has, a version above every version, a slot nobody uses), so that candidates fail late, alternatives are
    found hopeless at one place and met again at another, and higher versions are given up for lower ones."""
    names = NAMES[: rng.randint(3, 6)]
    vers = {n: rng.sample(VERSIONS, rng.randint(1, 3)) for n in names}

    # the hopeless atoms of the case: few, so that they are met again and again
    last = names[-1]
    deadpool = rng.sample(["a/" + GHOSTS[0], "a/" + GHOSTS[1], f">a/{last}-3", f"a/{last}:7"], rng.choice([1, 1, 2]))

    def dead(allowed):
        usable = [d for d in deadpool if last in allowed or d[2] in GHOSTS]
        return rng.choice(usable) if usable else "a/" + rng.choice(GHOSTS)

    stock = []          # any-of groups of the case: (set of real names used, [alternatives])

    def names_of(alts):
        return {re.sub(r"^[!<>=~]*a/([a-z]).*$", r"\1", a) for a in alts} - set(GHOSTS)

    def group(allowed):
        usable = [g for g in stock if g[0] <= set(allowed)]
        if usable and rng.random() < 0.7:
            alts = list(rng.choice(usable)[1])
            for _ in range(rng.randint(0, 2)):
                k = rng.random()
                if k < 0.4 and len(alts) > 2:
                    del alts[rng.randrange(len(alts)) if rng.random() < 0.4 else -1]
                elif k < 0.6:
                    rng.shuffle(alts)
                elif k < 0.8 and len(alts) < 4:
                    alts.insert(rng.randrange(len(alts) + 1), rng.choice(alts))
                elif len(alts) < 4 and allowed:
                    alts.append(gen_atom(rng, allowed, blockers=False))
        else:
            alive = [gen_atom(rng, allowed, blockers=False) for _ in range(rng.randint(1, 2))] if allowed else []
            k = rng.random()
            if k < 0.3 and len(alive) > 1:
                alts = alive
            elif k < 0.7:
                # the hopeless alternatives first: they are tried, found hopeless and remembered before the working one is reached
                alts = [dead(allowed) for _ in range(rng.randint(1, 2))] + alive
            elif k < 0.85:
                alts = [dead(allowed) for _ in range(rng.randint(1, 2))] + alive
                rng.shuffle(alts)
            else:
                alts = [dead(allowed) for _ in range(rng.randint(2, 3))]
            if len(alts) < 2:
                alts.append(dead(allowed))
        stock.append((names_of(alts), alts))
        return "|| ( " + " ".join(alts) + " )"

    def deps(allowed):
        out = {}
        for cls in CLASSES:
            if rng.random() < (0.5 if cls == "rdepend" else 0.3):
                parts = []
                for _ in range(rng.randint(1, 2)):
                    k = rng.random()
                    if k < 0.45:
                        parts.append(group(allowed))
                    elif k < 0.9 and allowed:
                        parts.append(gen_atom(rng, allowed, blockers=False))
                    elif k >= 0.9:
                        parts.append(rng.choice(["!", "!!"]) + gen_atom(rng, names, blockers=False))
                if parts:
                    out[cls] = " ".join(parts)
        if "depend" in out and rng.random() < 0.35:
            out["rdepend"] = out["depend"]
        if "bdepend" in out and rng.random() < 0.15:
            out["idepend"] = out["bdepend"]
        return out

    # an "eclass" group: the same any-of, hopeless alternatives first, inherited by many packages of the case; individual packages
    # carry it shortened or permuted
    eclass = None
    if rng.random() < 0.6:
        eclass = [dead([last]) for _ in range(rng.randint(1, 2))] + [gen_atom(rng, [last], blockers=False) for _ in range(rng.randint(1, 2))]

    def inherit(meta, allowed):
        if eclass is None or last not in allowed or rng.random() >= 0.4:
            return
        alts = list(eclass)
        k = rng.random()
        if k < 0.35:
            alts = [a for a in alts if a in deadpool]       # the working alternatives are not offered to this package
            if len(alts) < 2:
                alts.append(alts[0])
        elif k < 0.5:
            rng.shuffle(alts)
        cls = rng.choice(CLASSES)
        g = "|| ( " + " ".join(alts) + " )"
        meta[cls] = (meta[cls] + " " + g) if cls in meta and rng.random() < 0.7 else (g + " " + meta.get(cls, "")).strip()

    src, vdb = {}, {}
    for i, n in enumerate(names):
        allowed = names[i + 1:]
        prev = None
        for v in vers[n]:
            if rng.random() < 0.25:
                meta = {}                     # a plain version to fall back on
            elif prev is not None and rng.random() < 0.6:
                meta = dict(prev)             # a version bump: the dependencies of the other version, one class redone
                meta.pop("slot", None)
                cls = rng.choice(CLASSES)
                meta.pop(cls, None)
                meta.update({k: x for k, x in deps(allowed).items() if k == cls})
            else:
                meta = deps(allowed)
                inherit(meta, allowed)
            meta["slot"] = str(rng.choice([0, 0, 0, 0, 1]))
            src[f"a/{n}-{v}"] = prev = meta
    for i, n in enumerate(names):
        if rng.random() < 0.3:
            v = rng.choice(vers[n] + [rng.choice(VERSIONS)])
            cpv = f"a/{n}-{v}"
            if cpv in src:
                meta = dict(src[cpv])
            else:
                meta = deps(names[i + 1:])
                meta["slot"] = "0"
            vdb[cpv] = meta
    targets = [gen_atom(rng, names[:3], blockers=False) if rng.random() < 0.4 else "a/" + rng.choice(names[:3]) for _ in range(rng.randint(1, 2))]
    return {"src": src, "vdb": vdb, "targets": targets, "mode": rng.choice(["upgrade", "upgrade", "min", "empty"]), "stream": "family"}


def gen_reject_case(rng):
    """repositories in which candidates are given up LATE and installed packages get displaced, resolved as a sequence on one resolver:

    * late rejection: the highest version of a multi-version package has a build-time class that resolves (a version-ranged dependency
      on another multi-version package) and a later class that cannot (a name nothing provides, a range nobody reaches, a strong blocker
      on an installed package nothing replaces), so it is given up for a lower version after part of its dependencies was planned; the
      package it depended on is itself a later target;
    * blocked installed package: an installed package that the highest versions of several other packages weakly block
      (version-ranged blocker), resolved by upgrading it; those other packages are the targets;
      sometimes the upgrade sits in another slot (so the blocked package stays), sometimes the blocking version has a later class
      that cannot be resolved (so it is given up after the installed package was displaced for it);
    both with random installed versions, optional cross dependencies, random target order."""
    p, x, y, u, w, z = rng.sample(NAMES, 6)
    V = VERSIONS
    src, vdb, targets = {}, {}, []
    parts = rng.choice([("reject",), ("block",), ("reject", "block"), ("reject", "block")])
    if "reject" in parts:
        xi = sorted(rng.sample(range(len(V)), 3))
        xlo, xmid, xhi = (V[i] for i in xi)
        for v in (xlo, xmid, xhi):
            src[f"a/{x}-{v}"] = {}
        on_x = rng.choice([f"<a/{x}-{xhi}", f"<=a/{x}-{xmid}", f"=a/{x}-{xmid}", f">=a/{x}-{xmid}", f">a/{x}-{xlo}", f"a/{x}"])
        pi = sorted(rng.sample(range(len(V)), rng.randint(2, 3)))
        pv = [V[i] for i in pi]
        hopeless = rng.choice(["a/" + rng.choice(GHOSTS), f">a/{x}-{V[-1]}", f"!!a/{z}", f"|| ( a/{GHOSTS[0]} >a/{x}-{V[-1]} )"])
        if hopeless.startswith("!!"):
            vdb[f"a/{z}-1"] = {}
        top = {rng.choice(["depend", "bdepend"]): on_x, rng.choice(["rdepend", "idepend", "pdepend"]): hopeless}
        src[f"a/{p}-{pv[-1]}"] = top
        for v in pv[:-1]:
            src[f"a/{p}-{v}"] = rng.choice([{}, {}, {"rdepend": f"a/{x}"}, dict(top)])
        src[f"a/{p}-{pv[0]}"] = rng.choice([{}, {}, {"rdepend": f"a/{x}"}])
        if rng.random() < 0.5:
            vdb[f"a/{x}-{rng.choice([xlo, xlo, xmid])}"] = {}
        if rng.random() < 0.2:
            vdb[f"a/{p}-{pv[0]}"] = dict(src[f"a/{p}-{pv[0]}"])
        t = [f"a/{p}", f"a/{x}"]
        if rng.random() < 0.25:
            t.reverse()
        targets += t
    if "block" in parts:
        ylo, yhi = (V[i] for i in sorted(rng.sample(range(len(V)), 2)))
        src[f"a/{y}-{ylo}"] = {}
        src[f"a/{y}-{yhi}"] = {"slot": "1"} if rng.random() < 0.2 else {}
        vdb[f"a/{y}-{ylo}"] = {}
        blocker = rng.choice([f"!<a/{y}-{yhi}", f"!<=a/{y}-{ylo}", f"!=a/{y}-{ylo}", f"!<a/{y}-{yhi}"])
        carriers = [u, w] if rng.random() < 0.8 else [u]
        his = {}
        for c in carriers:
            lo, hi = (V[i] for i in sorted(rng.sample(range(len(V)), 2)))
            his[c] = hi
            src[f"a/{c}-{hi}"] = {rng.choice(["rdepend", "rdepend", "depend", "pdepend"]): blocker}
            if rng.random() < 0.3:
                # given up late: after the blocker was resolved by displacing the installed package
                src[f"a/{c}-{hi}"][rng.choice(["idepend", "pdepend"])] = rng.choice(["a/" + GHOSTS[0], f"|| ( a/{GHOSTS[1]} >a/{y}-{V[-1]} )"])
            src[f"a/{c}-{lo}"] = {}
            if rng.random() < 0.8:
                vdb[f"a/{c}-{lo}"] = {}
        if "reject" in parts and rng.random() < 0.3:
            src[f"a/{u}-{his[u]}"]["idepend"] = f"a/{p}"
        t = [f"a/{c}" for c in carriers]
        if rng.random() < 0.3:
            t.append(f"a/{y}")
        rng.shuffle(t)
        targets = (targets + t) if rng.random() < 0.5 else (t + targets)
    for m in list(src.values()) + list(vdb.values()):
        m.setdefault("slot", "0")
    return {"src": src, "vdb": vdb, "targets": targets[:4], "mode": "upgrade", "stream": "late-reject"}


def gen_bootstrap_case(rng):
    """multi-slot packages whose newer slots need ANOTHER SLOT OF THEIR OWN NAME (bootstrapping toolchains: a/c-2:2 DEPEND a/c:1) — in any
    dependency class, directly or through a helper package, selected by a slot dependency or by a version range; the needed slot
    installed or not; occasionally the old slot needs the new one too (a real cycle).  Such packages are requested by unslotted, slotted
    and version-ranged atoms, as targets and through multi-version consumers with plain fall-back versions."""
    t, h, x, x2, f = rng.sample(NAMES, 5)
    V = VERSIONS
    src, vdb = {}, {}
    tv = [V[i] for i in sorted(rng.sample(range(len(V)), rng.randint(2, 3)))]
    slots, s = [], 0
    for i in range(len(tv)):
        if i and rng.random() < 0.8:
            s += 1
        slots.append(s)
    cls_w = ["depend", "depend", "bdepend", "rdepend", "rdepend", "idepend", "pdepend"]
    for i, v in enumerate(tv):
        meta = {"slot": str(slots[i])}
        if i and rng.random() < 0.8:
            j = rng.randrange(i)
            on_old = rng.choice([f"a/{t}:{slots[j]}", f"a/{t}:{slots[j]}", f"<a/{t}-{v}", f"=a/{t}-{tv[j]}", f"<=a/{t}-{tv[j]}:{slots[j]}"])
            cls = rng.choice(cls_w)
            if rng.random() < 0.3:
                # through a helper: the new slot needs a tool that needs the old slot
                meta[cls] = f"a/{h}"
                src.setdefault(f"a/{h}-1", {})[rng.choice(cls_w)] = on_old
            else:
                meta[cls] = on_old
            if rng.random() < 0.12:
                src[f"a/{t}-{tv[j]}"][rng.choice(cls_w)] = f"a/{t}:{slots[i]}"       # and back: a real cycle
        if rng.random() < 0.2:
            meta.setdefault(rng.choice(CLASSES), f"a/{f}")
        src[f"a/{t}-{v}"] = meta
    src[f"a/{f}-1"] = {}
    hi = len(tv) - 1
    for n in (x, x2)[: rng.randint(1, 2)]:
        xv = [V[i] for i in sorted(rng.sample(range(len(V)), rng.randint(1, 3)))]
        for k, v in enumerate(xv):
            top = k == len(xv) - 1
            if top or rng.random() < 0.3:
                j = hi if rng.random() < 0.7 else rng.randrange(len(tv))
                on_t = rng.choice([f"a/{t}", f"a/{t}", f"a/{t}:{slots[j]}", f">=a/{t}-{tv[j]}", f"=a/{t}-{tv[j]}"])
                src[f"a/{n}-{v}"] = {rng.choice(cls_w): on_t}
            else:
                src[f"a/{n}-{v}"] = rng.choice([{}, {}, {"rdepend": f"a/{f}"}])
        if rng.random() < 0.4:
            vdb[f"a/{n}-{xv[0]}"] = dict(src[f"a/{n}-{xv[0]}"])
    if rng.random() < 0.35:
        j = rng.randrange(len(tv)) if rng.random() < 0.3 else 0
        vdb[f"a/{t}-{tv[j]}"] = {"slot": str(slots[j])}
    pool = [f"a/{x}", f"a/{x}", f"a/{t}", f"a/{t}", f"a/{t}:{slots[hi]}", f">=a/{t}-{tv[hi]}", f"a/{h}" if f"a/{h}-1" in src else f"a/{t}"]
    targets = list(dict.fromkeys(rng.choice(pool) for _ in range(rng.randint(1, 2))))
    for m in list(src.values()) + list(vdb.values()):
        m.setdefault("slot", "0")
    return {"src": src, "vdb": vdb, "targets": targets, "mode": rng.choice(["upgrade", "upgrade", "min", "empty"]), "stream": "bootstrap"}


def reorder_jobs(r, U):
    """every clause of every package, as the resolver's depset reorder strategy rewrites it right now (with whatever the resolver has
    learnt so far): [(package, class, clause, what the strategy yields, flags for the Lean model)]"""
    jobs = []
    for p in U:
        for cls in CLASSES:
            cnf = [list(cl) for cl in getattr(p, cls).cnf_solutions()]
            if not cnf:
                continue
            got = [list(x) for x in r.depset_reorder(cnf, cls)]
            if len(got) != len(cnf):
                jobs.append((p, cls, None, got, None))
                continue
            for cl, out in zip(cnf, got):
                flags = [[bool(a.blocks), bool(r.state.match_atom(a) or a in r.livefs_dbs)] for a in cl]
                jobs.append((p, cls, cl, out, flags))
    return jobs


# hand-written boundary cases (why_tests_cant + every defect found)
CORPUS = [
    # the resolver could not be instantiated at all (fix b16b7d3); IDEPEND was never resolved (fix a3468e5)
    {"src": {"a/b-1": {}, "a/b-2": {"rdepend": "a/c", "idepend": "a/i"}, "a/c-1": {}, "a/i-1": {}}, "vdb": {}, "targets": ["a/b"], "mode": "upgrade"},
    {"src": {"a/b-1": {}, "a/b-2": {"rdepend": "a/c", "idepend": "a/i"}, "a/c-1": {}, "a/i-1": {}}, "vdb": {}, "targets": ["a/b"], "mode": "min"},
    # an IDEPEND nobody provides must disqualify the candidate
    {"src": {"a/b-1": {}, "a/b-2": {"idepend": "a/nope"}}, "vdb": {}, "targets": ["a/b"], "mode": "upgrade"},
    # force_next_pkg kept the dependency lists of the candidate it gave up (fix 75cb9c5): a/d-2 cannot be inserted next to a/d-3 (same slot),
    # the next candidate a/d-1 was then planned with a/d-2's dependencies
    {"src": {"a/b-3": {"bdepend": "<a/d-3"}, "a/d-1": {"bdepend": "=a/e-1"}, "a/d-2": {"slot": "1"}, "a/d-3": {"slot": "1"}, "a/e-1": {}},
     "vdb": {}, "targets": ["a/d", "a/b"], "mode": "upgrade"},
    # installed and source package of one version in different slots, both slotted: KeyError in rollback (fix 9b18cc1)
    {"src": {"a/b-1": {}, "a/b-3": {"depend": ">=a/d-3 !=a/c-3"}, "a/c-1": {}, "a/d-1": {"rdepend": "a/f ~a/b-2", "idepend": "|| ( a/d a/e )"},
             "a/d-2": {"depend": "a/e", "bdepend": "|| ( a/b a/b ) a/b", "rdepend": "|| ( =a/d-1 a/f a/b ) || ( >a/c-2:0 >=a/c-3 !>=a/b-2 )", "slot": "1"},
             "a/d-3": {}, "a/e-2": {"depend": ">a/d-2:1", "rdepend": ">=a/e-2 =a/d-1", "slot": "1"},
             "a/e-3": {"rdepend": "~a/b-3 || ( ~a/b-2 a/d:0 >=a/c-3 )", "idepend": ">=a/c-2 >=a/d-3"}, "a/f-1": {"bdepend": "a/c", "rdepend": "a/b"},
             "a/f-2": {"rdepend": "!<a/e-3 a/e:0", "idepend": "|| ( a/e <a/b-2 a/d:0 )"}, "a/f-3": {"slot": "1"}},
     "vdb": {"a/d-3": {"rdepend": "a/d", "pdepend": "a/d a/b", "slot": "1"}, "a/e-1": {"rdepend": "<a/d-2 a/e"}}, "targets": ["a/e", "a/c"], "mode": "upgrade"},
    # a refused blocker alternative of an any-of group stayed behind as a limiter (fix b93a6a9): a/d-1's identical blocker then saw no conflict
    {"src": {"a/b-1": {"rdepend": "|| ( !!a/e a/c ) a/d"}, "a/c-1": {}, "a/d-1": {"rdepend": "!!a/e"}}, "vdb": {"a/e-1": {}}, "targets": ["a/b"], "mode": "upgrade"},
    # a second package carrying an already active blocker was accepted next to the force-loaded blocked package (fix 0a3cc5d)
    {"src": {"a/f-2": {"rdepend": "!a/d"}}, "vdb": {"a/c-1": {"rdepend": "!a/d", "pdepend": "a/f"}, "a/d-1": {}}, "targets": ["a/c"], "mode": "upgrade"},
    # upgrade of an installed package, weak blocker resolved by upgrading the blocked package, any-of with an installed alternative
    {"src": {"a/b-2": {"rdepend": "|| ( a/c a/d ) !<a/e-2"}, "a/c-1": {}, "a/d-1": {}, "a/e-1": {}, "a/e-2": {}},
     "vdb": {"a/b-1": {}, "a/d-1": {}, "a/e-1": {}}, "targets": ["a/b"], "mode": "upgrade"},
    # strong blocker on an installed package nothing can replace: must fail, not crash
    {"src": {"a/b-1": {"rdepend": "!!a/c"}}, "vdb": {"a/c-1": {}}, "targets": ["a/b"], "mode": "upgrade"},
    # slots, version ranges with suffixes and revisions, all five classes
    {"src": {"a/b-2": {"depend": ">=a/c-2_rc1", "bdepend": "a/d:1", "rdepend": "~a/e-2", "idepend": "<a/f-1.10", "pdepend": "a/g"},
             "a/c-2_rc1": {}, "a/c-1": {}, "a/d-1": {"slot": "1"}, "a/d-2": {}, "a/e-2-r1": {}, "a/e-3": {}, "a/f-1.1": {}, "a/f-1.10": {}, "a/g-1": {"rdepend": "a/b"}},
     "vdb": {}, "targets": ["a/b"], "mode": "upgrade"},
    # alternatives found hopeless while resolving a dependency (a/c's any-of) are met again in an any-of of the depending package, all of
    # them hopeless there: a/b-2 must be given up for a/b-1 — an any-of group never shrinks to "nothing left to fail"
    {"src": {"a/b-2": {"depend": "a/c", "rdepend": "|| ( a/n a/o )"}, "a/b-1": {}, "a/c-1": {"rdepend": "|| ( a/n a/o a/d )"}, "a/d-1": {}},
     "vdb": {}, "targets": ["a/b"], "mode": "upgrade"},
    {"src": {"a/b-3": {"rdepend": "a/c", "idepend": "|| ( >a/d-3 >a/d-3 )"}, "a/b-2": {"rdepend": "a/c"}, "a/b-1": {},
             "a/c-1": {"bdepend": "|| ( >a/d-3 a/d:7 a/d )"}, "a/d-1": {}}, "vdb": {"a/b-1": {}}, "targets": ["a/b"], "mode": "upgrade"},
    # a package that needs ANOTHER SLOT of its own name (bootstrapping): no cycle — both slots are merged, the old one first
    {"src": {"a/b-2": {"slot": "1", "rdepend": "a/b:0"}, "a/b-1": {}}, "vdb": {}, "targets": ["a/b"], "mode": "upgrade"},
    {"src": {"a/d-1": {"depend": "a/b", "rdepend": "a/c"}, "a/b-2": {"slot": "1", "pdepend": "<a/b-2"}, "a/b-1": {}, "a/c-1": {}}, "vdb": {"a/c-1": {}},
     "targets": ["a/d"], "mode": "min"},
    {"src": {"a/b-3": {"depend": "a/c:2"}, "a/b-1": {}, "a/c-2": {"slot": "2", "depend": "a/e"}, "a/e-1": {"bdepend": "a/c:1"}, "a/c-1": {"slot": "1"}},
     "vdb": {"a/b-1": {}}, "targets": ["a/b"], "mode": "upgrade"},
    # open finding: dependency on another version of a slot the plan fills (installed package replaced after it satisfied a dependency)
    {"src": {"a/c-1": {"rdepend": ">=a/c-3", "slot": "1"}, "a/c-3": {"slot": "1"}}, "vdb": {"a/c-3": {"slot": "1"}}, "targets": ["<a/c-2"], "mode": "upgrade"},
    # open finding: unbounded recursion through a package's own name
    # (a/b-3 fails only once a/c-1's blocker is in place; the next candidate a/b-2 needs a/b again, whose first candidate is a/b-3 ...)
    {"src": {"a/b-2": {"idepend": "a/b"}, "a/b-3": {"rdepend": "a/c", "slot": "1"}, "a/c-1": {"rdepend": "!!a/b"}}, "vdb": {}, "targets": ["a/b"], "mode": "upgrade"},
    # ... and the same through weak blockers only (each is "resolved past" by adding the other name again)
    {"src": {"a/b-2_rc1": {"rdepend": "|| ( a/c a/c a/c ) !<=a/b-1.10 || ( >a/c-2-r1:0 ~a/c-3 )", "idepend": "|| ( ~a/c-2_rc1 a/c a/c ) a/c"},
             "a/b-3": {"bdepend": "|| ( a/c a/c a/c )", "rdepend": "!a/c >=a/c-1.1", "slot": "1"}, "a/c-2_rc1": {}, "a/c-1": {"idepend": "!>=a/c-2-r1", "pdepend": "!a/b"}},
     "vdb": {"a/b-1": {"depend": ">=a/c-2 !a/c", "rdepend": "a/c"}, "a/c-3": {}}, "targets": ["a/c", "a/b"], "mode": "upgrade"},
    # open finding: a clause assumed satisfied by a package in flight that never makes it into the plan
    {"src": {"a/b-3": {}, "a/c-1": {"bdepend": "=a/c-2 >=a/d-2"}, "a/c-2": {"rdepend": "|| ( a/f ~a/f-2 >=a/d-2 ) >=a/b-1"}, "a/c-3": {"depend": "a/c =a/c-1"},
             "a/d-1": {"rdepend": "a/c >=a/d-3"}, "a/d-2": {"rdepend": "|| ( a/f >=a/f-3 >=a/b-2 )", "pdepend": "|| ( a/f =a/c-3 a/f ) <a/b-2"},
             "a/d-3": {"rdepend": "!!a/c:1"}, "a/e-1": {"rdepend": "|| ( >a/f-1:0 a/c:1 ) a/f:1"}, "a/e-2": {"rdepend": ">=a/b-3"}, "a/e-3": {},
             "a/f-2": {"depend": "!!a/b", "rdepend": "|| ( a/b =a/c-3 a/b ) !>=a/c-2", "slot": "1"}},
     "vdb": {"a/c-1": {"depend": "|| ( a/c <a/f-3 >a/d-1:0 )", "bdepend": "=a/e-1 >=a/b-3", "rdepend": "|| ( a/c:1 =a/f-3 a/e ) a/f", "slot": "1"},
             "a/f-1": {"idepend": "|| ( a/b >=a/e-2 )", "pdepend": "a/e", "slot": "1"}}, "targets": ["a/d:0"], "mode": "upgrade"},
]


# ---------------------------------------------------------------- serialisation for the Lean checker

def lex_ver(version):
    """'1.10b_rc1' -> C01 Ver structure (the real parser already split off the revision)"""
    parts = version.split("_")
    dotted = parts[0]
    letter = None
    if dotted[-1].isalpha():
        dotted, letter = dotted[:-1], dotted[-1]
    sufs = []
    for p in parts[1:]:
        m = SUF.match(p)
        sufs.append([m.group(1), m.group(2)])
    return {"comps": dotted.split("."), "letter": letter, "sufs": sufs}


class Ser:
    def __init__(self):
        self.keys = {}

    def key(self, k):
        return self.keys.setdefault(k, len(self.keys))

    def atom(self, a):
        vop = None
        if a.op:
            if a.op not in ("<", "<=", "=", ">=", ">", "~"):
                raise ValueError("operator outside the modelled fragment: " + a.op)
            vop = [a.op, lex_ver(a.version), str(a.revision or "")]
        if a.use or a.slot_operator or a.subslot or a.repo_id:
            raise ValueError("atom outside the modelled fragment: " + str(a))
        return {"blocks": bool(a.blocks), "key": self.key(a.key), "vop": vop, "slot": None if a.slot is None else int(a.slot)}

    def pkg(self, p, i):
        deps = []
        for cls in CLASSES:
            if p.repo.livefs and cls in ("depend", "bdepend"):
                deps.append([])     # built packages: the resolver does not process build-time classes; nor are they "merged"
            else:
                deps.append([[self.atom(a) for a in cl] for cl in getattr(p, cls).cnf_solutions()])
        return {"id": i, "key": self.key(p.key), "ver": lex_ver(p.version), "rev": str(p.revision or ""), "slot": int(p.slot),
                "livefs": bool(p.repo.livefs), "deps": deps}


def pid(p):
    return (p.repo.repo_id, p.cpvstr)


def key_graph(U, weak_blockers=False):
    """package-name graph: p.key -> key of every plain atom in p's dependencies; with weak_blockers also -> key of every weak
    blocker (the resolver resolves past a weak blocker by adding another version of the blocked name: insert_blockers)"""
    g = {}
    for p in U:
        for cls in CLASSES:
            for cl in getattr(p, cls).cnf_solutions():
                for a in cl:
                    if not a.blocks or (weak_blockers and not a.blocks_strongly):
                        g.setdefault(p.key, set()).add(a.key)
    return g


def slot_graph(U):
    """(key, slot) graph — the resolver's own notion of 'the same package' (slot_cycles): node of p -> node of every package a plain
    dependency atom of a package in p's key+slot can be satisfied by"""
    g = {}
    for p in U:
        for cls in CLASSES:
            for cl in getattr(p, cls).cnf_solutions():
                for a in cl:
                    if not a.blocks:
                        for q in U:
                            if a.match(q):
                                g.setdefault((p.key, p.slot), set()).add((q.key, q.slot))
    return g


def reach(g, src):
    seen, todo = set(), [src]
    while todo:
        u = todo.pop()
        for w in g.get(u, ()):
            if w not in seen:
                seen.add(w)
                todo.append(w)
    return seen


def has_cycle(g):
    return any(k in reach(g, k) for k in g)


def py_eval(U, F, merged, targets):
    """the property evaluated on the real objects (independent of the Lean checker)"""
    probs = []
    for i, t in enumerate(targets):
        if not any(t.match(p) for p in F):
            probs.append(("target", i))
    for i, p in enumerate(F):
        for q in F[i + 1:]:
            if p.key == q.key and p.slot == q.slot:
                probs.append(("slot", pid(p), pid(q)))
    for p in merged:
        for ci, cls in enumerate(CLASSES):
            for li, cl in enumerate(getattr(p, cls).cnf_solutions()):
                ok = False
                for a in cl:
                    if a.blocks:
                        ok = ok or not any(a.match(q) for q in F if pid(q) != pid(p))
                    else:
                        ok = ok or any(a.match(q) for q in F)
                if not ok:
                    probs.append(("clause", pid(p), ci, li))
    return probs


def resolve(case, limit=900):
    """run the real resolver; returns (status, resolver, src, vdb, detail)"""
    fx = fixture()
    old = sys.getrecursionlimit()
    sys.setrecursionlimit(limit)
    try:
        r, s, v = fx["build"](case)
        ret = r.add_atoms([fx["atom"](t) for t in case["targets"]])
    except RecursionError:
        return "recursion", None, None, None, None
    except Exception as e:  # noqa: BLE001 — every crash is reported
        import traceback
        tb = traceback.extract_tb(e.__traceback__)[-1]
        return "crash", None, None, None, f"{type(e).__name__}: {e} at {tb.filename.split('/')[-1]}:{tb.lineno}"
    finally:
        sys.setrecursionlimit(old)
    return ("fail" if ret else "ok"), r, s, v, None


def plan_of(r, U, index):
    """state.iter_ops(True) -> (plan json, final set F, merged) on the real objects"""
    plan, removed, merged = [], set(), []
    for op in r.state.iter_ops(True):
        if op.desc == "add":
            plan.append(["add", index[pid(op.pkg)]])
            if not op.pkg.repo.livefs:
                merged.append(op.pkg)
        elif op.desc == "replace":
            plan.append(["replace", index[pid(op.old_pkg)], index[pid(op.pkg)]])
            removed.add(pid(op.old_pkg))
            if not op.pkg.repo.livefs:
                merged.append(op.pkg)
        elif op.desc == "remove":
            plan.append(["remove", index[pid(op.pkg)]])
            removed.add(pid(op.pkg))
        else:
            raise ValueError(op.desc)
    F = [p for p in U if p.repo.livefs and pid(p) not in removed] + merged
    return plan, F, merged


def classify(prob, U, F, merged, targets, g, sg=None):
    """open-finding class of one property failure, or None (= a violation outside every recorded class)"""
    def contended(a):
        return any(a.match(q2) and any(q.key == q2.key and q.slot == q2.slot for q in F) for q2 in U)
    if prob[0] == "target":
        return "C15-same-slot-version-contention" if contended(targets[prob[1]]) else None
    if prob[0] == "clause":
        p = next(x for x in merged if pid(x) == prob[1])
        cl = list(getattr(p, CLASSES[prob[2]]).cnf_solutions())[prob[3]]
        plain = [a for a in cl if not a.blocks]
        if any(contended(a) for a in plain):
            return "C15-same-slot-version-contention"
        if any(a.key == p.key or p.key in reach(g, a.key) for a in plain):
            # a cycle through the package's own NAME is not enough: the resolver (slot_cycles) treats a frame as cycling back only to a
            # frame working on the same key AND slot, so the recorded class is: some candidate of an alternative sits in, or leads back
            # to, the key+slot of the merged package.  A package that needs another slot of its own name (a/c-2:2 needs a/c:1, which
            # needs nothing of slot 2) is on no cycle.
            if sg is None:
                sg = slot_graph(U)
            me = (p.key, p.slot)
            for a in plain:
                for q in U:
                    if a.match(q) and ((q.key, q.slot) == me or me in reach(sg, (q.key, q.slot))):
                        return "C15-dependency-cycle-assumed-satisfied"
        return None
    return None


def run(ctx):
    fx = fixture()
    atom = fx["atom"]
    rng = ctx.rng
    cases = [dict(c, stream="corpus") for c in CORPUS]
    if ctx.replay_cases:
        cases = [c for c in ctx.replay_cases if "src" in c] + cases
    n = ctx.n(700, 20000)
    for i in range(n):
        cases.append(gen_case(rng, ("dag", "dag-twins", "wild")[i % 3] if i % 7 else "wild"))
    for i in range(ctx.n(280, 4000)):
        cases.append(gen_family_case(rng) if i % 5 < 3 else dict(gen_reject_case(rng), mode=rng.choice(["upgrade", "upgrade", "min", "empty"])))
    for i in range(ctx.n(150, 3000)):
        cases.append(gen_bootstrap_case(rng))

    pending = []   # (case, resolver bits) waiting for the Lean verdict
    reorders = []  # (case, package, class, clause, yielded, flags) waiting for the Lean model of the reorder strategy
    for case in cases:
        status, r, s, v, detail = resolve(case)
        ctx.count("resolver_" + status)
        ctx.count("mode_" + case["mode"])
        ctx.count("stream_" + case.get("stream", "?"))
        brief = {k: case[k] for k in ("src", "vdb", "targets", "mode")}
        if status == "crash":
            ctx.violation(brief, "resolver crashed: " + detail)
            ctx.case(brief, False)
            continue
        if status == "recursion":
            # classify: repositories whose key-level dependency graph has a cycle are an open finding
            s2, v2 = fx["mk"]("src", case["src"]), fx["mk"]("vdb", case["vdb"], livefs=True)
            cyc = has_cycle(key_graph(list(s2) + list(v2), weak_blockers=True))
            ctx.violation(brief, "RecursionError while resolving" + ("" if cyc else " although no package name reaches itself through dependencies / weak blockers"),
                          finding="C15-unbounded-recursion-on-name-cycles" if cyc else None)
            ctx.case(brief, False)
            continue
        # ---- the clause reorder strategy of the resolver that has just been used (it has a plan, force-loaded installed packages
        # and a memory of hopeless atoms by now): per clause a permutation, the one the Lean model computes
        try:
            for job in reorder_jobs(r, list(s) + list(v)):
                reorders.append((brief,) + job)
        except Exception as e:  # noqa: BLE001
            ctx.violation(brief, f"depset reorder strategy raised {type(e).__name__}: {e}")
        if status == "fail":
            ctx.case(brief, False)
            continue
        U = list(s) + list(v)
        index = {pid(p): i for i, p in enumerate(U)}
        try:
            ser = Ser()
            pkgs = [ser.pkg(p, i) for i, p in enumerate(U)]
            targets = [atom(t) for t in case["targets"]]
            plan, F, merged = plan_of(r, U, index)
            atoms = {}
            for p in U:
                for cls in CLASSES:
                    for cl in getattr(p, cls).cnf_solutions():
                        for a in cl:
                            atoms.setdefault(str(a), a)
            for t in targets:
                atoms.setdefault(str(t), t)
            alist = list(atoms.values())
            req = {"cmd": "c15.check", "pkgs": pkgs, "targets": [ser.atom(t) for t in targets], "plan": plan,
                   "atoms": [ser.atom(a) for a in alist]}
        except Exception as e:  # noqa: BLE001
            ctx.mismatch(brief, f"could not serialise the case: {type(e).__name__}: {e}")
            continue
        pending.append((brief, case, U, F, merged, targets, alist, plan, req))

    todo = [j for j in reorders if j[3] is not None]
    for brief, p, cls, cl, out, flags in reorders:
        if cl is None:
            ctx.mismatch(brief, f"{p!r} {cls.upper()}: the reorder strategy yields {len(out)} clauses for a class that has another number of them")
    chunks = [todo[i:i + 200] for i in range(0, len(todo), 200)]
    replies = ctx.model([{"cmd": "c15.reorder", "clauses": [j[5] for j in ch]} for ch in chunks])
    order = []
    for ch, rep in zip(chunks, replies):
        order.extend(rep if isinstance(rep, list) and len(rep) == len(ch) else [None] * len(ch))
    bad_reorder = set()
    for (brief, p, cls, cl, out, flags), idx in zip(todo, order):
        ctx.evaluations += 1
        ctx.count("reorder_clause_len_%d" % min(len(cl), 4))
        if len(cl) > 1 and any(f[1] and not f[0] for f in flags):
            ctx.count("reorder_clause_with_preferred_alternative")
        k = repr(brief)
        if idx is None:
            ctx.mismatch(brief, "driver rejected a reorder request")
        elif sorted(map(str, out)) != sorted(map(str, cl)):
            if k not in bad_reorder:
                ctx.mismatch(dict(brief, clause=f"{p!r} {cls.upper()} {' | '.join(map(str, cl))}"),
                             f"after this resolution the resolver's reorder strategy turns the clause into {[str(a) for a in out]}: not a "
                             f"permutation of its alternatives (theorem reorder_perm); a clause that lost alternatives can be taken for satisfied "
                             f"or fail although the dropped alternative was the way out")
            bad_reorder.add(k)
        elif [str(a) for a in out] != [str(cl[i]) for i in idx]:
            if k not in bad_reorder:
                ctx.mismatch(dict(brief, clause=f"{p!r} {cls.upper()} {' | '.join(map(str, cl))}"),
                             f"reorder strategy: real order {[str(a) for a in out]}, Lean model {[str(cl[i]) for i in idx]} (flags {flags})")
            bad_reorder.add(k)

    replies = ctx.model([p[-1] for p in pending])
    for (brief, case, U, F, merged, targets, alist, plan, req), rep in zip(pending, replies):
        if rep == "bad-op":
            ctx.mismatch(brief, "driver rejected the request")
            continue
        # ---- edge A: atom.match, Lean vs real, on every atom x package
        bad = False
        for a, ids in zip(alist, rep["match"]):
            real = [i for i, p in enumerate(U) if a.match(p)]
            ctx.evaluations += len(U)
            if real != ids:
                ctx.mismatch(brief, f"atom {a}: real atom.match gives {[repr(U[i]) for i in real]}, the Lean model {[repr(U[i]) for i in ids]}")
                bad = True
                break
        if bad:
            continue
        # ---- the package set the plan leaves: Lean's walk vs the harness's reading of the ops
        if rep["final"] is None:
            ctx.violation(brief, f"the reported plan is not well formed (displaces a package that is not installed/present, or builds one twice): {plan}")
            continue
        index = {pid(p): i for i, p in enumerate(U)}
        if sorted(rep["final"]) != sorted(index[pid(q)] for q in F) or sorted(rep["merged"]) != sorted(index[pid(q)] for q in merged):
            ctx.mismatch(brief, "final package set: Lean and harness differ")
            continue
        # ---- the property: Lean checker, and the independent evaluation on the real objects
        lean_probs = sorted(tuple(x) for x in rep["problems"])
        py = py_eval(U, F, merged, targets)
        py_norm = sorted((("target", x[1]) if x[0] == "target" else ("slot", index[x[1]], index[x[2]]) if x[0] == "slot"
                          else ("clause", index[x[1]], x[2], x[3])) for x in py)
        lean_norm = sorted((x if x[0] != "slot" else ("slot",) + tuple(sorted(x[1:]))) for x in lean_probs)
        py_norm = sorted((x if x[0] != "slot" else ("slot",) + tuple(sorted(x[1:]))) for x in py_norm)
        if lean_norm != py_norm or rep["ok"] != (not lean_probs):
            ctx.mismatch(brief, f"Lean checker reports {lean_norm} (ok={rep['ok']}), evaluation on the real objects {py_norm}")
            continue
        nontriv = bool(merged) and any(any(getattr(p, c).cnf_solutions() for c in CLASSES) for p in merged)
        ctx.count("plan_ops_%d" % min(len(plan), 6))
        ctx.count("merged_%d" % min(len(merged), 5))
        if any(o[0] == "replace" for o in plan):
            ctx.count("plan_with_replace")
        if rep["ok"]:
            ctx.count("plan_accepted")
        else:
            g = key_graph(U)
            sg = slot_graph(U)
            for prob in py:
                fid = classify(prob, U, F, merged, targets, g, sg)
                ctx.count("plan_rejected_" + (fid or "UNCLASSIFIED"))
                what = {"target": "target not matched by any present package", "slot": "two present packages in one slot",
                        "clause": "dependency clause of a merged package without a satisfied alternative"}[prob[0]]
                ctx.violation(dict(brief, plan=[str(o) for o in plan]), f"resolver reported success but: {what}: {prob}", finding=fid)
        ctx.case(brief, nontriv, key=repr(brief))


LEVEL_TEXT = ("Kernel-checked Lean 4 theorems about a certificate checker: every plan accepted by planOk has each target matched, every clause of all "
              "five dependency classes of every merged package satisfied, one package per key and slot, no present package hit by a blocker of a "
              "merged package (planOk_sound), and planOk rejects a well-formed plan only if it violates that (planOk_complete); on the planner state "
              "model of C17: an unforced add onto a matching limiter is refused without changing the state, and without forced operations no reachable "
              "state holds two packages in one slot, for all operation histories; the clause reorder strategy the search relies on hands it a "
              "permutation of every clause, so it can neither drop nor invent an alternative (reorder_perm, reorder_keeps_clause; compared with "
              "the real strategy of every used resolver on every clause). The real resolver (upgrade, min-install, empty-tree) is run on "
              "generated repositories and every reported plan is decided by the compiled checker; the search itself is not proved.")
LEVEL_NOTE = ("Partial: the theorem is about the checker and the state layer; the backtracking search is covered per produced plan only. "
              "Trusted: Lean kernel, standard axioms; Lean re-expression of atom.match (compared on every atom x package of every case); serialisation.")
