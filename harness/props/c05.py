"""C05 — atom.intersects is symmetric, complete and witnessed."""
import copy
import itertools

from props.c02 import parse_ver, render_ver, respell
from props.c04 import A, P, U, VPOOL, atom_text, extend_ver, gen_usedeps, gen_version, pkg_text, usedep_text

PID = "C05"
LEAN_MODULES = ["Pkgcore.Props.C05"]
OBLIGATIONS = [
    "Pkgcore.C05.intersects_symm",
    "Pkgcore.C05.intersects_witness",
    "Pkgcore.C05.intersects_complete",
    "Pkgcore.C05.intersects_iff",
    "Pkgcore.C05.useOk_iff_satisfiable",
    "Pkgcore.C05.useOk_examples",
    "Pkgcore.C05.glob_versions_convex",
    "Pkgcore.C05.adjacent_revisions_empty",
]
TRUSTED = [
    "atoms and packages are the records of C04 (same parsing/lexing trust: attributes are compared on every case); `matches` in the theorems is C04's PMS "
    "semantics matchSpec, which C04 proves equal to the model of atom.match and checks against the real atom.match",
    "the states dict of the USE-dep loop is modelled as a function of the flag; a set of states is a triple of Booleans",
]
ASSUMPTIONS = [
    "packages are valid: well-formed version, USE a subset of IUSE (a flag that is enabled but not in IUSE would satisfy both [x] and [-x(-)])",
    "USE deps are non-transitive; conditional deps (x?, x=) are skipped by intersects and resolved before matching (C09)",
    "negate_vers = False (intersects ignores it; negated atoms are not dependency atoms)",
]
RULE = ("ordered pairs of atoms, 90% with the same category/package, over every operator pair; versions from a pool closed under the perturbations the "
        "implementation reasons about (respelling, _alpha appended, revision +-1, extra component/letter/suffix) around a shared base version; slots, sub-slots, "
        "repos and USE deps (with (+)/(-) defaults) chosen to agree, to conflict in exactly one place, or independently; for every pair: both argument orders on "
        "the real code, the Lean witness built as a real package and matched by both real atoms, and a search for a common package over a universe built from "
        "the two versions x USE states; non-trivial = same key and both atoms versioned")

CATS = ["a", "b"]
PKGS = ["b", "bb"]
OPS = ["", "<", "<=", "=", "=*", ">=", ">", "~"]
SLOTS = ["0", "1"]
REPOS = ["gentoo", "other"]
REVS = ["", "", "0", "1", "2", "3", "10"]


def near(rng, v, r):
    """a version/revision related to v-r"""
    k = rng.randrange(9)
    if k == 0:
        return copy.deepcopy(v), r
    if k == 1:
        return respell(rng, v, r)
    if k == 2:
        return copy.deepcopy(v), str(int(r or 0) + rng.choice([1, 1, 2, 3]))
    if k == 3:
        return copy.deepcopy(v), (str(int(r) - 1) if int(r or 0) > 0 else "")
    if k == 4:
        return extend_ver(rng, v), rng.choice([r, ""])
    if k == 5:
        w = copy.deepcopy(v)
        w["sufs"].append(["alpha", ""])
        return w, ""
    if k == 6 and (len(v["comps"]) > 1 or v["letter"] or v["sufs"]):
        w = copy.deepcopy(v)                    # drop the last written component
        if w["sufs"]:
            w["sufs"].pop()
        elif w["letter"]:
            w["letter"] = None
        else:
            w["comps"].pop()
        return w, rng.choice(["", r])
    if k == 7:
        return gen_version(rng), rng.choice(REVS)
    return copy.deepcopy(v), rng.choice(REVS)


def gen_pair(rng):
    base = gen_version(rng)
    brev = rng.choice(REVS)
    out = []
    cat, pkg = rng.choice(CATS), rng.choice(PKGS)
    shared_flags = rng.sample(["x", "y", "z"], 2)
    for i in range(2):
        a = A()
        a["cat"], a["pkg"] = cat, pkg
        if i == 1 and rng.random() < 0.1:
            a["cat"], a["pkg"] = rng.choice(CATS), rng.choice(PKGS)
        a["op"] = rng.choice(OPS + OPS[1:])
        if a["op"]:
            a["ver"], a["rev"] = near(rng, base, brev)
            if a["op"] == "~":
                a["rev"] = ""
        k = rng.random()
        if k < 0.3:
            a["slot"] = rng.choice(SLOTS) if rng.random() < 0.4 else "0"
            if rng.random() < 0.5:
                a["subslot"] = rng.choice(SLOTS) if rng.random() < 0.4 else "1"
            if rng.random() < 0.2:
                a["slotop"] = "="
        elif k < 0.4:
            a["slotop"] = rng.choice(["=", "*"])
        if rng.random() < 0.25:
            a["repo"] = rng.choice(REPOS) if rng.random() < 0.4 else "gentoo"
        if rng.random() < 0.5:
            deps = []
            for f in shared_flags + ["w"]:
                if rng.random() < 0.6:
                    deps.append({"flag": f, "on": rng.random() < 0.5, "dflt": rng.choice([None, None, True, False])})
            if deps and rng.random() < 0.08:
                deps.append({"flag": deps[0]["flag"], "on": not deps[0]["on"], "dflt": rng.choice([None, True, False])})
            a["use"] = deps or None
        k = rng.random()
        if k < 0.1:
            a["blocks"] = True
        elif k < 0.15:
            a["blocks"] = a["strong"] = True
        out.append(a)
    return out[0], out[1]


CORPUS = [
    # defects fixed in the repo worktree
    (A("~", "1.0"), A("~", "1.00")),                                   # string equality of ~ versions
    (A("=*", "1"), A("=", "10")), (A("=*", "1.00"), A("=", "1.0")), (A("=*", "1"), A("=*", "10")), (A("=*", "1"), A("~", "10")),
    (A("=*", "1", "2"), A("~", "1.5")), (A("=*", "1", "2"), A("~", "1")), (A(">", "1", "1"), A("=*", "1", "1")), (A("<", "1"), A("=*", "1", "0")),
    (A(">", "10"), A("=*", "1")), (A("<", "10"), A("=*", "1")), (A(">", "1.5", "3"), A("=*", "1")), (A("<", "1_alpha"), A("=*", "1")),
    (A(">", "2"), A("<", "2", "1")), (A(">", "2", "1"), A("<", "2", "3")), (A(">", "2.0", "1"), A("<", "2.00", "2")), (A(">=", "2"), A("<", "2", "1")),
    (A(">", "2"), A("<=", "2", "1")), (A(">", "2"), A("<", "2.0")), (A(">", "2"), A("<", "2")), (A(">", "3"), A("<", "2")), (A(">=", "2"), A("<=", "2")),
    (A(use=["x(-)"]), A(use=["-x(+)"])), (A(use=["x"]), A(use=["-x(-)"])), (A(use=["x(-)"]), A(use=["-x"])), (A(use=["x"]), A(use=["-x(+)"])),
    (A(use=["x(+)"]), A(use=["-x"])), (A(use=["x(+)"]), A(use=["-x(-)"])), (A(use=["x(+)"]), A(use=["-x(+)"])), (A(use=["x"]), A(use=["-x"])),
    (A(use=["x", "-x"]), A()), (A(use=["foo"]), A(use=["-bar"])), (A(use=["x", "y"]), A(use=["x", "-z"])),
    # the suite's own list (tests/ebuild/test_atom.py) and boundary cases of every branch
    (A(), A(pkg="bb")), (A(), A()), (A("=", "1"), A()), (A(slot="1"), A(slot="2")), (A(slot="1"), A(slot="1")), (A(slot="1"), A(use=["foo"])),
    (A(slot="0", subslot="0"), A(slot="0", subslot="1")), (A(slot="0", subslot="0"), A(slot="0")), (A(repo="gentoo"), A()), (A(repo="gentoo"), A(repo="foo")),
    (A(">", "3"), A(">", "1")), (A("<", "3"), A("<=", "1")), (A(">", "3"), A("<", "3")), (A(">=", "3"), A("<", "3")), (A(">", "2"), A("=*", "2")),
    (A("<", "2_alpha1"), A("=*", "2")), (A("=", "2"), A("=", "2")), (A("=", "3"), A("=", "2")), (A("=", "2"), A(">", "2")), (A("=", "2"), A(">=", "2")),
    (A("~", "2"), A("~", "2")), (A("~", "2"), A("~", "2.1")), (A("=*", "2"), A("=*", "2.3")), (A(">", "2.4"), A("=*", "2")), (A("<", "2.4"), A("=*", "2")),
    (A("<", "1"), A("=*", "2")), (A("~", "2"), A(">", "2", "1")), (A("~", "2"), A("<=", "2")), (A("=*", "2", "2"), A("<=", "2", "20")),
    (A("=*", "2", "2"), A("<", "2", "20")), (A("=*", "2", "2"), A("<=", "2", "2")), (A("~", "2"), A("<", "2")), (A("=*", "1", "10"), A("~", "1")),
    (A("=*", "1", "1"), A("<", "1", "1")), (A("=*", "1"), A(">", "2")), (A(">=", "8.4"), A("=*", "8.3.4")), (A("=", "4.1.1", "3"), A("=*", "3.3")),
    (A("=*", "4"), A("~", "4.3.29")), (A("~", "1"), A(">=", "1", "3")), (A("~", "1"), A(">", "1", "3")), (A("~", "1"), A("<", "1", "3")),
    (A("=*", "1_p"), A(">", "1_p1")), (A("=*", "1a"), A("<", "1a")), (A("=*", "1a"), A(">", "1a_p")), (A("=*", "1.0"), A("<", "1.00")),
    (A("=*", "1_rc1"), A("<", "1_rc1")), (A("=*", "1_rc1"), A(">", "1_rc1_p2", "4")), (A("=*", "1.2"), A(">=", "1.3")), (A("=*", "1.2"), A("<=", "1.1")),
]


class LightPkg:
    """a package-like object with exactly the attributes atom.restrictions pull"""
    __slots__ = ("category", "package", "version", "revision", "fullver", "slot", "subslot", "repo", "use", "iuse_stripped")

    class _Repo:
        __slots__ = ("repo_id",)

        def __init__(self, r):
            self.repo_id = r

    def __init__(self, cpv, slot, subslot, repo, iuse, use):
        self.category, self.package, self.version, self.revision, self.fullver = cpv.category, cpv.package, cpv.version, cpv.revision, cpv.fullver
        self.slot, self.subslot, self.repo, self.iuse_stripped, self.use = slot, subslot, LightPkg._Repo(repo), iuse, use


def version_universe(a, b):
    out = []
    for x in (a, b):
        if not x["op"]:
            continue
        v, r = x["ver"], x["rev"]
        n = int(r or 0)
        cands = [(v, r), (v, ""), (v, str(n + 1)), (v, str(n + 2))]
        if n > 0:
            cands.append((v, str(n - 1)))
        for suf in (["alpha", ""], ["p", ""], ["rc", "1"]):
            w = copy.deepcopy(v)
            w["sufs"].append(suf)
            cands += [(w, ""), (w, "1")]
        if v["letter"] is None and not v["sufs"]:
            for c in ("0", "1", "9"):
                w = copy.deepcopy(v)
                w["comps"].append(c)
                cands.append((w, ""))
            w = copy.deepcopy(v)
            w["letter"] = "a"
            cands.append((w, ""))
        out += cands
    out += [(parse_ver("0"), ""), (parse_ver("1"), ""), (parse_ver("99999"), "")]
    seen, res = set(), []
    for v, r in out:
        k = render_ver(v) + "-r" + r
        if k not in seen:
            seen.add(k)
            res.append((v, r))
    return res


def use_universe(rng, a, b):
    flags = sorted({u["flag"] for x in (a, b) for u in (x["use"] or [])})
    if not flags:
        return [((), ())]
    configs = []
    if len(flags) <= 3:
        for states in itertools.product("+-m", repeat=len(flags)):
            configs.append((tuple(f for f, s in zip(flags, states) if s != "m"), tuple(f for f, s in zip(flags, states) if s == "+")))
    else:
        for _ in range(24):
            states = [rng.choice("+-m") for _ in flags]
            configs.append((tuple(f for f, s in zip(flags, states) if s != "m"), tuple(f for f, s in zip(flags, states) if s == "+")))
    return configs


def run(ctx):
    from pkgcore.ebuild import cpv as cpvmod
    from pkgcore.ebuild.atom import atom
    from pkgcore.test.misc import FakePkg, FakeRepo

    rng = ctx.rng
    cases = [(a, b, "corpus") for a, b in CORPUS]
    if ctx.replay_cases:
        cases = [(c["a"], c["b"], "replay") for c in ctx.replay_cases if "a" in c and "b" in c] + cases
    for _ in range(ctx.n(3000, 30000)):
        a, b = gen_pair(rng)
        cases.append((a, b, "generated"))
    if not ctx.quick():
        vers = [("1", ""), ("1", "1"), ("1", "2"), ("1.0", ""), ("1.00", ""), ("1.0.1", ""), ("1.1", ""), ("10", ""), ("1a", ""), ("1_p", ""), ("1_p1", ""),
                ("1_alpha", ""), ("1_alpha_alpha", ""), ("2", "")]
        cons = [A(op, v, r) for op in OPS[1:] for v, r in vers if not (op == "~" and r)]
        for a, b in itertools.product(cons, cons):
            cases.append((a, b, "exhaustive"))
        ctx.extra["exhaustive_operator_version_pairs"] = len(cons) ** 2
        uses = [None, ["x"], ["-x"], ["x(+)"], ["x(-)"], ["-x(+)"], ["-x(-)"], ["x", "-y(+)"], ["-x", "y"]]
        for ua, ub in itertools.product(uses, uses):
            cases.append((A(use=ua), A(use=ub), "exhaustive-use"))

    reqs = [{"cmd": "c05.intersects", "a": a, "b": b} for a, b, _ in cases]
    for (a, b, rel), rep in zip(cases, ctx.model(reqs)):
        ta, tb = atom_text(a), atom_text(b)
        case = {"a": a, "b": b, "text_a": ta, "text_b": tb, "relation": rel}
        if rep == "bad-op":
            ctx.mismatch(case, "driver rejected the request")
            continue
        try:
            oa, ob = atom(ta), atom(tb)
        except Exception as e:
            ctx.mismatch(case, f"generated atom rejected by the constructor: {type(e).__name__}: {e}")
            continue
        glue = True
        for x, o in ((a, oa), (b, ob)):
            want = (x["cat"], x["pkg"], x["op"], None if x["ver"] is None else render_ver(x["ver"]), None if x["ver"] is None else int(x["rev"] or 0),
                    x["slot"], x["subslot"], x["repo"], None if x["use"] is None else tuple(sorted(usedep_text(u) for u in x["use"])))
            got = (o.category, o.package, o.op, o.version, None if o.revision is None else int(o.revision or 0), o.slot, o.subslot, o.repo_id, o.use)
            if want != got:
                glue = False
                ctx.mismatch(case, f"atom constructor parsed {got}, model input is {want}")
        if not glue:
            continue
        try:
            iab, iba = bool(oa.intersects(ob)), bool(ob.intersects(oa))
        except Exception as e:
            ctx.violation(case, f"atom.intersects raised {type(e).__name__}: {e}")
            continue
        samekey = a["cat"] == b["cat"] and a["pkg"] == b["pkg"]
        ctx.case(case, samekey and bool(a["op"]) and bool(b["op"]), key=f"{ta}|{tb}")
        ctx.count("rel_" + rel)
        ctx.count("ops_%s_%s" % (a["op"] or "none", b["op"] or "none"))
        ctx.count("intersects_%s" % iab)
        if samekey:
            ctx.count("samekey_intersects_%s" % iab)
        if a["use"] and b["use"]:
            ctx.count("both_with_use")
        # ---- (C) symmetry on the real code
        if iab != iba:
            ctx.violation(case, f"a.intersects(b)={iab} but b.intersects(a)={iba}")
            continue
        # ---- (C) witnessed / complete on the real code
        found = None
        w = rep["witness"]
        if iab:
            try:
                wp = FakePkg(pkg_text(w), eapi="8", slot=w["slot"], subslot=w["subslot"], iuse=frozenset(w["iuse"]), use=frozenset(w["use"]),
                             repo=FakeRepo(repo_id=w["repo"]))
                if oa.match(wp) and ob.match(wp):
                    found = "lean-witness"
                    ctx.count("witness_from_theorem_confirmed_on_real_code")
            except Exception as e:
                ctx.mismatch(case, f"the Lean witness {pkg_text(w)} could not be built as a package: {type(e).__name__}: {e}")
                continue
        if found is None and samekey:
            slot = a["slot"] or b["slot"] or "0"
            subslot = a["subslot"] or b["subslot"] or "0"
            repo = a["repo"] or b["repo"] or "gentoo"
            slots = {(slot, subslot, repo)}
            if a["slot"] and b["slot"]:
                slots.add((b["slot"], subslot, repo))
            if a["subslot"] and b["subslot"]:
                slots.add((slot, b["subslot"], repo))
            if a["repo"] and b["repo"]:
                slots.add((slot, subslot, b["repo"]))
            uses = use_universe(rng, a, b)
            for v, r in version_universe(a, b):
                c = cpvmod.VersionedCPV(f"{a['cat']}/{a['pkg']}-{render_ver(v)}" + ("-r" + r if r else ""))
                for (s, ss, rp), (iu, us) in itertools.product(slots, uses):
                    lp = LightPkg(c, s, ss, rp, frozenset(iu), frozenset(us))
                    if oa.match(lp) and ob.match(lp):
                        found = f"{c.cpvstr} slot={s}/{ss} repo={rp} iuse={list(iu)} use={list(us)}"
                        break
                if found:
                    break
        ctx.count("common_package_%s" % ("found" if found else "not_found"))
        if iab and not found:
            ctx.violation(case, "reported as intersecting, but neither the constructed witness nor any package of the search universe matches both atoms")
            continue
        if found and not iab:
            ctx.violation(case, f"package {found} matches both atoms, but they are reported as not intersecting")
            continue
        # ---- (A) model vs code
        if rep["ab"] != iab or rep["ba"] != iba:
            ctx.mismatch(case, f"code: {iab}/{iba}; Lean model of intersects: {rep['ab']}/{rep['ba']}")
        elif iab and not rep["witness_matches"]:
            ctx.mismatch(case, "the Lean witness does not satisfy the Lean spec (theorem intersects_witness would be false)")
        elif iab and found != "lean-witness":
            ctx.mismatch(case, f"the Lean witness {pkg_text(w)} is not matched by the real atoms (another common package exists: {found})")


LEVEL_TEXT = ("Kernel-checked Lean 4 theorems over all well-formed atoms: the model of atom.intersects is symmetric; if any valid package (version of any length, "
              "any revision, any IUSE/USE) matches both atoms under the PMS semantics then it answers True (completeness; uses convexity of the set of versions a "
              "=* glob matches and the fact that no version lies between consecutive revisions); and if it answers True then an explicit package, computed from the two "
              "atoms' versions (the version itself, with _alpha appended, or at the next revision), matches both. Tied to the code by a differential run over every "
              "operator pair, which also checks symmetry on the real code, builds the theorem's witness as a real package matched by both real atoms, and searches a "
              "perturbation universe for common packages of pairs reported as disjoint.")
LEVEL_NOTE = ("Trusted: Lean kernel; standard axioms only; C04's tie between matchSpec and atom.match; parsing glue (attributes compared on every case). "
              "Packages with USE outside IUSE, conditional USE deps and negate_vers are out of scope (see assumptions).")
