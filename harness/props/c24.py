"""C24 — installed-package CONTENTS files round-trip and are replaced atomically."""
import errno
import gc
import os
import resource
import shutil
import signal
import sys
import tempfile

PID = "C24"
LEAN_MODULES = ["Pkgcore.Props.C24"]
OBLIGATIONS = [
    "Pkgcore.C24.contents_roundtrip_partial",
    "Pkgcore.C24.contents_roundtrip_counterexample",
    "Pkgcore.C24.contents_linebreak_counterexample",
    "Pkgcore.C24.flush_atomic",
    "Pkgcore.C24.flush_reader_sees_old_or_new",
    "Pkgcore.C24.flush_touches_nothing_else",
    "Pkgcore.C24.atomic_replace_prefix",
    "Pkgcore.C24.parseLine_render",
    "Pkgcore.C24.flush_abort_keeps_old",
    "Pkgcore.C24.history_flush_roundtrip",
]
TRUSTED = [
    "str.split(' ')/' '.join, posixpath.normpath, '%x'/rjust, str(int)/int() are re-expressed in Lean (splitOn, joinWith, normpath, hexPad, renderInt, "
    "parseInt, parseHex) and compared with the real code on every generated set, on raw unnormalised paths and on hand-made damaged files",
    "text-mode file iteration (universal newlines) = splitting at \\n and \\r; UTF-8 codec of the file is not modelled (locale encoding assumed UTF-8)",
    "AtomicWriteFile = [open(.update.NAME,'w'), chmod, chown, write*, close, rename]; the real sequence of os-level operations is recorded with a "
    "sys.addaudithook hook and compared with the model's list; rename(2) is atomic (kernel); no fsync, so 'crash' means process crash, not power loss",
    "int(obj.mtime) (truncation of float mtimes) is Python's; the model starts from the integral value",
]
ASSUMPTIONS = [
    "locations are normalised (every fs object applies normpath in its constructor) and strings contain no lone surrogates",
    "one writer at a time: the temporary name .update.CONTENTS is fixed",
]
RULE = ("contents sets of 0-12 entries built through the public fs/ContentsFile API: files (md5 0..2^128-1, int/float/negative mtimes), symlinks "
        "(targets with ' -> ', blanks, empty), dirs, devices, fifos; path components drawn from ASCII, embedded/leading/trailing blanks and other "
        "white space (tab, \\x0b, \\x0c, \\x1c, \\x85, \\xa0, U+2028), '->' fragments, accented/CJK/astral characters; ~4% of sets contain an entry of a "
        "known-finding class (line break in a path, '->' token in a symlink location). Each set is flushed over the previous one, re-read, compared; "
        "a subset is crashed (fork + _exit at every audited operation, SIGXFSZ in the middle of the data write). "
        "Large packages: sets of 2^k-1, 2^k, 2^k+1 entries (k=6..12; three of them per quick run) and of 1500-6000 (thorough: -10000) entries over the "
        "same alphabet; a failing set is shrunk by delta debugging on the real code before it is reported. "
        "Long-lived objects: a loaded (or kept) ContentsFile is driven through histories of 1-4 mutating calls per round (add, remove, del, discard by "
        "object/path, clear, update, difference_update incl. with itself, intersection_update, symmetric_difference_update), flushed, re-read with a "
        "fresh object, for 1-3 rounds. Failing flushes over an existing file: an entry the writer cannot render (unknown type, file without md5 via "
        "update(), link without mtime, lone surrogate in a path), an exception raised by the k-th write (RuntimeError, KeyboardInterrupt, MemoryError, "
        "OSError), an error return from each os-level call: the old file must survive. "
        "non-trivial = at least 2 entries and a path with a blank, '->' or non-ASCII character")

_STATE = {"on": False, "root": None, "events": [], "crash_at": None, "faults": {}, "persist": None}
_HOOKED = [False]


def _hook(event, args):
    st = _STATE
    if not st["on"]:
        return
    rec = None
    try:
        if event == "open":
            path, mode, flags = args
            if isinstance(path, str) and path.startswith(st["root"]) and flags is not None and (flags & (os.O_WRONLY | os.O_RDWR)):
                rec = ("creat", path) if flags & os.O_TRUNC else ("open-for-update", path)
        elif event == "os.chmod":
            rec = ("chmod", args[0], args[1])
        elif event == "os.chown":
            rec = ("chown", args[0], args[1], args[2])
        elif event == "os.rename":
            rec = ("rename", args[0], args[1])
        elif event == "os.remove":
            rec = ("unlink", args[0])
        elif event == "os.truncate":
            rec = ("truncate", args[0], args[1])
        elif event in ("os.mkdir", "os.rmdir", "os.link", "os.symlink", "os.utime"):
            rec = (event[3:],) + tuple(a for a in args[:2])
    except Exception:
        return
    # (no injected fault is raised inside the try above)
    if rec is None:
        return
    if not any(isinstance(a, str) and a.startswith(st["root"]) for a in rec[1:]):
        return
    idx = len(st["events"])
    if st["crash_at"] is not None and st["crash_at"] == idx:
        os._exit(99)                      # crash immediately before this operation
    act = st["faults"].get(idx)
    if act is None and st["persist"] and rec[0] in st["persist"]:
        act = "oserror"
    if act is not None:
        # the operation fails with an error return: the exception raised here aborts the call and surfaces as its OSError
        st["events"].append(("!" + rec[0],) + rec[1:])
        if act == "persist":
            st["persist"] = {rec[0]}      # the condition stays (ENOSPC, EIO): every later call of this kind fails too
        raise OSError(errno.ENOSPC, "injected fault", rec[1] if isinstance(rec[1], str) else None)
    st["events"].append(rec)


def trace_on(root, crash_at=None, faults=None):
    """record os-level operations below `root`; crash_at=i: _exit before the i-th one; faults={i: "oserror"|"persist"}: the i-th
    one returns an error (once / from then on for that kind of call)"""
    if not _HOOKED[0]:
        sys.addaudithook(_hook)
        _HOOKED[0] = True
    _STATE.update(on=True, root=root, events=[], crash_at=crash_at, faults=dict(faults or {}), persist=None)


def trace_off():
    _STATE["on"] = False
    _STATE["persist"] = None
    return list(_STATE["events"])


def gen_tables(repo):
    from snakeoil.chksum import get_handler
    from pkgcore import os_data
    from pkgcore.vdb.contents import ContentsFile
    d = tempfile.mkdtemp(prefix="verif-c24-t-")
    try:
        p = os.path.join(d, "CONTENTS")
        ContentsFile(p, mutable=True, create=True).flush()
        perms = os.stat(p).st_mode & 0o7777
    finally:
        shutil.rmtree(d, ignore_errors=True)
    text = ("-- GENERATED from /repo by harness/props/c24.py (gen_tables); do not edit\n"
            "namespace Pkgcore.Generated.C24\n"
            f"def md5StrSize : Nat := {get_handler('md5').str_size}\n"
            f"def writePerms : Nat := {perms}\n"
            f"def rootUid : Nat := {os_data.root_uid}\n"
            f"def rootGid : Nat := {os_data.root_gid}\n"
            "end Pkgcore.Generated.C24\n")
    return {"Pkgcore/Generated/C24Tables.lean": text}


# ------------------------------------------------------------------ generators

WORDS = ["usr", "bin", "lib64", "share", "doc", "a", "b", "x", "etc", "conf.d", "python3.12", "foo-1.0", "obj", "sym", "dir", "->", "-", ">"]
ODD = [" ", "  ", "a b", " lead", "trail ", "a  b", "->", "a->b", "-> x", "x ->", "a -> b", "é", "日本語", "\U0001f600", "tab\there", "v\x0bt", "f\x0cf",
       "fs\x1c", "nel\x85", "nbsp\xa0", "ls ", "...", ".hidden", "%x", "0", "-1", "ümlaut dir "]
BREAKS = ["a\nb", "cr\rx", "end\n", "\nstart", "crlf\r\nz"]


def gen_comp(rng, allow_break):
    k = rng.random()
    if allow_break and k < 0.5:
        return rng.choice(BREAKS)
    if k < 0.5:
        return rng.choice(WORDS)
    if k < 0.9:
        return rng.choice(ODD)
    return "".join(rng.choice("ab /->\té ") for _ in range(rng.randrange(1, 7)))


def gen_path(rng, allow_break=False):
    n = rng.choice([1, 2, 2, 3, 4])
    comps = [gen_comp(rng, allow_break and i == n - 1) for i in range(n)]
    comps = [c for c in comps if c not in ("", ".", "..")] or ["x"]
    return "/" + "/".join(comps)


def gen_target(rng, allow_break=False):
    k = rng.random()
    if k < 0.1:
        return ""
    if k < 0.4:
        return gen_path(rng, allow_break)
    if k < 0.6:
        return "../" + gen_comp(rng, allow_break)
    return rng.choice(["a -> b", " -> ", "->", "x ", " y", "t -> z ", "../lib -> /lib64", "é/日本"]) if k < 0.8 else gen_comp(rng, allow_break)


def gen_mtime(rng):
    k = rng.random()
    if k < 0.5:
        return rng.randrange(0, 2 ** 31)
    if k < 0.65:
        return rng.choice([0, 1, -1, -5, 2 ** 31, 2 ** 40, 10 ** 18])
    if k < 0.9:
        return rng.choice([12.7, 0.5, -0.5, -3.9, 1700000000.123456, 5.0, 1e15])
    return rng.randrange(-10 ** 6, 10 ** 12)


def gen_md5(rng):
    k = rng.random()
    if k < 0.15:
        return rng.choice([0, 1, 0xabc, 2 ** 128 - 1, 2 ** 127, 16 ** 31, 16 ** 31 - 1])
    return rng.getrandbits(128)


def gen_set(rng, finding=None):
    """list of descriptors (kind, loc, extra...) with distinct locations"""
    n = rng.choice([0, 1, 2, 3, 4, 6, 8, 12])
    out, seen = [], set()
    want_break = finding == "break"
    want_arrow = finding == "arrow"
    tries = 0
    while len(out) < n and tries < 100:
        tries += 1
        kind = rng.choice(["obj", "obj", "sym", "sym", "dir", "dir", "dev", "fif"])
        brk = want_break and rng.random() < 0.5
        loc = gen_path(rng, brk)
        if kind == "sym" and not want_arrow and "->" in loc.split(" "):
            continue
        if kind == "sym" and want_arrow and rng.random() < 0.7:
            loc = loc + rng.choice([" -> b", "/x -> y z", " ->", "/-> q"])
        loc = os.path.normpath(loc)          # what the fs object will carry (random components may contain '/')
        if loc in seen:
            continue
        seen.add(loc)
        if kind == "obj":
            out.append(("obj", loc, gen_md5(rng), gen_mtime(rng)))
        elif kind == "sym":
            out.append(("sym", loc, gen_target(rng, want_break and rng.random() < 0.3), gen_mtime(rng)))
        else:
            out.append((kind, loc))
    return out


# sizes at which buffering/batching/chunking schemes change behaviour: 2^k-1, 2^k, 2^k+1
SIZE_BOUNDARIES = [2 ** k + d for k in range(6, 13) for d in (-1, 0, 1)]
TAILS = ["e%d", "f %d", "ü%d", "%d->x", " %d", "%d ", "日本 %d", "lib%d.so.1", "%d -> y"]


def gen_big_set(rng, n):
    """a large package: n entries spread over a few directories, same entry kinds and path alphabet as gen_set"""
    parents = [gen_path(rng) for _ in range(max(1, n // 40))]
    out, seen, i = [], set(), 0
    while len(out) < n:
        i += 1
        kind = rng.choice(["obj"] * 5 + ["sym", "sym", "dir", "dev", "fif"])
        loc = os.path.normpath(rng.choice(parents) + "/" + rng.choice(TAILS) % i)
        if kind == "sym" and "->" in loc.split(" "):
            kind = "dir"                      # a '->' token in a symlink location is the known-finding class; keep it out
        if loc in seen:
            continue
        seen.add(loc)
        if kind == "obj":
            out.append(("obj", loc, gen_md5(rng), gen_mtime(rng)))
        elif kind == "sym":
            out.append(("sym", loc, gen_target(rng), gen_mtime(rng)))
        else:
            out.append((kind, loc))
    rng.shuffle(out)
    return out


def shrink(items, fails, budget=60):
    """delta debugging (complement removal) with a bounded number of evaluations of `fails`"""
    cur, n = list(items), 2
    while len(cur) >= 2 and budget > 0:
        size = max(1, len(cur) // n)
        chunks = [cur[i:i + size] for i in range(0, len(cur), size)]
        reduced = False
        for j in range(len(chunks)):
            if budget <= 0:
                break
            cand = [d for k, ch in enumerate(chunks) if k != j for d in ch]
            budget -= 1
            if fails(cand):
                cur, n, reduced = cand, max(n - 1, 2), True
                break
        if not reduced:
            if size == 1:
                break
            n = min(len(cur), n * 2)
    return cur


def build(fs, d):
    if d[0] == "obj":
        return fs.fsFile(d[1], chksums={"md5": d[2]}, mtime=d[3], strict=False)
    if d[0] == "sym":
        return fs.fsSymlink(d[1], d[2], mtime=d[3], strict=False)
    if d[0] == "dir":
        return fs.fsDir(d[1], strict=False)
    if d[0] == "dev":
        return fs.fsDev(d[1], strict=False)
    return fs.fsFifo(d[1], strict=False)


def canon_obj(o):
    if o.is_reg:
        return ["obj", o.location, str(o.chksums["md5"]), str(o.mtime) if isinstance(o.mtime, int) else repr(o.mtime)]
    if o.is_sym:
        return ["sym", o.location, o.target, str(o.mtime) if isinstance(o.mtime, int) else repr(o.mtime)]
    if o.is_dir:
        return ["dir", o.location]
    if o.is_dev:
        return ["dev", o.location]
    if o.is_fifo:
        return ["fif", o.location]
    return ["?", o.location]


def expected_of(objs):
    """what the property says must come back: type, path, md5, integral mtime, target"""
    out = []
    for o in objs:
        c = canon_obj(o)
        if c[0] in ("obj", "sym"):
            c[3] = str(int(o.mtime))
        out.append(c)
    return sorted(out)


def has_break(descs):
    return any(("\n" in s or "\r" in s) for d in descs for s in (d[1:3] if d[0] == "sym" else d[1:2]))


def has_arrow(descs):
    return any(d[0] == "sym" and "->" in d[1].split(" ") for d in descs)


CORPUS = [
    [("obj", "/usr/bin/a b", 0xabc, 12.7), ("sym", "/usr/lib/x", "tgt -> z", 5), ("dir", "/usr/share/d "), ("fif", "/var/f")],
    [("dir", "/usr/share/d "), ("dev", "/dev/trailing\t"), ("fif", "/var/run/fifo\xa0"), ("dir", "/ lead")],      # fixed: white space ending a path
    [("dev", "/dev/null"), ("dev", "/dev/nonexistent-zz"), ("dev", "/etc/passwd"), ("dev", "/tmp"),
     ("dev", "/bin/dir/python3.12/ lead"), ("dev", "/etc/passwd/x")],                                             # fixed: dev entries need not exist (ENOENT, ENOTDIR)
    [("sym", "/usr/lib/x -> y", "t", 1)],                                                                         # finding: '->' token in location
    [("sym", "/a ->", "t", 1), ("sym", "/b", "->", 2), ("sym", "/c", "", 3), ("sym", "/d->e", "x->y", 4)],
    [("dir", "/a\nb")], [("obj", "/a\rb", 5, 5)], [("sym", "/l", "t\nu", 1)],                                      # finding: line breaks
    [("obj", "/zero", 0, 0), ("obj", "/max", 2 ** 128 - 1, -1), ("obj", "/neg", 1, -0.5), ("obj", "/big", 16 ** 31, 10 ** 18)],
    [("dir", "/obj"), ("dir", "/sym -> x 1"), ("dir", "/dir"), ("fif", "/obj x 00000000000000000000000000000abc 12")],
    [],
    [("obj", "/é/日本語/\U0001f600 x", 7, 7), ("sym", "/ü ber", "é -> ü", 8)],
]

RAW_PATHS = ["", ".", "/", "//", "///", "//a", "///a", "a", "a/", "a//b", "./a", "a/.", "a/..", "a/../..", "/..", "/../a", "../a", "../../a/..", "a/b/../../..",
             "/a/./b/../c/", "//a/../..", " /a ", "/a /../b", "a/./", "/.", "/./", "...", "/a/.../b", "/a//", "//a//b//"]

RAW_TEXTS = [
    "", "\n", "\n\n", "dir /a", "dir /a\n\ndir /b\n", "dir /a\r\ndir /b\r\n", "dir /a\rdir /b", "dir /a \n", "dir  /a\n", "dir\n", "dir \n", "dir //a/./b/\n",
    "dir /a\ndir /a\n", "dir /a\nfif /a\n", "obj /a 0abc 5\nobj /a 0abd 6\n", "bogus /a\n", " dir /a\n", "obj\n", "obj /a\n", "obj /a 5\n", "obj /a zz 5\n",
    "obj /a 0ABC 5\n", "obj /a 0abc +5\n", "obj /a 0abc -5\n", "obj /a 0abc x\n", "obj /a 0abc\n", "obj  0abc 5\n", "obj 0abc 5\n", "sym /a b 5\n", "sym /a -> b\n",
    "sym /a -> b x\n", "sym -> 5\n", "sym /a -> 5\n", "sym /a ->  5\n", "sym /a -> -> b 5\n", "sym -> -> 5\n", "sym\n", "dev /dev/none\n", "fif /f\n",
    "dir /a\x0bb\n", "dir /a\x0c\n", "dir /a b\n", "dir /a\x85\n", "dir /a\n\x1c\n",
]


def run(ctx):
    from pkgcore.fs import fs
    from pkgcore.fs.contents import contentsSet
    from pkgcore.vdb.contents import ContentsFile

    rng = ctx.rng
    root = os.path.realpath(tempfile.mkdtemp(prefix="verif-c24-"))
    path = os.path.join(root, "CONTENTS")
    tmp_path = os.path.join(root, ".update.CONTENTS")

    def read_text(p=path):
        with open(p, encoding="utf8", newline="") as f:
            return f.read()

    def read_set():
        try:
            return sorted(canon_obj(o) for o in ContentsFile(path)), None
        except Exception as e:
            return None, type(e).__name__

    try:
        # ---------------- normpath model vs os.path.normpath (edge A for the one non-trivial string function)
        raw = list(RAW_PATHS) + ["/".join(rng.choice(["", ".", "..", "a", "b c", " "]) for _ in range(rng.randrange(1, 7))) for _ in range(ctx.n(300, 3000))]
        for p, rep in zip(raw, ctx.model([{"cmd": "c24.normpath", "path": p} for p in raw])):
            ctx.case({"normpath": p}, False)
            if rep != os.path.normpath(p):
                ctx.mismatch({"normpath": p}, f"os.path.normpath gives {os.path.normpath(p)!r}, the model {rep!r}")
            if os.path.normpath(os.path.normpath(p)) != os.path.normpath(p):
                ctx.mismatch({"normpath": p}, "os.path.normpath is not idempotent here (the Normalised assumption would be wrong)")

        # ---------------- hand-made file texts: reader only
        reqs = []
        got_raw = []
        for t in RAW_TEXTS:
            with open(path, "w", encoding="utf8", newline="") as f:
                f.write(t)
            got_raw.append(read_set())
            reqs.append({"cmd": "c24.read", "text": t})
        for t, (got, err), rep in zip(RAW_TEXTS, got_raw, ctx.model(reqs)):
            case = {"raw_text": t}
            ctx.case(case, False)
            ctx.count("raw_" + ("raise" if err else "ok"))
            if err is not None:
                if rep != "raise":
                    ctx.mismatch(case, f"ContentsFile raised {err}, the model reads {rep}")
            elif rep == "raise" or sorted(rep["ok"]) != got:
                ctx.mismatch(case, f"ContentsFile read {got}, the model {rep}")

        # ---------------- generated sets: write over the previous file, read back
        sets = [(list(c), "corpus") for c in CORPUS]
        if ctx.replay_cases:
            for c in ctx.replay_cases:
                if "set" in c:
                    sets.insert(0, ([tuple(d) for d in c["set"]], "replay"))
        for _ in range(ctx.n(1500, 40000)):
            r = rng.random()
            sets.append((gen_set(rng, "break" if r < 0.02 else "arrow" if r < 0.04 else None), "gen"))
        n_small = len(sets)                  # the fault/crash sections below draw from the small sets only
        # large packages: sizes at the 2^k boundaries and a few random large ones (installed packages have up to tens of thousands of entries)
        big_sizes = (rng.sample(SIZE_BOUNDARIES, 3) + [rng.randrange(1500, 6000)] if ctx.quick() else
                     SIZE_BOUNDARIES + [rng.randrange(1500, 10000) for _ in range(6)])
        for n in big_sizes:
            sets.append((gen_big_set(rng, n), "gen-large"))
        reqs, meta = [], []
        os.path.exists(path) and os.unlink(path)
        traces = 0
        for idx, (descs, origin) in enumerate(sets):
            case = {"set": [list(d) for d in descs], "origin": origin}
            try:
                objs = [build(fs, d) for d in descs]
                c = ContentsFile(path, mutable=True, create=True)
                for o in objs:
                    c.add(o)
                do_trace = idx % 10 == 0
                if do_trace:
                    trace_on(root)
                try:
                    c.flush()
                finally:
                    events = trace_off() if do_trace else None
                werr = None
            except Exception as e:
                werr, events = f"{type(e).__name__}: {e}", None
            if werr is not None:
                ctx.case(case, False)
                ctx.violation(case, f"building/flushing the set raised {werr}")
                continue
            text = read_text()
            got, rerr = read_set()
            exp = expected_of(objs)
            model_entries = [[d[0], o.location] + ([str(d[2]), str(int(d[3]))] if d[0] == "obj" else [d[2], str(int(d[3]))] if d[0] == "sym" else [])
                             for d, o in zip(descs, objs)]
            reqs.append({"cmd": "c24.render", "entries": model_entries})
            reqs.append({"cmd": "c24.read", "text": text})
            if events is not None:
                reqs.append({"cmd": "c24.flushops", "dir": root, "base": "CONTENTS", "chunks": [text]})
            meta.append((case, descs, text, got, rerr, exp, events, os.path.exists(tmp_path)))
        spath = os.path.join(root, "shrink", "CONTENTS")
        os.mkdir(os.path.dirname(spath))

        def roundtrip_problem(ds):
            """the property's statement on the real code for one set: None when it holds, else what came back wrong"""
            try:
                objs = [build(fs, d) for d in ds]
                os.path.exists(spath) and os.unlink(spath)
                c = ContentsFile(spath, mutable=True, create=True)
                c.update(objs)
                c.flush()
            except Exception as e:
                return f"building/flushing the set raised {type(e).__name__}: {e}"
            exp = expected_of(objs)
            try:
                got = sorted(canon_obj(o) for o in ContentsFile(spath))
            except Exception as e:
                return f"reading back raised {type(e).__name__}: {str(e)[:200]}"
            if got != exp:
                gs, es = {tuple(e) for e in got}, {tuple(e) for e in exp}
                return (f"{len(got)} read back: {[e for e in got if tuple(e) not in es][:2]} instead of {[e for e in exp if tuple(e) not in gs][:2]}")
            return None
        shrunk_reports = 0
        replies = iter(ctx.model(reqs))
        for case, descs, text, got, rerr, exp, events, tmp_left in meta:
            mtext, mread = next(replies), next(replies)
            mops = next(replies) if events is not None else None
            brk, arrow = has_break(descs), has_arrow(descs)
            nontrivial = len(descs) >= 2 and any((" " in d[1] or "->" in d[1] or any(ord(ch) > 127 for ch in d[1])) for d in descs)
            shown = case if len(descs) <= 50 else {"set": "(%d entries; first 3: %r)" % (len(descs), [list(d) for d in descs[:3]]), "origin": case["origin"]}
            ctx.case(shown, nontrivial, key=repr(descs))
            ctx.count("set_size_%s" % (len(descs) if len(descs) <= 12 else "13-1024" if len(descs) <= 1024 else "1025+"))
            for d in descs:
                ctx.count("kind_" + d[0])
                if d[1] != d[1].strip():
                    ctx.count("path_with_outer_whitespace")
                if "->" in d[1]:
                    ctx.count("path_with_arrow_fragment")
                if any(ord(ch) > 127 for ch in d[1]):
                    ctx.count("path_non_ascii")
                if d[0] in ("obj", "sym") and isinstance(d[3], float):
                    ctx.count("float_mtime")
            if brk:
                ctx.count("class_linebreak")
            if arrow:
                ctx.count("class_arrow_token")
            # --- edge A
            if mtext != text:
                ctx.mismatch(case, f"CONTENTS text differs from the model: {text[:200]!r} vs {str(mtext)[:200]!r}")
            if rerr is not None:
                if mread != "raise":
                    ctx.mismatch(case, f"ContentsFile raised {rerr}, the model reads {str(mread)[:200]}")
            elif mread == "raise" or sorted(mread["ok"]) != got:
                ctx.mismatch(case, f"ContentsFile read {str(got)[:300]}, the model {str(mread)[:300]}")
            if events is not None:
                ctx.traces += 1
                want = [[o[0]] + o[1:] for o in mops if o[0] not in ("write", "close")]
                have = [list(e) for e in events]
                if have != want:
                    ctx.mismatch(case, f"os-level operations of flush() {have} differ from the model's {want}")
            if tmp_left:
                ctx.violation(case, "a temporary file is left behind after flush()")
            # --- edge C: the property
            if rerr is not None or got != exp:
                gs, es = {tuple(e) for e in got or []}, {tuple(e) for e in exp}
                detail = (f"reading back raised {rerr}" if rerr is not None else
                          f"read back {[e for e in got if tuple(e) not in es][:3]} instead of {[e for e in exp if tuple(e) not in gs][:3]}")
                finding = "C24-linebreak-in-path" if brk else "C24-symlink-arrow-token" if arrow else None
                if finding is None and len(descs) > 3 and shrunk_reports < 3:
                    # a smaller set on which the property's own statement still fails (fresh object, fresh file, fresh re-read)
                    shrunk_reports += 1
                    small = shrink(descs, lambda ds: roundtrip_problem(ds) is not None)
                    prob = roundtrip_problem(small)
                    if prob is not None and len(small) < len(descs):
                        case = {"set": [list(d) for d in small], "origin": f"shrunk from a {len(descs)}-entry {case['origin']} set"}
                        detail = f"{len(small)} entries written, " + prob
                ctx.violation(case, detail, finding=finding)

        # ---------------- mutation histories on long-lived objects, flush, re-read with a fresh object
        def mentry(d):
            o = build(fs, d)
            return [d[0], o.location] + ([str(d[2]), str(int(d[3]))] if d[0] == "obj" else [d[2], str(int(d[3]))] if d[0] == "sym" else [])

        def gen_entry(avoid=()):
            for _ in range(50):
                ds = gen_set(rng)
                ds = [d for d in ds if os.path.normpath(d[1]) not in avoid]
                if ds:
                    return rng.choice(ds)
            return ("dir", "/fallback-%d" % rng.randrange(10 ** 6))
        hreqs, hmeta = [], []
        for hidx in range(ctx.n(120, 5000)):
            os.path.exists(path) and os.unlink(path)
            init = gen_set(rng)
            c0 = ContentsFile(path, mutable=True, create=True)
            for d in init:
                c0.add(build(fs, d))
            c0.flush()
            cur = {build(fs, d).location: d for d in init}           # oracle: location -> descriptor
            obj = c0 if rng.random() < 0.4 else ContentsFile(path, mutable=True)     # keep the writer, or load afresh
            base_entries = [mentry(d) for d in cur.values()]
            all_ops, calls = [], []
            for rnd in range(rng.choice([1, 1, 2, 3])):
                for _ in range(rng.choice([1, 1, 2, 4])):
                    present = list(cur)
                    k = rng.choice(["add", "replace", "remove", "del", "discard_obj", "discard_str", "discard_absent", "clear", "update",
                                    "difference", "difference_self", "intersection", "symdiff"])
                    if k in ("remove", "del", "discard_obj", "discard_str", "replace") and not present:
                        k = "add"
                    if k == "add":
                        d = gen_entry(avoid=cur)
                        o = build(fs, d)
                        obj.add(o); cur[o.location] = d
                        all_ops.append(["add", mentry(d)])
                    elif k == "replace":
                        loc = rng.choice(present)
                        d = rng.choice([("dir", loc), ("fif", loc), ("obj", loc, gen_md5(rng), gen_mtime(rng)), ("sym", loc, "t -> x", 5)])
                        obj.add(build(fs, d)); cur[loc] = d
                        all_ops.append(["add", mentry(d)])
                    elif k in ("remove", "del", "discard_obj", "discard_str"):
                        loc = rng.choice(present)
                        if k == "remove":
                            obj.remove(build(fs, cur[loc]))
                        elif k == "del":
                            del obj[loc]
                        elif k == "discard_obj":
                            obj.discard(build(fs, cur[loc]))
                        else:
                            obj.discard(loc)
                        del cur[loc]
                        all_ops.append(["discard", loc])
                    elif k == "discard_absent":
                        obj.discard("/not/there-%d" % rng.randrange(100))
                        all_ops.append(["discard", "/not/there"])
                    elif k == "clear":
                        obj.clear(); cur.clear()
                        all_ops.append(["clear"])
                    elif k == "update":
                        ds = [gen_entry() for _ in range(rng.randrange(0, 4))]
                        obj.update([build(fs, d) for d in ds])
                        for d in ds:
                            cur[build(fs, d).location] = d
                        all_ops.append(["update", [mentry(d) for d in ds]])
                    elif k == "difference_self":
                        obj.difference_update(obj); cur.clear()
                        all_ops.append(["clear"])
                    elif k in ("difference", "intersection"):
                        locs = rng.sample(present, rng.randrange(0, len(present) + 1)) if present else []
                        other = contentsSet([build(fs, cur[l]) for l in locs] + [fs.fsDir("/other-%d" % rng.randrange(50), strict=False)])
                        if k == "difference":
                            obj.difference_update(other)
                            for l in locs:
                                cur.pop(l, None)
                        else:
                            obj.intersection_update(other)
                            for l in list(cur):
                                if l not in locs:
                                    del cur[l]
                        all_ops.append([k, [o.location for o in other]])
                    else:
                        locs = rng.sample(present, rng.randrange(0, len(present) + 1)) if present else []
                        newd = [gen_entry(avoid=cur) for _ in range(rng.randrange(0, 3))]
                        od = {build(fs, d).location: d for d in [cur[l] for l in locs] + newd}
                        obj.symmetric_difference_update(contentsSet([build(fs, d) for d in od.values()]))
                        for l, d in od.items():
                            if l in cur:
                                del cur[l]
                            else:
                                cur[l] = d
                        all_ops.append(["symdiff", [mentry(d) for d in od.values()]])
                    calls.append(k)
                try:
                    obj.flush()
                    ferr = None
                except Exception as e:
                    ferr = f"{type(e).__name__}: {e}"
                text = read_text() if os.path.exists(path) else None
                got, rerr = read_set()
                exp = expected_of([build(fs, d) for d in cur.values()])
                hreqs.append({"cmd": "c24.history", "initial": base_entries, "ops": [list(o) for o in all_ops]})
                hmeta.append(({"history": list(calls), "round": rnd, "loaded_object": obj is not c0, "initial": [list(d) for d in init],
                               "ops": [list(o) for o in all_ops]}, text, got, rerr, exp, ferr, has_break(cur.values()) or has_arrow(cur.values())))
        for (case, text, got, rerr, exp, ferr, special), rep in zip(hmeta, ctx.model(hreqs)):
            ctx.case(case, len(case["history"]) >= 2, key=repr(case))
            for k in case["history"]:
                ctx.count("op_" + k)
            ctx.count("history_on_" + ("loaded" if case["loaded_object"] else "kept") + "_object")
            if ferr is not None:
                ctx.violation(case, f"flush() after a history of set operations raised {ferr}")
                continue
            if rep == "bad-op":
                ctx.mismatch(case, "driver rejected the history request")
                continue
            if rep["text"] != text:
                ctx.mismatch(case, f"CONTENTS after the history differs from the model's text for the model's final set: {str(text)[:160]!r} vs {rep['text'][:160]!r}")
            if special:
                continue
            if rerr is not None or got != exp:
                ctx.violation(case, "after flush() a fresh ContentsFile does not show the set the object holds: "
                              f"{'raised ' + rerr if rerr else ''}extra {[e for e in (got or []) if e not in exp][:3]}, missing {[e for e in exp if e not in (got or [])][:3]}")

        # ---------------- flushes that fail: the previous file must survive
        class fsUnknown(fs.fsBase):
            __slots__ = ()

        def poison(kind, loc):
            if kind == "unknown-type":
                return fsUnknown(loc, strict=False)
            if kind == "file-without-md5":
                return fs.fsFile(loc, chksums={"sha1": 1}, mtime=5, strict=False)
            if kind == "link-without-mtime":
                return fs.fsSymlink(loc, "target", strict=False)
            return fs.fsDir(loc + "\udc80", strict=False)          # lone surrogate: cannot be encoded when the text reaches the file
        import pkgcore.vdb.contents as cmod
        RealAWF = cmod.AtomicWriteFile
        freqs, fmeta = [], []
        fault_sets = [s for s, _ in sets[:n_small] if s and not has_break(s) and not has_arrow(s)][: ctx.n(30, 400)]
        for fi, descs in enumerate(fault_sets):
            os.path.exists(path) and os.unlink(path)
            os.path.exists(tmp_path) and os.unlink(tmp_path)
            c = ContentsFile(path, mutable=True, create=True)
            for d in [("dir", "/previous"), ("obj", "/previous/file", 1, 1), ("sym", "/previous/l", "file", 2)]:
                c.add(build(fs, d))
            c.flush()
            old_text, (old_set, _) = read_text(), read_set()
            objs = [build(fs, d) for d in descs]
            exp = expected_of(objs)
            locs = sorted(o.location for o in objs)
            mode = ["poison", "write-raises", "os-error"][fi % 3]
            c = ContentsFile(path, mutable=True, create=True)
            c.update(objs)
            case = {"failing_flush": mode, "set_size": len(descs)}
            raised = None
            if mode == "poison":
                kind = rng.choice(["unknown-type", "file-without-md5", "link-without-mtime", "surrogate-path"])
                mid = locs[len(locs) // 2] + "~poison"           # sorts into the middle of the set
                c.update([poison(kind, mid)])
                case["poison"] = kind
                trace_on(root)
            elif mode == "write-raises":
                k = rng.randrange(0, len(objs))
                exc = rng.choice([lambda: RuntimeError("injected"), KeyboardInterrupt, MemoryError, lambda: OSError(errno.ENOSPC, "injected")])
                case.update(at_write=k, exception=type(exc()).__name__)

                class FaultyAWF(RealAWF):
                    __slots__ = ("_n",)

                    def write(self, data, _k=k, _exc=exc):
                        n = getattr(self, "_n", 0)
                        self._n = n + 1
                        if n == _k:
                            raise _exc()          # a fresh exception object: nothing but the traceback keeps the file object alive
                        return self.raw.write(data)
                cmod.AtomicWriteFile = FaultyAWF
                trace_on(root)
            else:
                j = rng.randrange(0, 4)                           # creat, chmod, chown, rename
                case.update(error_at_operation=j)
                trace_on(root, faults={j: "oserror"})
            try:
                c.flush()
            except BaseException as e:
                raised = type(e).__name__
            finally:
                gc.collect()                      # nothing of the failed flush may linger (its temp file goes when the object goes)
                events = trace_off()
                cmod.AtomicWriteFile = RealAWF
            del c
            after_text = read_text() if os.path.exists(path) else None
            after_set, after_err = read_set()
            ctx.case(case, True, key=repr((fi, case)))
            ctx.count("failing_flush_" + mode)
            ctx.count("failing_flush_raised_" + str(raised))
            if raised is None and mode != "os-error":
                ctx.mismatch(case, "the injected failure did not make flush() raise")
            if raised is None and (after_err is not None or after_set != exp):
                ctx.violation(case, f"flush() returned normally but a fresh ContentsFile does not show the set that was flushed ({after_err or 'different entries'})")
            elif raised is not None and after_text != old_text:
                ctx.violation(case, f"flush() failed with {raised} but CONTENTS changed: {len(after_text or '')} chars instead of the previous {len(old_text)}"
                              f" (first line now {(after_text or '').splitlines()[:1]})")
            elif after_err is not None or after_set not in (old_set, exp):
                ctx.violation(case, f"after a failed flush() a reader sees neither the old nor the new set ({after_err or 'different entries'})")
            if os.path.exists(tmp_path):
                ctx.note("a failed flush() left .update.CONTENTS behind")
            if mode != "os-error" and raised is not None:
                freqs.append({"cmd": "c24.abortops", "dir": root, "base": "CONTENTS", "written": []})
                fmeta.append((case, events))
        for (case, events), mops in zip(fmeta, ctx.model(freqs)):
            want = [o for o in mops if o[0] not in ("write", "close")]
            if [list(e) for e in events] != want:
                ctx.mismatch(case, f"os-level operations of the failing flush {[list(e) for e in events]} differ from the model's abort sequence {want}")

        # ---------------- crash injection on the real code
        crash_sets = [s for s, _ in sets[:n_small] if not has_break(s) and not has_arrow(s) and s][: ctx.n(14, 120)]
        big = [("obj", "/big/file %05d %s" % (i, "x" * 40), i, i) for i in range(400)]      # > one stdio buffer: several write(2) calls
        crash_sets.insert(0, big)
        old_descs = [("dir", "/previous"), ("obj", "/previous/file", 1, 1), ("sym", "/previous/l", "file", 2)]
        creqs, cmeta = [], []
        for descs in crash_sets:
            # old state
            c = ContentsFile(path, mutable=True, create=True)
            for d in old_descs:
                c.add(build(fs, d))
            c.flush()
            old_text, (old_set, _) = read_text(), read_set()
            objs = [build(fs, d) for d in descs]
            exp = expected_of(objs)
            # uncrashed reference run to learn the new text and the number of audited operations
            c = ContentsFile(path, mutable=True, create=True)
            for o in objs:
                c.add(o)
            trace_on(root)
            c.flush()
            nev = len(trace_off())
            new_text = read_text()
            points = [("event", j) for j in range(nev)] + [("fsize", rng.randrange(0, max(1, len(new_text.encode("utf8"))))) for _ in range(2)]
            for kind, arg in points:
                with open(path, "w", encoding="utf8", newline="") as f:
                    f.write(old_text)
                os.path.exists(tmp_path) and os.unlink(tmp_path)
                pid = os.fork()
                if pid == 0:
                    try:
                        c = ContentsFile(path, mutable=True, create=True)
                        for o in objs:
                            c.add(o)
                        if kind == "event":
                            trace_on(root, crash_at=arg)
                        else:
                            signal.signal(signal.SIGXFSZ, signal.SIG_DFL)
                            resource.setrlimit(resource.RLIMIT_FSIZE, (arg, arg))
                        c.flush()
                    finally:
                        os._exit(0)
                _, status = os.waitpid(pid, 0)
                crashed = (os.WIFEXITED(status) and os.WEXITSTATUS(status) == 99) or os.WIFSIGNALED(status)
                after_text = read_text()
                after_set, after_err = read_set()
                tmp_text = None
                if os.path.exists(tmp_path):
                    with open(tmp_path, "rb") as f:      # a crash in mid-write may cut a multi-byte character
                        tmp_text = f.read().decode("utf8", "ignore")
                case = {"crash": kind, "at": arg, "set_size": len(descs), "first": list(descs[0])}
                ctx.case(case, True, key=repr((kind, arg, descs)))
                ctx.count("crash_%s" % kind)
                ctx.count("crashed" if crashed else "completed")
                if not crashed and kind == "event":
                    ctx.mismatch(case, f"the child did not crash at operation {arg} (status {status})")
                if after_text not in (old_text, new_text):
                    ctx.violation(case, f"after a crash CONTENTS is neither the old nor the new file ({len(after_text)} chars; old {len(old_text)}, new {len(new_text)})")
                elif after_err is not None or after_set not in (old_set, exp):
                    ctx.violation(case, f"after a crash a reader sees neither the old nor the new set ({after_err or 'different entries'})")
                if crashed and old_text != new_text and after_text == new_text and not (kind == "event" and arg >= nev):
                    ctx.mismatch(case, "target already replaced although the crash came before the rename")
                if tmp_text is not None and not new_text.startswith(tmp_text):
                    ctx.mismatch(case, "the temporary file holds something that is not a prefix of the new text")
                # the model at the corresponding prefix
                if kind == "event":
                    k = arg if arg < 3 else 5            # ops: creat chmod chown write close rename; event 3 = rename
                    creqs.append({"cmd": "c24.crash", "dir": root, "base": "CONTENTS", "chunks": [new_text], "k": k, "fs": [[path, old_text]]})
                    cmeta.append((case, after_text, tmp_text, False))
                else:
                    part = tmp_text or ""
                    creqs.append({"cmd": "c24.crash", "dir": root, "base": "CONTENTS", "chunks": [part, new_text[len(part):]], "k": 4, "fs": [[path, old_text]]})
                    cmeta.append((case, after_text, tmp_text, True))
        for (case, after_text, tmp_text, partial), rep in zip(cmeta, ctx.model(creqs)):
            if rep["target"] != after_text:
                ctx.mismatch(case, "file system after the crash: target differs from the model's prefix state")
            if (rep["tmp"] or "") != (tmp_text or "") and not (partial and tmp_text is None):
                ctx.mismatch(case, f"file system after the crash: temp file {None if tmp_text is None else len(tmp_text)} chars, model {None if rep['tmp'] is None else len(rep['tmp'])}")
    finally:
        trace_off()
        shutil.rmtree(root, ignore_errors=True)


LEVEL_TEXT = ("Kernel-checked Lean 4 theorems about a model of ContentsFile._write/_iter_contents/flush: for every contents set (any size, any code "
              "points, any md5/mtime) whose entries the line format can represent, reading the written text returns exactly the same entries "
              "(contents_roundtrip_partial; the two unrepresentable classes — line break in a path, '->' token in a symlink location — are proved to "
              "fail: *_counterexample); flush() = temp file + rename leaves at every prefix of its operation list the old or the complete new file and "
              "touches nothing else (flush_atomic, atomic_replace_prefix, flush_reader_sees_old_or_new, flush_touches_nothing_else). Tied to the code by "
              "differential runs on generated sets, raw texts, recorded os-level operation traces and real crashes (fork/_exit at each operation, SIGXFSZ "
              "mid-write).")
LEVEL_NOTE = ("Trusted: Lean kernel, standard axioms; Python string/number primitives as re-expressed; atomic rename(2); process-crash model (no fsync); "
              "UTF-8 locale.")
