"""C03 — atom syntax acceptance matches the PMS grammar for each EAPI and round-trips."""

PID = "C03"
LEAN_MODULES = ["Pkgcore.Props.C03"]
OBLIGATIONS = []
TRUSTED = []
ASSUMPTIONS = []
RULE = ""
LEVEL_TEXT = ""
LEVEL_NOTE = ""

EAPIS = [str(i) for i in range(10)]


def lean_str(s):
    out = []
    for ch in s:
        if ch == "\\":
            out.append("\\\\")
        elif ch == '"':
            out.append('\\"')
        elif 32 <= ord(ch) < 127:
            out.append(ch)
        else:
            out.append("\\u{%x}" % ord(ch))
    return '"' + "".join(out) + '"'


def gen_tables(repo):
    """per-EAPI atom feature gates (eapi.py), the character sets of atom.py and the patterns of cpv.py / eapi.py, by introspection"""
    from pkgcore.ebuild import atom as atom_mod
    from pkgcore.ebuild import cpv
    from pkgcore.ebuild import eapi as eapi_mod

    def opts(o):
        b = lambda x: "true" if x else "false"
        return "⟨%s, %s, %s, %s, %s⟩" % (b(o.has_slot_deps), b(o.has_use_deps), b(o.strong_blockers), b(o.has_use_dep_defaults), b(o.sub_slotting))

    rows = []
    for e in EAPIS:
        obj = eapi_mod.EAPI.known_eapis.get(e) or eapi_mod.EAPI.unknown_eapis.get(e)
        if obj is not None:
            rows.append("(%s, %s)" % (e, opts(obj.options)))
    latest = eapi_mod.get_eapi(eapi_mod.LATEST_PMS_EAPI_VER)

    def pat(r):
        return lean_str(getattr(r, "pattern", None) or r._args[0])

    def chars(s):
        return "[" + ", ".join(str(ord(c)) for c in sorted(s)) + "]"

    text = ("-- GENERATED from /repo by harness/props/c03.py (gen_tables); do not edit\n"
            "namespace Pkgcore.Generated.C03\n"
            "/-- `eapi_obj.options.{has_slot_deps, has_use_deps, strong_blockers, has_use_dep_defaults, sub_slotting}` -/\n"
            "structure Opts where\n  hasSlotDeps : Bool\n  hasUseDeps : Bool\n  strongBlockers : Bool\n  useDepDefaults : Bool\n  subSlotting : Bool\n"
            "  deriving DecidableEq, Repr\n"
            f"def eapiOpts : List (Nat × Opts) := [{', '.join(rows)}]\n"
            f"def latestPmsEapi : String := {lean_str(eapi_mod.LATEST_PMS_EAPI_VER)}\n"
            f"def latestOpts : Opts := {opts(latest.options)}\n"
            f"def validSlotChars : List Nat := {chars(atom_mod.valid_slot_chars)}\n"
            f"def validRepoChars : List Nat := {chars(atom_mod.valid_repo_chars)}\n"
            f"def validOps : List String := [{', '.join(lean_str(x) for x in sorted(atom_mod.valid_ops))}]\n"
            f"def versionPattern : String := {pat(cpv.isvalid_version_re)}\n"
            f"def categoryPattern : String := {pat(cpv.isvalid_cat_re)}\n"
            f"def packagePattern : String := {pat(cpv._pkg_re)}\n"
            f"def useFlagPattern : String := {pat(eapi_mod._valid_use_flag)}\n"
            "end Pkgcore.Generated.C03\n")
    return {"Pkgcore/Generated/C03Tables.lean": text}


# ---------------------------------------------------------------- the PMS grammar as a generator (AST -> text)

import re

SUFS = ["alpha", "beta", "pre", "rc", "p"]
OPS = ["", "", "<", "<=", "=", "=*", ">=", ">", "~"]
ALNUM = "abcdefghijklmnopqrstuvwxyzABCDEFGHIJKLMNOPQRSTUVWXYZ0123456789"
CATS = ["a", "dev-lang", "x11-libs", "_x", "a.b", "c+", "0ad", "virtual", "A-Z_9.+-"]
PKGS = ["b", "python", "b-c", "gtk+", "b-r1", "b-1-foo", "b-", "b--c", "b-r", "b-rc", "b-1x2", "1", "1-r1", "_", "b_1", "lib-1_", "r1", "b-alpha", "b-1_q",
        "b-2a-", "b-pre1", "font-adobe-100dpi", "b-1.x".replace(".", "_"), "b-01r", "b-r01-x"]
SLOTS = ["0", "1", "1.2", "a_b", "_", "9+", "azAZ.-+_09", "0-", "stable"]
REPOS = ["gentoo", "r-1", "_", "a_b-c", "0", "Z9"]
FLAGS = ["x", "y", "foo", "a+b", "z_9", "python_targets_python3-11", "0", "s@t", "X-"]
# characters inserted / substituted by the malformed-input stream: every syntax character of the grammar, each character class' neighbours,
# white space and a few non-ASCII code points (Arabic-Indic and superscript digits, fullwidth / accented letters)
ALPHABET = list("!<>=~*/:-_.+@[](),?#%$&|{}\"'\\ \t\n0159rpabzAZ") + ["\u0661", "\u00b2", "\uff21", "\u00e9", "\u00df", "\u0663"]
_VERLIKE = re.compile(r"[0-9]+[a-zA-Z]?(?:_(?:alpha|beta|pre|rc|p)[0-9]*)*(?:-r[0-9]+)?\Z")
_PKGCHARS = re.compile(r"[A-Za-z0-9_][A-Za-z0-9+_-]*\Z")


def feats(e):
    """PMS feature table (EAPI e = 0..9, None = no EAPI given): slot deps, USE deps, !!, USE defaults, sub-slots and := :*, ::repo"""
    if e is None:
        return {"slot": True, "use": True, "strong": True, "usedef": True, "sub": True, "repo": True}
    return {"slot": e >= 1, "use": e >= 2, "strong": e >= 2, "usedef": e >= 4, "sub": e >= 5, "repo": False}


def pms_pkg_ok(name):
    """PMS 3.1.2: [A-Za-z0-9+_-]+, not starting with - or +, not ending in a hyphen followed by something version-like
    (the version letter taken as [a-zA-Z]: names with an upper-case tail such as b-1A belong to the open finding and are kept out of the generator)"""
    if not _PKGCHARS.match(name):
        return False
    return not any(name[i] == "-" and _VERLIKE.match(name[i + 1:]) for i in range(len(name)))


def gen_name(rng, first, rest, lo=1, hi=6):
    return rng.choice(first) + "".join(rng.choice(rest) for _ in range(rng.randint(lo - 1, hi - 1)))


def gen_pkgname(rng):
    for _ in range(50):
        k = rng.random()
        if k < 0.45:
            name = rng.choice(PKGS)
        else:
            chunks = [gen_name(rng, ALNUM + "_", ALNUM + "+_", 1, 4)]
            for _ in range(rng.choice([0, 0, 1, 1, 2, 3])):
                j = rng.random()
                if j < 0.1:
                    chunks.append("")
                elif j < 0.3:
                    chunks.append(rng.choice(["r1", "r", "1a1", "1_", "rc", "p1", "alpha", "1_px", "01_", "r0x", "1aa"]))
                else:
                    chunks.append(gen_name(rng, ALNUM + "+_", ALNUM + "+_", 1, 4))
            name = "-".join(chunks)
        if pms_pkg_ok(name):
            return name
    return "b"


def gen_vertext(rng):
    comps = [rng.choice(["0", "1", "2", "10", "01", "007", "3", "20240101", "1" + "0" * 20])
             for _ in range(rng.choice([1, 1, 2, 2, 3, 4]))]
    s = ".".join(comps) + rng.choice(["", "", "", "a", "b", "z"])
    for _ in range(rng.choice([0, 0, 0, 1, 1, 2, 3])):
        s += "_" + rng.choice(SUFS) + rng.choice(["", "", "0", "1", "2", "01", "10"])
    return s


def gen_usetok(rng, f):
    pre, suf = rng.choice([("", ""), ("", ""), ("-", ""), ("", "="), ("!", "="), ("", "?"), ("!", "?")])
    dflt = rng.choice(["", "", "(+)", "(-)"]) if f["usedef"] else ""
    flag = rng.choice(FLAGS) if rng.random() < 0.6 else gen_name(rng, ALNUM, ALNUM + "+_@-", 1, 5)
    return pre + flag + dflt + suf


def gen_ast(rng, e):
    """a random atom that the PMS grammar allows under EAPI e (None = no EAPI given)"""
    f = feats(e)
    a = {"cat": rng.choice(CATS) if rng.random() < 0.6 else gen_name(rng, ALNUM + "_", ALNUM + "+_.-", 1, 6), "pkg": gen_pkgname(rng),
         "op": rng.choice(OPS), "ver": None, "rev": None, "blocks": False, "strong": False,
         "slot": None, "subslot": None, "slotop": None, "repo": None, "use": None}
    if a["op"]:
        a["ver"] = gen_vertext(rng)
        a["rev"] = "" if a["op"] == "~" else rng.choice(["", "", "", "0", "1", "01", "007", "12"])
    k = rng.random()
    if k < 0.15:
        a["blocks"] = True
    elif k < 0.3 and f["strong"]:
        a["blocks"] = a["strong"] = True
    k = rng.random()
    if f["slot"] and k < 0.45:
        a["slot"] = rng.choice(SLOTS) if rng.random() < 0.7 else gen_name(rng, ALNUM + "_", ALNUM + "+_.-", 1, 5)
        if f["sub"] and rng.random() < 0.45:
            a["subslot"] = rng.choice(SLOTS) if rng.random() < 0.7 else gen_name(rng, ALNUM + "_", ALNUM + "+_.-", 1, 5)
        if f["sub"] and rng.random() < 0.3:
            a["slotop"] = "="
    elif f["sub"] and k < 0.6:
        a["slotop"] = rng.choice(["=", "*"])
    if f["repo"] and rng.random() < 0.3:
        a["repo"] = rng.choice(REPOS) if rng.random() < 0.7 else gen_name(rng, ALNUM + "_", ALNUM + "_-", 1, 5)
    if f["use"] and rng.random() < 0.45:
        a["use"] = [gen_usetok(rng, f) for _ in range(rng.choice([1, 1, 2, 2, 3, 5]))]
    return a


def ast_text(a):
    cpv = a["cat"] + "/" + a["pkg"]
    if a["op"]:
        cpv += "-" + a["ver"] + ("-r" + a["rev"] if a["rev"] != "" else "")
    s = ("=" + cpv + "*") if a["op"] == "=*" else a["op"] + cpv
    s = ("!!" if a["strong"] else "!" if a["blocks"] else "") + s
    if a["slot"]:
        s += ":" + a["slot"] + ("/" + a["subslot"] if a["subslot"] else "") + ("=" if a["slotop"] == "=" else "")
    elif a["slotop"]:
        s += ":" + a["slotop"]
    if a["repo"]:
        s += "::" + a["repo"]
    if a["use"] is not None:
        s += "[" + ",".join(a["use"]) + "]"
    return s


def ast_attrs(a):
    """the attributes atom.__init__ must produce for a grammar-generated atom"""
    return {"cat": a["cat"], "pkg": a["pkg"], "op": a["op"], "version": a["ver"], "revision": a["rev"], "blocks": a["blocks"], "strong": a["strong"],
            "slot": a["slot"], "subslot": a["subslot"], "slotop": a["slotop"], "repo": a["repo"],
            "use": None if a["use"] is None else sorted(a["use"])}


def impl_attrs(o):
    return {"cat": o.category, "pkg": o.package, "op": o.op, "version": o.version, "revision": None if o.revision is None else o.revision.data,
            "blocks": o.blocks, "strong": o.blocks_strongly, "slot": o.slot, "subslot": o.subslot, "slotop": o.slot_operator, "repo": o.repo_id,
            "use": None if o.use is None else list(o.use)}


def mutate(rng, s):
    """one edit: insert / delete / replace a character (biased towards the syntax characters already present), or a structural single edit"""
    k = rng.random()
    if not s:
        return rng.choice(ALPHABET)
    i = rng.randrange(len(s) + 1)
    if k < 0.4:
        c = rng.choice(ALPHABET) if rng.random() < 0.7 else rng.choice(s)
        return s[:i] + c + s[i:]
    if k < 0.65:
        i = min(i, len(s) - 1)
        return s[:i] + s[i + 1:]
    if k < 0.9:
        i = min(i, len(s) - 1)
        c = rng.choice(ALPHABET) if rng.random() < 0.7 else rng.choice(s)
        return s[:i] + c + s[i + 1:]
    # structural edits named by the property text
    j = rng.randrange(8)
    if j == 0:      # version-like package-name tail
        m = re.search(r"[:\[]", s)
        cut = m.start() if m else len(s)
        return s[:cut] + rng.choice(["-1", "-1.2", "-1a", "-1_p1", "-2-r1", "-1A", "-r1", "-1_", "-01"]) + s[cut:]
    if j == 1:      # missing version: drop everything from the last '-' of the cpv part
        m = re.search(r"[:\[]", s)
        cut = m.start() if m else len(s)
        h = s[:cut].rfind("-")
        return s if h < 0 else s[:h] + s[cut:]
    if j == 2:      # operator added / removed
        return s.lstrip("<>=~") if s[0] in "<>=~" else rng.choice(["<", "<=", "=", ">=", ">", "~", "=="]) + s
    if j == 3:      # bad slot character
        return s + rng.choice([":", ":-1", ":.1", ":+1", ":1/", ":/1", ":1/2/3", ":1,2", ":1=", ":=1", ":*", ":**", ":1::", ":1/2="])
    if j == 4:      # bad USE character
        return s + rng.choice(["[", "[]", "[x,]", "[,x]", "[-x?]", "[!x]", "[x(+)]", "[x()]", "[x(+)(-)]", "[x?=]", "[x!]", "[--x]", "[x][y]", "[x]:1", "[@x]", "[x@]"])
    if j == 5:      # bad repo character
        return s + rng.choice(["::", "::-r", "::r.1", "::r/1", "::r:1", ":::r", "::r::s", "::r+"])
    if j == 6:      # blockers
        return "!" + s
    return s + rng.choice(["*", "-r1", "-r", "-r01", "_p1", ".1", "a"])


CORPUS = [
    # (text, eapi) — the defects found while building (all fixed in the repo) and the boundary cases of the reading notes
    (":1", None), ("[x]", None), ("!", None), ("<", None), ("!!", None), (">", None), ("!<", None), ("::r", None), (":=", None), ("[x]:1", None), (":1", 5), ("!!", 5),
    ("a/b\n", None), ("a\n/b", None), ("=a/b-1\n", None), ("a/b[x\n]", None), ("a/b:1\n", None), ("a/b::r\n", None), ("=a/b-1_p\n", None),
    ("=a/b-\u0661", None), ("=a/b-1-r\u0663", None), ("=a/b-1.\u0661", None), ("=a/b-1_p\u0663", None), ("=a/b-1-r\u00b2", None), ("a/b-\u0661", None),
    ("=", None), ("~", None), ("=*", None), ("a/b:", None), ("a/b::", None), ("a/b:[x]", None), ("a/b:1:", None), ("a/b:1::", None), ("a/b::r:1", None),
    ("a/b:1:2", None), ("a/b[x]:1", None), ("a/b:1[x][y]", None), ("a/b[]", None), ("a/b[x,]", None), ("a/b[!x]", None), ("a/b[-x?]", None),
    ("a/b[!x?]", None), ("a/b[x(+)]", None), ("a/b[x(+)=]", None), ("a/b[x()]", None), ("a/b[(+)]", None), ("a/b[!]", None), ("a/b[?]", None),
    ("a/b[-]", None), ("a/b[=]", None), ("a/b[!?]", None), ("a/b[x?(+)]", None), ("a/b[-x(-)]", None), ("a/b[!-x?]", None), ("a/b[--x]", None),
    ("a/b[y,x]", None), ("a/b[x,x]", None), ("a/b[x]]", None), ("a/b[[x]", None), ("a/b]", None),
    ("=a/b-1*", None), ("=a/b-1-r1*", None), ("~a/b-1-r0", None), ("~a/b-1-r1", None), ("~a/b-1", None), ("=a/b-1-r0", None), ("=a/b-1-r007", None),
    ("a/b-1", None), ("a/b-r1", None), ("a/b-1-r1", None), ("a/b-c-1-r1", None), ("a/b-1-foo", None), ("=a/b-1-1", None), ("=a/-1", None), ("=a/b--1", None),
    ("a/+b", None), ("a/b+", None), ("a/-b", None), ("a/b-", None), ("=a/b-1-", None), ("a/b:=", None), ("a/b:*", None), ("a/b:1=", None), ("a/b:1/2=", None),
    ("a/b:1/", None), ("a/b:/2", None), ("a/b:1/2/3", None), ("a/b:=1", None), ("a/b:*=", None), ("a/b:==", None), ("a/b:1==", None), ("a/b:1::r", None),
    ("a/b::r", None), ("a/b:=::r", None), ("a/b:1/2=::r[x]", None), ("!!a/b", None), ("!!!a/b", None), ("!<a/b-1", None), ("<!a/b-1", None), ("<=a/b-1", None),
    ("=<a/b-1", None), (">a/b-1", None), (">=a/b-1", None), ("=>a/b-1", None), ("~a/b-1*", None), ("<a/b-1*", None), ("=a/b*", None), ("=a/b-1**", None),
    ("a//b", None), ("a/b/c", None), ("/b", None), ("a/", None), ("a", None), ("", None), ("=a/b-1_alpha_beta1_p", None), ("=a/b-1a_p", None), ("=a/b-01.02", None),
    ("=a/b-1.", None), ("=a/b-1..2", None), ("=a/b-1ab", None), ("a/b-1a", None), ("a/b-rc", None), ("a/b-r", None), ("=a/b-1-r", None), ("=a/b-r1", None),
    ("=a/b-1-r1-r2", None), ("=a/b-r1-1", None), ("a/b-1-r1-c", None), ("a/b-r1-r2", None), ("=a/1-1", None), ("=a/1-r1-1", None), ("a/1-r1", None), ("=a/r1-1-r2", None),
    ("a/b:1", 0), ("a/b:1", 1), ("a/b[x]", 1), ("a/b[x]", 2), ("!!a/b", 1), ("!!a/b", 2), ("a/b[x(+)]", 3), ("a/b[x(+)]", 4), ("a/b:1/2", 4), ("a/b:1/2", 5),
    ("a/b:=", 4), ("a/b:=", 5), ("a/b:*", 4), ("a/b:1=", 4), ("a/b:1=", 5), ("a/b::r", 0), ("a/b::r", 8), ("a/b:1::r", 5), ("a/b:1", 9), ("a/b:1/2=", 9),
    # open findings: the version letter may be upper case; a slot name may start with '+'
    ("=a/b-1A", None), ("=a/b-3D_p1-r2", 5), ("a/b-1A", None), ("a/b-1a", None), ("a/b:+1", None), ("a/b:1/+2", 7), ("a/b:+", 1),
]

FINDING_UPPER = "C03-uppercase-version-letter"
FINDING_PLUS = "C03-slot-leading-plus"


def eapi_arg(e):
    return "-1" if e is None else str(e)


def run(ctx):
    from pkgcore.ebuild.atom import atom
    from pkgcore.ebuild.errors import MalformedAtom
    from pkgcore.test.misc import FakePkg, FakeRepo

    rng = ctx.rng
    EAPI_CHOICES = [None, None, None, 0, 1, 2, 3, 4, 5, 6, 7, 8, 9]

    # ---- the feature gates of the real EAPI objects against the PMS table (edge C) and the model's table (edge A)
    from pkgcore.ebuild import eapi as eapi_mod
    gate_e = [None] + list(range(10))
    for e, rep in zip(gate_e, ctx.model([{"cmd": "c03.opts", "eapi": e} for e in gate_e])):
        o = eapi_mod.get_eapi(eapi_mod.LATEST_PMS_EAPI_VER if e is None else str(e)).options
        impl = [bool(o.has_slot_deps), bool(o.has_use_deps), bool(o.strong_blockers), bool(o.has_use_dep_defaults), bool(o.sub_slotting), e is None]
        f = feats(e)
        want = [f["slot"], f["use"], f["strong"], f["usedef"], f["sub"], f["repo"]]
        case = {"eapi": e, "gates": impl}
        ctx.case(case, True, key=f"gates|{e}")
        if impl != want:
            ctx.violation(case, f"EAPI {e}: atom feature gates {impl} differ from the PMS table {want} (slot, use, !!, use defaults, sub-slot/:=, ::repo)")
        elif impl != rep:
            ctx.mismatch(case, f"EAPI {e}: eapi options {impl}, Lean table {rep}")

    # ---- inputs: corpus, grammar-generated valid atoms, cross-EAPI parses, single-edit mutations
    cases = []          # (text, eapi, kind, ast or None)
    if ctx.replay_cases:
        cases += [(c["text"], c["eapi"], "replay", None) for c in ctx.replay_cases if "text" in c]
    cases += [(s, e, "corpus", None) for s, e in CORPUS]
    for _ in range(ctx.n(2600, 60000)):
        e = rng.choice(EAPI_CHOICES)
        a = gen_ast(rng, e)
        s = ast_text(a)
        cases.append((s, e, "valid", a))
        if rng.random() < 0.35:             # the same text under another EAPI (feature gating)
            cases.append((s, rng.choice(EAPI_CHOICES), "cross-eapi", None))
        for _ in range(rng.choice([2, 3, 4])):
            m = mutate(rng, s)
            if m != s:
                cases.append((m, e, "mutation", None))
        if rng.random() < 0.15:
            m = mutate(rng, mutate(rng, s))
            cases.append((m, e, "mutation2", None))
    if not ctx.quick():
        # bounded-exhaustive: every string over a syntax alphabet up to length 4 around a fixed prefix/suffix skeleton
        import itertools
        alpha = "a1-:/[]=!*r_.+"
        n = 0
        for L in range(0, 4):
            for t in itertools.product(alpha, repeat=L):
                t = "".join(t)
                for s in ("a/b" + t, "=a/b-1" + t, t + "a/b"):
                    cases.append((s, rng.choice([None, 0, 1, 2, 4, 5]), "exhaustive", None))
                    n += 1
        ctx.extra["bounded_exhaustive_strings"] = n

    replies = ctx.model([{"cmd": "c03.parse", "s": s, "eapi": e} for s, e, _, _ in cases])
    repos = {}
    nmatch = 0
    for (s, e, kind, ast), rep in zip(cases, replies):
        case = {"text": s, "eapi": e, "kind": kind}
        if rep == "bad-op":
            ctx.mismatch(case, "driver rejected the request")
            continue
        # -- the real code, through the public constructor
        exc = None
        try:
            o = atom(s, eapi=eapi_arg(e))
            impl = impl_attrs(o)
        except MalformedAtom:
            o = impl = None
        except Exception as ex:      # anything else is neither acceptance nor a clean rejection
            o = impl = None
            exc = ex
        model = rep.get("ok")
        ctx.count("kind_" + kind)
        ctx.count("eapi_%s" % ("none" if e is None else e))
        ctx.count("accepted" if impl is not None else "rejected_" + rep.get("err", "model-accepts"))
        nontriv = kind != "valid" or (ast["op"] != "" or ast["slot"] or ast["use"] or ast["blocks"] or ast["repo"] or ast["slotop"])
        ctx.case(case, bool(nontriv), key=f"{s}|{e}")
        if exc is not None:
            ctx.violation(case, f"atom() raised {type(exc).__name__}: {exc} (neither accepted nor MalformedAtom)")
            continue
        # -- acceptance = the grammar.  The Lean model's acceptance is proved equal to the grammar (parse_sound / parse_complete).
        if kind == "valid":
            want = ast_attrs(ast)
            if impl is None:
                ctx.violation(case, f"atom valid under the PMS grammar for EAPI {e} is rejected")
                continue
            if impl != want:
                ctx.violation(case, f"attributes of the parsed atom {impl} differ from the written ones {want}")
                continue
            if model is None:
                ctx.mismatch(case, f"Lean model rejects a grammar-generated atom ({rep.get('err')})")
                continue
        if (impl is None) != (model is None):
            ctx.violation(case, f"atom() {'accepts' if impl is not None else 'rejects'} but the PMS grammar (Lean parseAtom, err={rep.get('err')}) "
                                f"{'accepts' if model is not None else 'rejects'} this text under EAPI {e}")
            continue
        if impl is None:
            continue
        mstr = model.pop("str")
        if impl != model:
            ctx.violation(case, f"parsed attributes differ: atom() gives {impl}, the grammar gives {model}")
            continue
        # -- rendering and round trip on the real code
        text = str(o)
        if text != mstr:
            ctx.violation(case, f"str(atom) = {text!r}, the grammar renders {mstr!r}")
            continue
        if rep.get("again") is not True:
            ctx.mismatch(case, "Lean model: the rendering does not parse back to the same atom")
        try:
            o2 = atom(text, eapi=eapi_arg(e))
        except Exception as ex:
            ctx.violation(case, f"str(atom) = {text!r} does not parse back: {type(ex).__name__}: {ex}")
            continue
        if not (o2 == o and o == o2 and not (o2 != o) and hash(o2) == hash(o) and str(o2) == text and impl_attrs(o2) == impl):
            ctx.violation(case, f"atom(str(a)) is not equal to a: {impl_attrs(o2)} vs {impl} (==: {o2 == o}, hash equal: {hash(o2) == hash(o)})")
            continue
        ctx.count("roundtrip_ok")
        ctx.count("type_" + type(o).__name__)
        # -- open findings: where pkgcore's grammar is wider than the PMS
        if impl["version"] and re.search(r"[A-Z]", impl["version"]):
            ctx.violation(case, f"version {impl['version']!r} with an upper-case letter is accepted (PMS 3.2: [a-z])", finding=FINDING_UPPER)
        if (impl["slot"] or "").startswith("+") or (impl["subslot"] or "").startswith("+"):
            ctx.violation(case, "slot name starting with '+' is accepted (PMS 3.1.3)", finding=FINDING_PLUS)
        # -- the round-tripped atom matches the same packages
        if type(o) is atom and nmatch < ctx.n(2500, 30000) and (kind != "valid" or rng.random() < 0.5):
            nmatch += 1
            for _ in range(3):
                ver = impl["version"] if impl["version"] and rng.random() < 0.6 else rng.choice(["1", "1.0", "2", "0.9", "1a", "1_p1", "10"])
                rev = rng.choice(["", "", "-r1", "-r0", "-r2"]) if not impl["revision"] or rng.random() < 0.4 else "-r" + impl["revision"]
                slot = impl["slot"] if impl["slot"] and rng.random() < 0.7 else rng.choice(SLOTS)
                subslot = impl["subslot"] if impl["subslot"] and rng.random() < 0.7 else rng.choice(SLOTS + [slot])
                repo = impl["repo"] if impl["repo"] and rng.random() < 0.7 else rng.choice(REPOS)
                flags = sorted({re.sub(r"^-|\([+-]\)$", "", t) for t in (impl["use"] or [])} | set(rng.sample(FLAGS, 2)))
                iuse = [f for f in flags if rng.random() < 0.7]
                use = [f for f in iuse if rng.random() < 0.5]
                try:
                    if repo not in repos:
                        repos[repo] = FakeRepo(repo_id=repo)
                    p = FakePkg(f"{impl['cat']}/{impl['pkg']}-{ver}{rev}", eapi="8", slot=slot, subslot=subslot, iuse=frozenset(iuse), use=frozenset(use),
                                repo=repos[repo])
                except Exception:
                    ctx.count("fakepkg_skipped")
                    continue
                try:
                    m1, m2 = bool(o.match(p)), bool(o2.match(p))
                except Exception as ex:
                    ctx.violation(dict(case, pkg=str(p)), f"atom.match raised {type(ex).__name__}: {ex}")
                    continue
                ctx.evaluations += 1
                ctx.count("match_%s" % m1)
                if m1 != m2:
                    ctx.violation(dict(case, pkg=str(p), slot=slot, subslot=subslot, repo=repo, iuse=iuse, use=use),
                                  f"a.match(pkg) = {m1} but atom(str(a)).match(pkg) = {m2}")
    # a PMS-valid name that only the upper-case reading of the version letter rejects (other half of the open finding)
    for s in ("a/b-1A", "a/b-3D_p1"):
        try:
            atom(s)
        except MalformedAtom:
            ctx.violation({"text": s, "eapi": None, "kind": "corpus"},
                          "package name ending in '-<digits><UPPER-CASE letter>' is rejected although that tail is not a PMS version", finding=FINDING_UPPER)
