"""C49 — generated metadata accumulates eclass values as PMS requires (inherit / __load_ebuild through the real daemon)."""
import json
import os
import shutil
import tempfile

PID = "C49"
LEAN_MODULES = ["Pkgcore.Props.C49"]
OBLIGATIONS = [
    "Pkgcore.C49.accumulated_eq_concat_in_source_order",
    "Pkgcore.C49.other_keys_take_final_value",
    "Pkgcore.C49.inherited_names_all",
    "Pkgcore.C49.defined_phases_exact",
    "Pkgcore.C49.exported_phase_is_defined",
    "Pkgcore.C49.metadata_eq_spec",
    "Pkgcore.C49.eapi_table_is_pms",
]
TRUSTED = [
    "the bash semantics of inherit()/__load_ebuild()/__dump_metadata_keys() are translated by hand into the Lean model (variable store, "
    "save/unset/restore around each eclass, E_* accumulators, echo's word splitting); every correspondence case runs the real bash "
    "through pkgcore.ebuild.processor (request_ebuild_processor via UnconfiguredTree with caching disabled) and compares the metadata",
    "ebuild/eclass *text* is rendered from the statement tree by the harness (V=\"…\", V+=\" …\", V=\"${V} …\", unset, function "
    "definitions, EXPORT_FUNCTIONS, inherit); bash's parsing of that text is not modelled",
    "per-EAPI tables (metadata keys, phase functions, PROPERTIES/RESTRICT accumulation) are regenerated from pkgcore.ebuild.eapi on every run; "
    "the list of accumulated variables and the EAPI 0-3 RDEPEND default are constants of the bash code, copied into the model",
]
ASSUMPTIONS = [
    "EAPI 9 is disabled by the installed bash (5.2 < 5.3) and therefore not exercised",
    "the order of the eclass set (_eclasses_) is not compared: it depends on pkgcore's per-set cache, only membership is a property",
]
RULE = ("random repositories of 5-9 eclasses (a DAG with nested inherits up to depth 4, eclasses inherited several times) and ebuilds over "
        "EAPIs 0-8 whose statements are assignments, appends (+= and \"${V} …\"), unsets, phase function definitions, EXPORT_FUNCTIONS "
        "calls (one to three phases per call, anywhere in the eclass: the <eclass>_<phase> functions are defined before the call, after it, "
        "or not at all) and inherit lines, placed before and after the inherit; values with irregular whitespace and empty values; "
        "non-trivial = the ebuild inherits at least one eclass and some accumulated key gets a value from an eclass")
LEVEL_TEXT = ("Kernel-checked Lean 4 theorems about a hand translation of inherit()/__load_ebuild()/__dump_metadata_keys()/_update_metadata over "
              "arbitrary ebuild/eclass trees (any depth, any number of statements): every accumulated key is the ebuild's own value followed by "
              "the own value of every eclass in the order its sourcing completes; every other key is the last assignment in source order; "
              "INHERITED lists exactly the sourced eclasses; DEFINED_PHASES is exactly the set of phase functions defined anywhere (or '-'), "
              "a phase exported with EXPORT_FUNCTIONS being defined wherever the call stands relative to the <eclass>_<phase> definition. "
              "The translation is tied to the code by regenerating the metadata of random repositories through the real ebuild daemon.")
LEVEL_NOTE = ("Partial: bash itself (parsing, dynamic scoping, echo) is translated by hand and validated by the daemon runs, not verified.")

EAPIS = ["0", "1", "2", "3", "4", "5", "6", "7", "8"]
ACC = ["IUSE", "REQUIRED_USE", "DEPEND", "RDEPEND", "PDEPEND", "BDEPEND", "IDEPEND"]
ACC8 = ["PROPERTIES", "RESTRICT"]
PLAIN = ["DESCRIPTION", "HOMEPAGE", "LICENSE", "KEYWORDS", "SLOT", "SRC_URI"]
PHASES = ["pkg_pretend", "pkg_setup", "src_unpack", "src_prepare", "src_configure", "src_compile", "src_test", "src_install",
          "pkg_preinst", "pkg_postinst", "pkg_prerm", "pkg_postrm", "pkg_config", "pkg_info", "pkg_nofetch", "my_helper", "src_foo"]
TOK = {"IUSE": ["a", "b", "+c", "-d", "x_y"], "REQUIRED_USE": ["a", "||", "(", ")", "b?", "!c"],
       "DEPEND": ["cat/a", ">=cat/b-1", "u?", "(", ")", "cat/c:0"], "RDEPEND": ["cat/r", "cat/s[u]"], "PDEPEND": ["cat/p"],
       "BDEPEND": ["cat/bd"], "IDEPEND": ["cat/id"], "PROPERTIES": ["live", "interactive"], "RESTRICT": ["test", "mirror", "!u?", "strip"],
       "DESCRIPTION": ["d1", "some", "text"], "HOMEPAGE": ["http://h"], "LICENSE": ["GPL-2", "MIT"], "KEYWORDS": ["~amd64", "x86", "-*"],
       "SLOT": ["0", "1/2"], "SRC_URI": ["http://s/a.tar", "->", "b.tar"]}


def gen_tables(repo):
    from pkgcore.ebuild.eapi import get_eapi
    rows = []
    for m in EAPIS:
        e = get_eapi(m)
        keys = sorted(k for k in e.metadata_keys if k not in ("DEFINED_PHASES", "INHERIT", "INHERITED", "EAPI"))
        phases = [(f, e.phases_rev[f]) for f in e.phases.values()]
        rows.append('  ⟨"%s", %s, [%s], [%s]⟩' % (
            m, "true" if e.options.accumulate_properties_restrict else "false",
            ", ".join(json.dumps(k) for k in keys),
            ", ".join("(%s, %s)" % (json.dumps(f), json.dumps(s)) for f, s in phases)))
    text = ("-- GENERATED from pkgcore.ebuild.eapi by harness/props/c49.py (gen_tables); do not edit\n"
            "namespace Pkgcore.Generated.C49\n"
            "structure Row where\n  magic : String\n  accumulatePR : Bool\n  keys : List String\n  phases : List (String × String)\n"
            "def eapis : List Row := [\n" + ",\n".join(rows) + "]\n"
            "end Pkgcore.Generated.C49\n")
    return {"Pkgcore/Generated/C49Tables.lean": text}


# ---------------------------------------------------------------- generators

def gen_value(rng, var):
    n = rng.choice([0, 1, 1, 2, 3])
    toks = [rng.choice(TOK[var]) for _ in range(n)]
    sep = rng.choice([" ", " ", "  ", "\n\t", " \n"])
    s = sep.join(toks)
    if rng.random() < 0.15:
        s = " " + s
    if rng.random() < 0.15:
        s = s + " "
    return s


def gen_script(rng, eclasses_available, me, want_inherit=False):
    """`me` = the eclass name (None for an ebuild).  EXPORT_FUNCTIONS is a statement of its own; the
    `<me>_<phase>` functions it refers to are separate `func` statements put before the call, after it
    (eclasses traditionally export right after the EAPI check), or left out."""
    is_eclass = me is not None
    stmts = []
    n = rng.randint(1, 8)
    for i in range(n):
        k = rng.random()
        var = rng.choice(ACC + ACC8 + ACC + PLAIN)
        if want_inherit and i == n // 2 and eclasses_available:
            k = 0.8
        if k < 0.42:
            stmts.append(["set", var, gen_value(rng, var)])
        elif k < 0.56:
            stmts.append(["append", var, gen_value(rng, var), "+="])
        elif k < 0.64:
            stmts.append(["append", var, gen_value(rng, var), "${}"])
        elif k < 0.72:
            stmts.append(["unset", var, rng.choice(["unset", "unset -v"])])
        elif k < 0.86 and eclasses_available:
            stmts.append(["inherit", rng.sample(eclasses_available, rng.randint(1, min(3, len(eclasses_available))))])
        elif k < 0.92 or not is_eclass:
            stmts.append(["func", rng.choice(PHASES)])
        else:
            stmts.append(["export", rng.sample(PHASES[:15], rng.choice([1, 1, 2, 3]))])
    if not is_eclass:
        return stmts
    keyed = [(float(i), s) for i, s in enumerate(stmts)]
    for i, s in enumerate(stmts):
        if s[0] != "export":
            continue
        for ph in s[1]:
            k = rng.random()
            f = ["func", "%s_%s" % (me, ph)]
            if k < 0.45:
                keyed.append((rng.uniform(-1.0, i), f))          # defined, then exported
            elif k < 0.9:
                keyed.append((rng.uniform(i, float(n)), f))      # exported, then defined
            # else: exported only (the stub is a defined function all the same)
    keyed.sort(key=lambda t: t[0])
    return [s for _, s in keyed]


def render(stmts):
    out = []
    for s in stmts:
        if s[0] == "set":
            out.append('%s="%s"' % (s[1], s[2]))
        elif s[0] == "append":
            if s[3] == "+=":
                out.append('%s+=" %s"' % (s[1], s[2]))
            else:
                out.append('%s="${%s} %s"' % (s[1], s[1], s[2]))
        elif s[0] == "unset":
            out.append("%s %s" % (s[2], s[1]))
        elif s[0] == "inherit":
            out.append("inherit " + " ".join(s[1]))
        elif s[0] == "func":
            out.append("%s() { :; }" % s[1])
        elif s[0] == "export":
            out.append("EXPORT_FUNCTIONS " + " ".join(s[1]))
    return "\n".join(out) + "\n"


def to_tree(stmts, eclasses):
    """statement list with inherit names resolved to bodies (the DAG unfolded)"""
    out = []
    for s in stmts:
        if s[0] == "inherit":
            out.append(["inherit", [[n, to_tree(eclasses[n], eclasses)] for n in s[1]]])
        elif s[0] in ("set", "append"):
            out.append([s[0], s[1], s[2]])
        elif s[0] == "unset":
            out.append(["unset", s[1]])
        else:
            out.append([s[0], s[1]])
    return out


def tree_size(t):
    n = 0
    for s in t:
        n += 1
        if s[0] == "inherit":
            for _, b in s[1]:
                n += tree_size(b)
    return n


def export_kinds(tree, me=None, out=None):
    """how every EXPORT_FUNCTIONS argument in the (unfolded) tree stands to the definition of <eclass>_<phase> in the same file"""
    out = set() if out is None else out
    for i, s in enumerate(tree):
        if s[0] == "inherit":
            for n, b in s[1]:
                export_kinds(b, n, out)
        elif s[0] == "export":
            for ph in s[1]:
                f = ["func", "%s_%s" % (me, ph)]
                out.add("export_after_definition" if f in tree[:i] else "export_before_definition" if f in tree[i:] else "export_without_definition")
    return out


CORPUS = [
    # the defect fixed in /repo: an eclass that unsets an accumulated variable
    ("5", [["set", "REQUIRED_USE", ")"], ["inherit", ["u0"]]], {"u0": [["unset", "REQUIRED_USE", "unset"]]}),
    ("7", [["set", "DEPEND", "cat/a"], ["inherit", ["u1"]], ["append", "DEPEND", "cat/z", "+="]],
     {"u1": [["unset", "DEPEND", "unset -v"], ["set", "DEPEND", "cat/b"]]}),
    ("8", [["set", "RESTRICT", "test"], ["set", "IUSE", "e0"], ["inherit", ["a", "b"]], ["append", "IUSE", "e1", "+="]],
     {"a": [["set", "IUSE", "a1"], ["inherit", ["b"]], ["append", "IUSE", "a2", "${}"], ["set", "RESTRICT", "ra"], ["func", "a_src_compile"], ["export", ["src_compile"]]],
      "b": [["set", "IUSE", "b1"], ["set", "RDEPEND", "cat/b"], ["set", "DESCRIPTION", "from b"], ["func", "pkg_setup"], ["unset", "IUSE", "unset"]]}),
    ("7", [["set", "RESTRICT", "test"], ["inherit", ["a"]], ["set", "PROPERTIES", "live"]],
     {"a": [["set", "RESTRICT", "ra"], ["append", "PROPERTIES", "interactive", "+="]]}),
    ("2", [["set", "DEPEND", "cat/a"], ["inherit", ["a"]]], {"a": [["set", "RDEPEND", "cat/r"], ["set", "DEPEND", "cat/d"]]}),
    ("3", [["inherit", ["a"]], ["unset", "DEPEND", "unset"]], {"a": [["set", "DEPEND", "cat/d"]]}),
    ("4", [["set", "DEPEND", "cat/a"], ["inherit", ["a"]]], {"a": [["set", "DEPEND", "cat/d"]]}),
    ("6", [["func", "src_foo"], ["set", "KEYWORDS", "   "], ["set", "SLOT", "0"]], {}),
    ("8", [["inherit", ["a", "a"]], ["set", "IDEPEND", " "]], {"a": [["append", "IDEPEND", "cat/id", "+="], ["set", "BDEPEND", ""]]}),
    # EXPORT_FUNCTIONS placed before / after the <eclass>_<phase> definitions, several phases per call, through a nested inherit,
    # next to a phase the ebuild defines itself, and for a phase the EAPI does not have
    ("7", [["inherit", ["early", "late"]], ["func", "pkg_setup"]],
     {"early": [["export", ["src_compile", "pkg_postinst"]], ["set", "IUSE", "early"], ["func", "early_src_compile"], ["func", "early_pkg_postinst"]],
      "late": [["set", "IUSE", "late"], ["func", "late_src_install"], ["export", ["src_install"]]]}),
    ("5", [["inherit", ["outer"]]],
     {"outer": [["inherit", ["early"]], ["export", ["src_test"]], ["func", "outer_src_test"]],
      "early": [["export", ["src_compile", "pkg_postinst"]], ["func", "early_src_compile"], ["func", "early_pkg_postinst"]]}),
    ("1", [["set", "DEPEND", "cat/a"], ["inherit", ["x"]], ["func", "src_compile"]],
     {"x": [["export", ["src_prepare", "src_unpack", "src_compile"]], ["func", "x_src_unpack"], ["func", "x_src_prepare"], ["func", "x_src_compile"]]}),
    ("8", [["inherit", ["x", "y"]]],
     {"x": [["export", ["pkg_config"]], ["inherit", ["y"]], ["func", "x_pkg_config"]],
      "y": [["func", "y_pkg_info"], ["export", ["pkg_info", "pkg_nofetch"]], ["func", "y_pkg_nofetch"]]}),
]


def build_repo(path):
    os.makedirs(os.path.join(path, "profiles"))
    os.makedirs(os.path.join(path, "metadata"))
    os.makedirs(os.path.join(path, "eclass"))
    with open(os.path.join(path, "profiles", "repo_name"), "w") as f:
        f.write("c49repo\n")
    with open(os.path.join(path, "metadata", "layout.conf"), "w") as f:
        f.write("masters =\n")


def run(ctx):
    from pkgcore.ebuild import repository
    rng = ctx.rng
    base = tempfile.mkdtemp(prefix="c49-")
    try:
        repos = []
        # corpus: one repository per case (eclass names clash otherwise)
        for i, (eapi, eb, ecls) in enumerate(CORPUS):
            repos.append((ecls, [(eapi, eb)]))
        nrepos = ctx.n(5, 40)
        per = ctx.n(22, 40)
        for _ in range(nrepos):
            names = ["e%d" % i for i in range(rng.randint(5, 9))]
            ecls = {}
            for i, n in enumerate(names):
                later = names[i + 1:]
                ecls[n] = gen_script(rng, later[:4], n, want_inherit=rng.random() < 0.5)
            ebuilds = []
            for _ in range(per):
                ebuilds.append((rng.choice(EAPIS), gen_script(rng, names if rng.random() < 0.9 else [], None, want_inherit=rng.random() < 0.7)))
            repos.append((ecls, ebuilds))
        cases = []
        for ri, (ecls, ebuilds) in enumerate(repos):
            path = os.path.join(base, "r%d" % ri)
            build_repo(path)
            for n, body in ecls.items():
                with open(os.path.join(path, "eclass", n + ".eclass"), "w") as f:
                    f.write(render(body))
            for j, (eapi, eb) in enumerate(ebuilds):
                d = os.path.join(path, "cat", "p%d" % j)
                os.makedirs(d)
                with open(os.path.join(d, "p%d-1.ebuild" % j), "w") as f:
                    f.write("EAPI=%s\n" % eapi + render(eb))
            repo = repository.UnconfiguredTree(path, cache=())
            for j, (eapi, eb) in enumerate(ebuilds):
                tree = to_tree(eb, ecls)
                if tree_size(tree) > 400:
                    ctx.count("skipped_huge_tree")
                    continue
                case = {"eapi": eapi, "ebuild": render(eb), "eclasses": {n: render(b) for n, b in ecls.items()
                                                                         if n in json.dumps(tree)}}
                try:
                    pkg = repo[("cat", "p%d" % j, "1")]
                    data = dict(pkg.data)
                    got = {"keys": sorted([k, v] for k, v in data.items()
                                          if k not in ("_chf_", "_eclasses_", "DEFINED_PHASES", "INHERIT", "EAPI")),
                           "phases": [] if data.get("DEFINED_PHASES", "-") == "-" else data["DEFINED_PHASES"].split(),
                           "inherit": data.get("INHERIT", ""),
                           "eclasses": sorted(data.get("_eclasses_", {}).keys()),
                           "eapi": data.get("EAPI")}
                    err = None
                except Exception as e:  # noqa: BLE001
                    got, err = None, f"{type(e).__name__}: {e}"
                cases.append((case, eapi, tree, got, err))
        replies = ctx.model([{"cmd": "c49.metadata", "eapi": eapi, "ebuild": tree} for _, eapi, tree, _, _ in cases])
        for (case, eapi, tree, got, err), rep in zip(cases, replies):
            n_inh = json.dumps(tree).count('"inherit"')
            ctx.count("eapi_" + eapi)
            ctx.count("inherit_lines_%s" % (n_inh if n_inh < 4 else "4+"))
            ctx.count("tree_size_%s" % ("<10" if tree_size(tree) < 10 else "<40" if tree_size(tree) < 40 else ">=40"))
            for kind in sorted(export_kinds(tree)) or ["no_export"]:
                ctx.count(kind)
            if rep in ("bad-op", "err") or not isinstance(rep, dict):
                ctx.case(case, False)
                ctx.mismatch(case, f"driver answered {rep}")
                continue

            def norm(m):
                return {"keys": sorted(map(list, m["keys"])), "phases": m["phases"], "inherit": m["inherit"],
                        "eclasses": sorted(set(m["eclasses"]))}
            model, spec = norm(rep["model"]), norm(rep["spec"])
            eclass_given = any(k in ACC + ACC8 for k, _ in spec["keys"]) and bool(spec["eclasses"])
            ctx.case(case, bool(spec["eclasses"]) and eclass_given, key=json.dumps([eapi, tree]))
            if err is not None:
                ctx.violation(case, f"metadata regeneration through the daemon failed: {err}")
                continue
            ctx.traces += 1
            if got["eapi"] != eapi:
                ctx.violation(case, f"EAPI reported as {got['eapi']}")
            real = {k: got[k] for k in ("keys", "phases", "inherit", "eclasses")}
            if real != spec:
                ctx.violation(case, "metadata from the daemon differs from the PMS accumulation: " + diff(real, spec))
            if real != model:
                ctx.mismatch(case, "metadata from the daemon differs from the Lean model: " + diff(real, model))
    finally:
        shutil.rmtree(base, ignore_errors=True)


def diff(real, want):
    out = []
    rk, wk = dict(map(tuple, real["keys"])), dict(map(tuple, want["keys"]))
    for k in sorted(set(rk) | set(wk)):
        if rk.get(k) != wk.get(k):
            out.append(f"{k}: real {rk.get(k)!r} expected {wk.get(k)!r}")
    for k in ("phases", "inherit", "eclasses"):
        if real[k] != want[k]:
            out.append(f"{k}: real {real[k]!r} expected {want[k]!r}")
    return "; ".join(out[:5])
