"""C49 — generated metadata accumulates eclass values as PMS requires (inherit / __load_ebuild through the real daemon)."""
import json
import os
import shutil
import signal
import tempfile
import threading

PID = "C49"
LEAN_MODULES = ["Pkgcore.Props.C49"]
OBLIGATIONS = [
    "Pkgcore.C49.accumulated_eq_concat_in_source_order",
    "Pkgcore.C49.other_keys_take_final_value",
    "Pkgcore.C49.inherited_names_all",
    "Pkgcore.C49.defined_phases_exact",
    "Pkgcore.C49.exported_phase_is_defined",
    "Pkgcore.C49.metadata_eq_spec",
    "Pkgcore.C49.eapi_table_is_pms",
]
TRUSTED = [
    "the bash semantics of inherit()/__load_ebuild()/__dump_metadata_keys() are translated by hand into the Lean model (variable store, "
    "save/unset/restore around each eclass, E_* accumulators, echo's word splitting); every correspondence case runs the real bash "
    "through pkgcore.ebuild.processor (request_ebuild_processor via UnconfiguredTree with caching disabled) and compares the metadata",
    "ebuild/eclass *text* is rendered from the statement tree by the harness (V=\"…\", V+=\" …\", V=\"${V} …\", unset, function "
    "definitions, EXPORT_FUNCTIONS, inherit); bash's parsing of that text is not modelled",
    "statements that change only shell state (IFS, shopt, set -f) are rendered into the files but not given to the model: the daemon "
    "restores that state after every sourced file, so they are no-ops for the metadata — validated by the daemon runs",
    "per-EAPI tables (metadata keys, phase functions, PROPERTIES/RESTRICT accumulation) are regenerated from pkgcore.ebuild.eapi on every run; "
    "the list of accumulated variables and the EAPI 0-3 RDEPEND default are constants of the bash code, copied into the model",
]
ASSUMPTIONS = [
    "EAPI 9 is disabled by the installed bash (5.2 < 5.3) and therefore not exercised",
    "the order of the eclass set (_eclasses_) is not compared: it depends on pkgcore's per-set cache, only membership is a property",
]
RULE = ("random repositories of 5-9 eclasses (a DAG with nested inherits up to depth 4, eclasses inherited several times) and ebuilds over "
        "EAPIs 0-8 whose statements are assignments, appends (+= and \"${V} …\"), unsets, definitions of phase functions and of helper functions (names "
        "with a phase function name as proper prefix, suffix or infix, proper prefixes of one, other case), EXPORT_FUNCTIONS "
        "calls (one to three phases per call, anywhere in the eclass: the <eclass>_<phase> functions are defined before the call, after it, "
        "or not at all), changes of shell state left behind at global scope (IFS, shopt, set -f; after the file's last inherit/EXPORT_FUNCTIONS) "
        "and inherit lines, placed before and after the inherit; values with irregular whitespace and empty values; "
        "non-trivial = the ebuild inherits at least one eclass and some accumulated key gets a value from an eclass")
LEVEL_TEXT = ("Kernel-checked Lean 4 theorems about a hand translation of inherit()/__load_ebuild()/__dump_metadata_keys()/_update_metadata over "
              "arbitrary ebuild/eclass trees (any depth, any number of statements): every accumulated key is the ebuild's own value followed by "
              "the own value of every eclass in the order its sourcing completes; every other key is the last assignment in source order; "
              "INHERITED lists exactly the sourced eclasses; DEFINED_PHASES is exactly the set of phase functions defined anywhere (or '-'), "
              "a phase exported with EXPORT_FUNCTIONS being defined wherever the call stands relative to the <eclass>_<phase> definition. "
              "The translation is tied to the code by regenerating the metadata of random repositories through the real ebuild daemon.")
LEVEL_NOTE = ("Partial: bash itself (parsing, dynamic scoping, echo) is translated by hand and validated by the daemon runs, not verified.")

EAPIS = ["0", "1", "2", "3", "4", "5", "6", "7", "8"]
ACC = ["IUSE", "REQUIRED_USE", "DEPEND", "RDEPEND", "PDEPEND", "BDEPEND", "IDEPEND"]
ACC8 = ["PROPERTIES", "RESTRICT"]
PLAIN = ["DESCRIPTION", "HOMEPAGE", "LICENSE", "KEYWORDS", "SLOT", "SRC_URI"]
PHASES = ["pkg_pretend", "pkg_setup", "src_unpack", "src_prepare", "src_configure", "src_compile", "src_test", "src_install",
          "pkg_preinst", "pkg_postinst", "pkg_prerm", "pkg_postrm", "pkg_config", "pkg_info", "pkg_nofetch", "my_helper", "src_foo"]
# helper functions next to the phase functions: names that contain a phase function name as a proper prefix, as a suffix or in the
# middle, that are a proper prefix of one, or differ from one in case — none of them is a phase function
HELPER_SUFFIX = ["_docs", "_env", "_extra", "_setup", "2", "s", "_", "-all", "_pre", "_internal"]
HELPER_PREFIX = ["my_", "_", "x", "do_", "__", "pre_"]


def gen_func_name(rng):
    """a phase function name (60 %) or the name of a helper function derived from one"""
    k = rng.random()
    ph = rng.choice(PHASES[:15])
    if k < 0.6:
        return rng.choice(PHASES)
    if k < 0.8:
        return ph + rng.choice(HELPER_SUFFIX)
    if k < 0.88:
        return rng.choice(HELPER_PREFIX) + ph
    if k < 0.92:
        return rng.choice(HELPER_PREFIX) + ph + rng.choice(HELPER_SUFFIX)
    if k < 0.96:
        return ph[:rng.randint(4, len(ph) - 1)]
    return ph.upper() if rng.random() < 0.5 else ph.replace("_", "_" + rng.choice("sp"), 1)


def func_kind(name):
    if name in PHASES[:15]:
        return "phase"
    if any(name.startswith(p) for p in PHASES[:15]):
        return "helper_with_phase_prefix"
    if any(name.endswith(p) for p in PHASES[:15]):
        return "helper_with_phase_suffix"
    if any(p in name for p in PHASES[:15]):
        return "helper_containing_phase"
    return "helper_other"
TOK = {"IUSE": ["a", "b", "+c", "-d", "x_y"], "REQUIRED_USE": ["a", "||", "(", ")", "b?", "!c"],
       "DEPEND": ["cat/a", ">=cat/b-1", "u?", "(", ")", "cat/c:0", ">=dev-libs/x-1.5"], "RDEPEND": ["cat/r", "cat/s[u]", "dev-libs/z:2.0"], "PDEPEND": ["cat/p"],
       "BDEPEND": ["cat/bd"], "IDEPEND": ["cat/id"], "PROPERTIES": ["live", "interactive"], "RESTRICT": ["test", "mirror", "!u?", "strip"],
       "DESCRIPTION": ["d1", "some", "text", "v1.2", "a-b:c"], "HOMEPAGE": ["http://h"], "LICENSE": ["GPL-2", "MIT"], "KEYWORDS": ["~amd64", "x86", "-*"],
       "SLOT": ["0", "1/2"], "SRC_URI": ["http://s/a.tar", "->", "b.tar"]}


def gen_tables(repo):
    from pkgcore.ebuild.eapi import get_eapi
    rows = []
    for m in EAPIS:
        e = get_eapi(m)
        keys = sorted(k for k in e.metadata_keys if k not in ("DEFINED_PHASES", "INHERIT", "INHERITED", "EAPI"))
        phases = [(f, e.phases_rev[f]) for f in e.phases.values()]
        rows.append('  ⟨"%s", %s, [%s], [%s]⟩' % (
            m, "true" if e.options.accumulate_properties_restrict else "false",
            ", ".join(json.dumps(k) for k in keys),
            ", ".join("(%s, %s)" % (json.dumps(f), json.dumps(s)) for f, s in phases)))
    text = ("-- GENERATED from pkgcore.ebuild.eapi by harness/props/c49.py (gen_tables); do not edit\n"
            "namespace Pkgcore.Generated.C49\n"
            "structure Row where\n  magic : String\n  accumulatePR : Bool\n  keys : List String\n  phases : List (String × String)\n"
            "def eapis : List Row := [\n" + ",\n".join(rows) + "]\n"
            "end Pkgcore.Generated.C49\n")
    return {"Pkgcore/Generated/C49Tables.lean": text}


# ---------------------------------------------------------------- generators

def gen_value(rng, var):
    n = rng.choice([0, 1, 1, 2, 3])
    toks = [rng.choice(TOK[var]) for _ in range(n)]
    sep = rng.choice([" ", " ", "  ", "\n\t", " \n"])
    s = sep.join(toks)
    if rng.random() < 0.15:
        s = " " + s
    if rng.random() < 0.15:
        s = s + " "
    return s


# statements that only change shell state the daemon puts back after every sourced file (IFS, shopt, set options): an eclass or
# ebuild may leave them changed at global scope; the metadata must not depend on it
SHELL_STATE = ["IFS=.", "IFS=:", "IFS=/", "IFS=-", "IFS=", "IFS=$'\\n'", "IFS=. ; set -- ${PV}", "IFS=a", "IFS=' ='",
               "shopt -s extglob", "shopt -s nullglob", "shopt -u extglob", "set -f", "IFS=\"${IFS}.:\""]


def gen_script(rng, eclasses_available, me, want_inherit=False):
    stmts = gen_script0(rng, eclasses_available, me, want_inherit)
    if rng.random() < 0.22:
        # after the last inherit / EXPORT_FUNCTIONS of the file: those bash functions are not written for a foreign IFS
        # (no real eclass calls them with IFS changed); the plain assignments after it are quoted and unaffected
        last = max([i for i, s in enumerate(stmts) if s[0] in ("inherit", "export")], default=-1)
        stmts.insert(rng.randint(last + 1, len(stmts)), ["shell", rng.choice(SHELL_STATE)])
    return stmts


def gen_script0(rng, eclasses_available, me, want_inherit=False):
    """`me` = the eclass name (None for an ebuild).  EXPORT_FUNCTIONS is a statement of its own; the
    `<me>_<phase>` functions it refers to are separate `func` statements put before the call, after it
    (eclasses traditionally export right after the EAPI check), or left out."""
    is_eclass = me is not None
    stmts = []
    n = rng.randint(1, 8)
    for i in range(n):
        k = rng.random()
        var = rng.choice(ACC + ACC8 + ACC + PLAIN)
        if want_inherit and i == n // 2 and eclasses_available:
            k = 0.8
        if k < 0.42:
            stmts.append(["set", var, gen_value(rng, var)])
        elif k < 0.56:
            stmts.append(["append", var, gen_value(rng, var), "+="])
        elif k < 0.64:
            stmts.append(["append", var, gen_value(rng, var), "${}"])
        elif k < 0.72:
            stmts.append(["unset", var, rng.choice(["unset", "unset -v"])])
        elif k < 0.86 and eclasses_available:
            stmts.append(["inherit", rng.sample(eclasses_available, rng.randint(1, min(3, len(eclasses_available))))])
        elif k < 0.92 or not is_eclass:
            stmts.append(["func", gen_func_name(rng)])
        else:
            stmts.append(["export", rng.sample(PHASES[:15], rng.choice([1, 1, 2, 3]))])
    if not is_eclass:
        return stmts
    keyed = [(float(i), s) for i, s in enumerate(stmts)]
    for i, s in enumerate(stmts):
        if s[0] != "export":
            continue
        for ph in s[1]:
            k = rng.random()
            f = ["func", "%s_%s" % (me, ph)]
            if k < 0.45:
                keyed.append((rng.uniform(-1.0, i), f))          # defined, then exported
            elif k < 0.9:
                keyed.append((rng.uniform(i, float(n)), f))      # exported, then defined
            # else: exported only (the stub is a defined function all the same)
    keyed.sort(key=lambda t: t[0])
    return [s for _, s in keyed]


def render(stmts):
    out = []
    for s in stmts:
        if s[0] == "set":
            out.append('%s="%s"' % (s[1], s[2]))
        elif s[0] == "append":
            if s[3] == "+=":
                out.append('%s+=" %s"' % (s[1], s[2]))
            else:
                out.append('%s="${%s} %s"' % (s[1], s[1], s[2]))
        elif s[0] == "unset":
            out.append("%s %s" % (s[2], s[1]))
        elif s[0] == "inherit":
            out.append("inherit " + " ".join(s[1]))
        elif s[0] == "func":
            out.append("%s() { :; }" % s[1])
        elif s[0] == "export":
            out.append("EXPORT_FUNCTIONS " + " ".join(s[1]))
        elif s[0] == "shell":
            out.append(s[1])
    return "\n".join(out) + "\n"


def to_tree(stmts, eclasses):
    """statement list with inherit names resolved to bodies (the DAG unfolded)"""
    out = []
    for s in stmts:
        if s[0] == "inherit":
            out.append(["inherit", [[n, to_tree(eclasses[n], eclasses)] for n in s[1]]])
        elif s[0] in ("set", "append"):
            out.append([s[0], s[1], s[2]])
        elif s[0] == "unset":
            out.append(["unset", s[1]])
        elif s[0] == "shell":
            continue    # no effect on the metadata (see TRUSTED): the model never sees it
        else:
            out.append([s[0], s[1]])
    return out


def tree_size(t):
    n = 0
    for s in t:
        n += 1
        if s[0] == "inherit":
            for _, b in s[1]:
                n += tree_size(b)
    return n


def export_kinds(tree, me=None, out=None):
    """how every EXPORT_FUNCTIONS argument in the (unfolded) tree stands to the definition of <eclass>_<phase> in the same file"""
    out = set() if out is None else out
    for i, s in enumerate(tree):
        if s[0] == "inherit":
            for n, b in s[1]:
                export_kinds(b, n, out)
        elif s[0] == "export":
            for ph in s[1]:
                f = ["func", "%s_%s" % (me, ph)]
                out.add("export_after_definition" if f in tree[:i] else "export_before_definition" if f in tree[i:] else "export_without_definition")
    return out


CORPUS = [
    # the defect fixed in /repo: an eclass that unsets an accumulated variable
    ("5", [["set", "REQUIRED_USE", ")"], ["inherit", ["u0"]]], {"u0": [["unset", "REQUIRED_USE", "unset"]]}),
    ("7", [["set", "DEPEND", "cat/a"], ["inherit", ["u1"]], ["append", "DEPEND", "cat/z", "+="]],
     {"u1": [["unset", "DEPEND", "unset -v"], ["set", "DEPEND", "cat/b"]]}),
    ("8", [["set", "RESTRICT", "test"], ["set", "IUSE", "e0"], ["inherit", ["a", "b"]], ["append", "IUSE", "e1", "+="]],
     {"a": [["set", "IUSE", "a1"], ["inherit", ["b"]], ["append", "IUSE", "a2", "${}"], ["set", "RESTRICT", "ra"], ["func", "a_src_compile"], ["export", ["src_compile"]]],
      "b": [["set", "IUSE", "b1"], ["set", "RDEPEND", "cat/b"], ["set", "DESCRIPTION", "from b"], ["func", "pkg_setup"], ["unset", "IUSE", "unset"]]}),
    ("7", [["set", "RESTRICT", "test"], ["inherit", ["a"]], ["set", "PROPERTIES", "live"]],
     {"a": [["set", "RESTRICT", "ra"], ["append", "PROPERTIES", "interactive", "+="]]}),
    ("2", [["set", "DEPEND", "cat/a"], ["inherit", ["a"]]], {"a": [["set", "RDEPEND", "cat/r"], ["set", "DEPEND", "cat/d"]]}),
    ("3", [["inherit", ["a"]], ["unset", "DEPEND", "unset"]], {"a": [["set", "DEPEND", "cat/d"]]}),
    ("4", [["set", "DEPEND", "cat/a"], ["inherit", ["a"]]], {"a": [["set", "DEPEND", "cat/d"]]}),
    ("6", [["func", "src_foo"], ["set", "KEYWORDS", "   "], ["set", "SLOT", "0"]], {}),
    ("8", [["inherit", ["a", "a"]], ["set", "IDEPEND", " "]], {"a": [["append", "IDEPEND", "cat/id", "+="], ["set", "BDEPEND", ""]]}),
    # EXPORT_FUNCTIONS placed before / after the <eclass>_<phase> definitions, several phases per call, through a nested inherit,
    # next to a phase the ebuild defines itself, and for a phase the EAPI does not have
    ("7", [["inherit", ["early", "late"]], ["func", "pkg_setup"]],
     {"early": [["export", ["src_compile", "pkg_postinst"]], ["set", "IUSE", "early"], ["func", "early_src_compile"], ["func", "early_pkg_postinst"]],
      "late": [["set", "IUSE", "late"], ["func", "late_src_install"], ["export", ["src_install"]]]}),
    ("5", [["inherit", ["outer"]]],
     {"outer": [["inherit", ["early"]], ["export", ["src_test"]], ["func", "outer_src_test"]],
      "early": [["export", ["src_compile", "pkg_postinst"]], ["func", "early_src_compile"], ["func", "early_pkg_postinst"]]}),
    ("1", [["set", "DEPEND", "cat/a"], ["inherit", ["x"]], ["func", "src_compile"]],
     {"x": [["export", ["src_prepare", "src_unpack", "src_compile"]], ["func", "x_src_unpack"], ["func", "x_src_prepare"], ["func", "x_src_compile"]]}),
    ("8", [["inherit", ["x", "y"]]],
     {"x": [["export", ["pkg_config"]], ["inherit", ["y"]], ["func", "x_pkg_config"]],
      "y": [["func", "y_pkg_info"], ["export", ["pkg_info", "pkg_nofetch"]], ["func", "y_pkg_nofetch"]]}),
    # helper functions whose names extend, end in, or abbreviate a phase function name are not phase functions:
    # only helpers (DEFINED_PHASES is '-'), helpers in an eclass next to a real phase of the ebuild, helper and phase together
    ("8", [["func", "src_install_docs"], ["func", "pkg_setup_env"], ["func", "my_src_compile"], ["func", "src_tes"], ["func", "SRC_UNPACK"]], {}),
    ("7", [["inherit", ["h"]], ["func", "pkg_postinst"], ["func", "src_compile_extra"]],
     {"h": [["func", "src_test_setup"], ["func", "h_src_install"], ["func", "pkg_pretend2"], ["inherit", ["g"]]],
      "g": [["func", "src_unpack"], ["func", "src_unpacks"], ["func", "_src_configure"]]}),
    # shell state left changed at global scope by an eclass / the ebuild (the daemon restores IFS, shopt and set options after each file)
    ("7", [["set", "DESCRIPTION", "Version 1.2 of  pkg"], ["inherit", ["vs"]], ["set", "DEPEND", ">=dev-libs/x-1.5"], ["set", "RDEPEND", "dev-libs/z:2.0\n\tcat/r"]],
     {"vs": [["set", "HOMEPAGE", "http://h.example.org/"], ["shell", "IFS=. ; set -- ${PV}"], ["set", "IUSE", "a.b"]]}),
    ("8", [["inherit", ["o", "vs"]], ["set", "SRC_URI", "http://s/a.tar  ->  b.tar"], ["shell", "IFS="], ["set", "LICENSE", "GPL-2\n MIT"]],
     {"vs": [["shell", "IFS=:/"], ["set", "BDEPEND", "cat/bd:0"]], "o": [["inherit", ["vs"]], ["shell", "shopt -s nullglob"], ["set", "IDEPEND", "cat/id"]]}),
    ("4", [["func", "src_install"], ["func", "src_install_"], ["inherit", ["h"]]], {"h": [["func", "pkg_config-all"], ["export", ["pkg_info"]]]}),
]


def shell_kinds(stmts, ecls, seen=None, out=None, where="ebuild"):
    """which shell-state changes are left behind by the ebuild / by eclasses it sources"""
    out = set() if out is None else out
    seen = set() if seen is None else seen
    for s in stmts:
        if s[0] == "shell":
            out.add("shell_state_%s_%s" % (where, s[1].split("=")[0].split()[0]))
        elif s[0] == "inherit":
            for n in s[1]:
                if n not in seen:
                    seen.add(n)
                    shell_kinds(ecls[n], ecls, seen, out, "eclass")
    return out


def func_kinds(tree, out=None):
    out = set() if out is None else out
    for s in tree:
        if s[0] == "inherit":
            for _, b in s[1]:
                func_kinds(b, out)
        elif s[0] == "func":
            out.add("func_" + func_kind(s[1]))
    return out


class _Hang(BaseException):
    """raised by the watchdog alarm (BaseException: not to be swallowed by an `except Exception` on the way)"""


_ARMED = [False]


def _on_watchdog(*_a):
    if _ARMED[0]:
        raise _Hang()


class _Watchdog:
    """wall-clock limit for one regeneration.  Not SIGALRM: pkgcore's processor arms and clears that timer itself.  A thread waits;
    on expiry it kills the daemon processes this run started and signals the main thread (SIGUSR1 → _Hang) until it lets go."""

    def __init__(self, limit):
        self.limit, self.fired, self.killed = limit, False, 0
        self.done = threading.Event()
        self.main = threading.main_thread().ident
        self.old = signal.signal(signal.SIGUSR1, _on_watchdog)
        _ARMED[0] = True
        self.t = threading.Thread(target=self._run, daemon=True)
        self.t.start()

    def _run(self):
        if self.done.wait(self.limit):
            return
        self.fired = True
        self.killed = _kill_daemon_tree()
        while not self.done.wait(1.0):
            self.killed += _kill_daemon_tree()
            signal.pthread_kill(self.main, signal.SIGUSR1)

    def stop(self):
        _ARMED[0] = False
        self.done.set()
        self.t.join()
        signal.signal(signal.SIGUSR1, self.old)


REGEN_LIMIT = 90   # seconds for one ebuild (normally 0.1–2 s, daemon start included)


def _kill_daemon_tree():
    """kill -9 every descendant of this process that is an ebuild daemon (and what it forked), deepest first"""
    kids = {}
    for d in os.listdir("/proc"):
        if d.isdigit():
            try:
                with open("/proc/%s/stat" % d) as f:
                    rest = f.read().rsplit(")", 1)[1].split()
                kids.setdefault(int(rest[1]), []).append(int(d))
            except (OSError, IndexError, ValueError):
                pass
    order, todo = [], [(c, False) for c in kids.get(os.getpid(), [])]
    while todo:
        pid, inside = todo.pop()
        if not inside:
            try:
                with open("/proc/%d/cmdline" % pid, "rb") as f:
                    inside = b"ebuild-daemon" in f.read()
            except OSError:
                continue
        if inside:
            order.append(pid)
        todo += [(c, inside) for c in kids.get(pid, [])]
    for pid in reversed(order):
        try:
            os.kill(pid, signal.SIGKILL)
        except OSError:
            pass
    return len(order)


def build_repo(path):
    os.makedirs(os.path.join(path, "profiles"))
    os.makedirs(os.path.join(path, "metadata"))
    os.makedirs(os.path.join(path, "eclass"))
    with open(os.path.join(path, "profiles", "repo_name"), "w") as f:
        f.write("c49repo\n")
    with open(os.path.join(path, "metadata", "layout.conf"), "w") as f:
        f.write("masters =\n")


def run(ctx):
    from pkgcore.ebuild import repository
    rng = ctx.rng
    base = tempfile.mkdtemp(prefix="c49-")
    hung = False
    try:
        repos = []
        # corpus: one repository per case (eclass names clash otherwise)
        for i, (eapi, eb, ecls) in enumerate(CORPUS):
            repos.append((ecls, [(eapi, eb)]))
        nrepos = ctx.n(5, 40)
        per = ctx.n(22, 40)
        for _ in range(nrepos):
            names = ["e%d" % i for i in range(rng.randint(5, 9))]
            ecls = {}
            for i, n in enumerate(names):
                later = names[i + 1:]
                ecls[n] = gen_script(rng, later[:4], n, want_inherit=rng.random() < 0.5)
            ebuilds = []
            for _ in range(per):
                ebuilds.append((rng.choice(EAPIS), gen_script(rng, names if rng.random() < 0.9 else [], None, want_inherit=rng.random() < 0.7)))
            repos.append((ecls, ebuilds))
        cases = []
        for ri, (ecls, ebuilds) in enumerate(repos):
            path = os.path.join(base, "r%d" % ri)
            build_repo(path)
            for n, body in ecls.items():
                with open(os.path.join(path, "eclass", n + ".eclass"), "w") as f:
                    f.write(render(body))
            for j, (eapi, eb) in enumerate(ebuilds):
                d = os.path.join(path, "cat", "p%d" % j)
                os.makedirs(d)
                with open(os.path.join(d, "p%d-1.ebuild" % j), "w") as f:
                    f.write("EAPI=%s\n" % eapi + render(eb))
            repo = repository.UnconfiguredTree(path, cache=())
            for j, (eapi, eb) in enumerate(ebuilds):
                if hung or sum(1 for c in cases if c[4] is not None) >= 6:
                    # a daemon that dies on an ebuild costs tens of seconds each time; six such failures are reported, the rest is skipped
                    ctx.count("skipped_after_daemon_failures")
                    continue
                tree = to_tree(eb, ecls)
                if tree_size(tree) > 400:
                    ctx.count("skipped_huge_tree")
                    continue
                case = {"eapi": eapi, "ebuild": render(eb), "eclasses": {n: render(b) for n, b in ecls.items()
                                                                         if n in json.dumps(tree)},
                        "_shell": shell_kinds(eb, ecls)}
                wd = _Watchdog(REGEN_LIMIT)
                try:
                    pkg = repo[("cat", "p%d" % j, "1")]
                    data = dict(pkg.data)
                    _ARMED[0] = False
                    got = {"keys": sorted([k, v] for k, v in data.items()
                                          if k not in ("_chf_", "_eclasses_", "DEFINED_PHASES", "INHERIT", "EAPI")),
                           "phases": [] if data.get("DEFINED_PHASES", "-") == "-" else data["DEFINED_PHASES"].split(),
                           "inherit": data.get("INHERIT", ""),
                           "eclasses": sorted(data.get("_eclasses_", {}).keys()),
                           "eapi": data.get("EAPI")}
                    err = None
                except _Hang:
                    _ARMED[0] = False
                    hung = True
                    got, err = None, f"no metadata after {REGEN_LIMIT} s: the daemon hangs or runs away ({wd.killed} daemon processes killed)"
                except Exception as e:  # noqa: BLE001
                    _ARMED[0] = False
                    got, err = None, f"{type(e).__name__}: {e}"
                    if wd.fired:
                        hung = True
                        err = f"no metadata after {REGEN_LIMIT} s: the daemon hangs or runs away ({wd.killed} daemon processes killed); then {err}"
                finally:
                    wd.stop()
                cases.append((case, eapi, tree, got, err))
        replies = ctx.model([{"cmd": "c49.metadata", "eapi": eapi, "ebuild": tree} for _, eapi, tree, _, _ in cases])
        for (case, eapi, tree, got, err), rep in zip(cases, replies):
            n_inh = json.dumps(tree).count('"inherit"')
            ctx.count("eapi_" + eapi)
            ctx.count("inherit_lines_%s" % (n_inh if n_inh < 4 else "4+"))
            ctx.count("tree_size_%s" % ("<10" if tree_size(tree) < 10 else "<40" if tree_size(tree) < 40 else ">=40"))
            for kind in sorted(export_kinds(tree)) or ["no_export"]:
                ctx.count(kind)
            for kind in sorted(func_kinds(tree)) or ["no_func"]:
                ctx.count(kind)
            for kind in sorted(case.pop("_shell")) or ["no_shell_state_change"]:
                ctx.count(kind)
            if rep in ("bad-op", "err") or not isinstance(rep, dict):
                ctx.case(case, False)
                ctx.mismatch(case, f"driver answered {rep}")
                continue

            def norm(m):
                return {"keys": sorted(map(list, m["keys"])), "phases": m["phases"], "inherit": m["inherit"],
                        "eclasses": sorted(set(m["eclasses"]))}
            model, spec = norm(rep["model"]), norm(rep["spec"])
            eclass_given = any(k in ACC + ACC8 for k, _ in spec["keys"]) and bool(spec["eclasses"])
            ctx.case(case, bool(spec["eclasses"]) and eclass_given, key=json.dumps([eapi, tree]))
            if err is not None:
                ctx.violation(case, f"metadata regeneration through the daemon failed: {err}")
                continue
            ctx.traces += 1
            if got["eapi"] != eapi:
                ctx.violation(case, f"EAPI reported as {got['eapi']}")
            real = {k: got[k] for k in ("keys", "phases", "inherit", "eclasses")}
            if real != spec:
                ctx.violation(case, "metadata from the daemon differs from the PMS accumulation: " + diff(real, spec))
            if real != model:
                ctx.mismatch(case, "metadata from the daemon differs from the Lean model: " + diff(real, model))
    finally:
        if hung:
            _kill_daemon_tree()
        shutil.rmtree(base, ignore_errors=True)


def diff(real, want):
    out = []
    rk, wk = dict(map(tuple, real["keys"])), dict(map(tuple, want["keys"]))
    for k in sorted(set(rk) | set(wk)):
        if rk.get(k) != wk.get(k):
            out.append(f"{k}: real {rk.get(k)!r} expected {wk.get(k)!r}")
    for k in ("phases", "inherit", "eclasses"):
        if real[k] != want[k]:
            out.append(f"{k}: real {real[k]!r} expected {want[k]!r}")
    return "; ".join(out[:5])
