"""C13 — package visibility follows mask, keyword and license configuration."""
import hashlib
import os
import shutil
import tempfile

PID = "C13"
LEAN_MODULES = ["Pkgcore.Props.C13"]
OBLIGATIONS = [
    "Pkgcore.C13.visible_eq_spec",
    "Pkgcore.C13.masks_last_writer",
    "Pkgcore.C13.maskOk_eq_spec",
    "Pkgcore.C13.allowed_eq_spec",
    "Pkgcore.C13.kwOk_eq_spec",
    "Pkgcore.C13.empty_entry_means_testing_arch",
    "Pkgcore.C13.empty_entry_means_nothing_when_unstable",
    "Pkgcore.C13.license_accept_pointwise",
    "Pkgcore.C13.license_dnf_to_formula",
    "Pkgcore.C13.licOk_eq_spec",
    "Pkgcore.C13.hitB_iff",
]
TRUSTED = [
    "restriction matching (atom.match, glob restrictions) is a parameter of the model: every configuration entry is handed over with "
    "the real restriction's verdict for the package and the kind collapsed_restrict_to_data files it under",
    "reading and stacking of the configuration files (profile stack order, incremental ACCEPT_KEYWORDS/ACCEPT_LICENSE settings, "
    "license_groups expansion) is glue: the harness derives the model's inputs from the files it wrote, except the two expanded "
    "settings which it reads back from domain.settings",
    "LICENSE strings are parsed into and/or trees by the harness; DepSet.dnf_solutions of the real package is what the code uses",
]
ASSUMPTIONS = [
    "keyword theorems cover configurations without negated keyword tokens (-kw, -*): the property text gives them no meaning; such "
    "configurations are still generated and compared model-vs-implementation",
    "an atom matches only packages of its own key; an always-true restriction matches every package",
    "LICENSE without USE conditionals (visibility is decided on the configured package, after USE evaluation)",
]
RULE = ("a case = one generated repository (8-10 packages over 2 categories x 4 names x 2 versions, KEYWORDS from stable/testing/foreign/-* "
        "mixes, LICENSE and/or expressions up to depth 3, repository package.mask, license_groups with nesting), a profile chain of 1-3 "
        "nodes (package.mask with removals, package.unmask, package.keywords, package.accept_keywords, make.defaults) and a user "
        "configuration (package.mask/unmask/accept_keywords/keywords/license as files or directories, ACCEPT_KEYWORDS, ACCEPT_LICENSE), "
        "every package decided; plus the bounded-exhaustive keyword matrix: one configuration per subset of the ACCEPT_KEYWORDS token "
        "universe {amd64, ~amd64, x86, ~x86, *, ~*, **} (quick: subsets of at most two tokens; thorough: all subsets, universe extended by "
        "~arm64; handed over via make.defaults, the domain settings or split over both), each holding every kind of per-package entry "
        "(none, empty, ~amd64, **, *, ~*, ~x86, x86 ~arm64) once and every package keyword set under every name; "
        "non-trivial = at least two of the three filters have something configured that matches the package, "
        "or the verdicts of the three filters are not all equal")
LEVEL_TEXT = ("Kernel-checked Lean 4 theorems about a model of domain.filter_repo/generate_filter and the keywords and license filters: "
              "visible = not masked (mask stacking is last-writer-wins, net of unmasks) and some keyword accepted (accepted set = ARCH, "
              "ACCEPT_KEYWORDS and all matching entries, empty entry = ~ARCH on a stable system, **/*/~* wildcards; both the incremental and "
              "the non-incremental collapse) and the LICENSE expression satisfied by the licenses accepted pointwise by the last relevant "
              "token (@group, -@group, *, -*; DNF alternatives = formula). Differential run through a real domain over real profiles, "
              "configuration directories and repositories.")
LEVEL_NOTE = "Trusted: Lean kernel, standard axioms; restriction matching and configuration-file stacking (parameters/glue); sampled correspondence."

CATS = ["cat", "dog"]
NAMES = ["a", "b", "c", "d"]
LICS = ["GPL-2", "MIT", "BSD", "BSD-2", "EULA", "CC0"]
KWS = ["amd64", "~amd64", "x86", "~x86", "-*", "arm64", "~arm64"]


def w(path, text):
    os.makedirs(os.path.dirname(path), exist_ok=True)
    with open(path, "w") as f:
        f.write(text)


# ------------------------------------------------------------------ generators

def gen_license(rng, depth=0):
    """(tree, text); tree = {"lic": x} | {"all": [...]} | {"any": [...]}; top level is an all-of"""
    def node(d):
        k = rng.random()
        if k < 0.55 or d >= 3:
            l = rng.choice(LICS)
            return {"lic": l}, l
        kids = [node(d + 1) for _ in range(rng.randint(1, 3))]
        if k < 0.8:
            return {"any": [t for t, _ in kids]}, "|| ( %s )" % " ".join(s for _, s in kids)
        return {"all": [t for t, _ in kids]}, "( %s )" % " ".join(s for _, s in kids)
    kids = [node(1) for _ in range(rng.choice([0, 1, 1, 1, 2, 3]))]
    return {"all": [t for t, _ in kids]}, " ".join(s for _, s in kids)


def gen_restriction(rng, pkgs):
    """text of a restriction as written in package.* files"""
    c, n, v = rng.choice(pkgs)
    k = rng.random()
    if k < 0.35:
        return "%s/%s" % (c, n)
    if k < 0.5:
        return "=%s/%s-%s" % (c, n, v)
    if k < 0.6:
        return "%s%s/%s-%s" % (rng.choice([">=", "<", "~"]), c, n, v)
    if k < 0.72:
        return "%s/*" % c
    if k < 0.82:
        return "*/%s" % n
    if k < 0.92:
        return "*/*"
    return "%s/%s*" % (c, n[:1])


def gen_kw_tokens(rng, allow_neg):
    k = rng.random()
    if k < 0.18:
        return []
    toks = [rng.choice(["~amd64", "~x86", "x86", "**", "*", "~*", "arm64", "~arm64", "amd64"]) for _ in range(rng.randint(1, 3))]
    if allow_neg and rng.random() < 0.5:
        toks.insert(rng.randrange(len(toks) + 1), rng.choice(["-~amd64", "-*", "-x86", "-~x86"]))
    return toks


def gen_lic_tokens(rng):
    pool = LICS + ["@FREE", "@BSDS", "@ALL", "@NOSUCH", "*", "-*", "-@BSDS", "-@FREE", "-EULA", "-MIT", "-GPL-2"]
    return [rng.choice(pool) for _ in range(rng.randint(1, 4))]


def uniq(seq):
    out = []
    for x in seq:
        if x not in out:
            out.append(x)
    return out


class World:
    def __init__(self, rng, corpus=None):
        self.rng = rng
        self.top = tempfile.mkdtemp(prefix="verif-c13-")
        self.R = os.path.join(self.top, "repo")
        self.conf = os.path.join(self.top, "conf")
        os.makedirs(self.conf)
        spec = corpus or self.generate(rng)
        self.spec = spec
        R = self.R
        w(R + "/profiles/repo_name", "c13\n")
        w(R + "/profiles/categories", "".join(c + "\n" for c in spec.get("cats", CATS)))
        w(R + "/profiles/arch.list", "amd64\nx86\narm64\n")
        w(R + "/metadata/layout.conf", "masters =\ncache-formats = md5-dict\n")
        os.makedirs(R + "/eclass")
        w(R + "/profiles/license_groups", "".join("%s %s\n" % (g, " ".join(v)) for g, v in spec["groups"].items()))
        if spec["repo_masks"]:
            w(R + "/profiles/package.mask", "".join(a + "\n" for a in spec["repo_masks"]))
        for (c, n, v), meta in spec["pkgs"].items():
            eb = 'EAPI=7\nDESCRIPTION="x"\nSLOT=0\n'
            w(f"{R}/{c}/{n}/{n}-{v}.ebuild", eb)
            lines = ["DEFINED_PHASES=-", "DESCRIPTION=x", "EAPI=7", "SLOT=0", "KEYWORDS=" + " ".join(meta["keywords"]),
                     "LICENSE=" + meta["license_text"], "_md5_=" + hashlib.md5(eb.encode()).hexdigest()]
            w(f"{R}/metadata/md5-cache/{c}/{n}-{v}", "\n".join(sorted(lines)) + "\n")
        for i, node in enumerate(spec["profile"]):
            d = f"{R}/profiles/p{i}"
            os.makedirs(d)
            if i == 0:
                w(d + "/make.defaults", "".join('%s="%s"\n' % kv for kv in spec["defaults"].items()))
            else:
                w(d + "/parent", "../p%d\n" % (i - 1))
            if node["masks"]:
                w(d + "/package.mask", "".join(a + "\n" for a in node["masks"]))
            if node["unmasks"]:
                w(d + "/package.unmask", "".join(a + "\n" for a in node["unmasks"]))
            if node["keywords"]:
                w(d + "/package.keywords", "".join("%s %s\n" % (r, " ".join(t)) for r, t in node["keywords"]))
            if node["accept_keywords"]:
                w(d + "/package.accept_keywords", "".join("%s %s\n" % (r, " ".join(t)) for r, t in node["accept_keywords"]))
        for fname, lines in spec["user"].items():
            if not lines:
                continue
            text = ["%s %s" % (r, " ".join(t)) if t is not None else r for r, t in lines]
            if spec["user_dirs"].get(fname) and len(text) > 1:
                half = len(text) // 2
                w(f"{self.conf}/{fname}/00-first", "\n".join(text[:half]) + "\n")
                w(f"{self.conf}/{fname}/10-second", "\n".join(text[half:]) + "\n")
            else:
                w(f"{self.conf}/{fname}", "\n".join(text) + "\n")

    @staticmethod
    def generate(rng):
        pkgs = {}
        for _ in range(rng.randint(8, 10)):
            key = (rng.choice(CATS), rng.choice(NAMES), rng.choice(["1", "2"]))
            tree, text = gen_license(rng)
            pkgs[key] = {"keywords": uniq(rng.choice(KWS) for _ in range(rng.choice([0, 1, 1, 2, 2, 3]))),
                         "license": tree, "license_text": text}
        plist = sorted(pkgs)
        def plain_atom():
            c, n, v = rng.choice(plist)
            k = rng.random()
            return "%s/%s" % (c, n) if k < 0.6 else "=%s/%s-%s" % (c, n, v) if k < 0.85 else ">=%s/%s-%s" % (c, n, v)
        stable = rng.random() < 0.7
        allow_neg = rng.random() < 0.2
        profile = []
        seen_masks, seen_unmasks = [], []
        for i in range(rng.randint(1, 3)):
            masks = uniq(plain_atom() for _ in range(rng.choice([0, 1, 2, 3])))
            unmasks = uniq(plain_atom() for _ in range(rng.choice([0, 0, 1, 2])))
            if seen_masks and rng.random() < 0.6:
                masks.insert(rng.randrange(len(masks) + 1), "-" + rng.choice(seen_masks))
            if seen_unmasks and rng.random() < 0.4:
                unmasks.insert(rng.randrange(len(unmasks) + 1), "-" + rng.choice(seen_unmasks))
            seen_masks += [m for m in masks if not m.startswith("-")]
            seen_unmasks += [m for m in unmasks if not m.startswith("-")]
            profile.append({
                "masks": masks, "unmasks": unmasks,
                # profile files take atoms only (globs are rejected by the profile parser)
                "keywords": [(plain_atom(), [rng.choice(["amd64", "~amd64", "x86", "-*"])])
                             for _ in range(rng.choice([0, 0, 0, 1]))],
                "accept_keywords": [(plain_atom(), gen_kw_tokens(rng, allow_neg) or ["~amd64"])
                                    for _ in range(rng.choice([0, 0, 1]))],
            })
        defaults = {"ARCH": "amd64", "CHOST": "x86_64-pc-linux-gnu", "USE": "",
                    "ACCEPT_KEYWORDS": rng.choice(["amd64"] * 5 + ["amd64 ~amd64", "amd64 ~*", "**", "amd64 *", "~amd64", "amd64 ~x86"]) if stable
                    else rng.choice(["~amd64", "amd64 ~amd64", "~amd64 **"])}
        if rng.random() < 0.75:
            defaults["ACCEPT_LICENSE"] = " ".join(rng.choice([["-*", "@FREE"], ["*", "-EULA"], ["*", "-@BSDS"], ["@ALL"], ["-*"],
                                                               gen_lic_tokens(rng), gen_lic_tokens(rng)]))
        n_kw = rng.choice([0, 0, 1, 2, 3, 4])
        user = {
            "package.mask": [(gen_restriction(rng, plist), None) for _ in range(rng.choice([0, 0, 1, 2, 3]))],
            "package.unmask": [(gen_restriction(rng, plist), None) for _ in range(rng.choice([0, 0, 1, 2]))],
            "package.accept_keywords": [(gen_restriction(rng, plist), gen_kw_tokens(rng, allow_neg)) for _ in range(n_kw)],
            "package.keywords": [(gen_restriction(rng, plist), gen_kw_tokens(rng, allow_neg)) for _ in range(rng.choice([0, 0, 0, 1]))],
            "package.license": [(gen_restriction(rng, plist), gen_lic_tokens(rng)) for _ in range(rng.choice([0, 0, 1, 2, 3]))],
        }
        settings = {}
        if rng.random() < 0.3:
            settings["ACCEPT_KEYWORDS"] = rng.choice(["**", "~*", "*", "~amd64", "~x86", "-* amd64"])
        if rng.random() < 0.25:
            settings["ACCEPT_LICENSE"] = " ".join(gen_lic_tokens(rng))
        return {
            "pkgs": pkgs, "repo_masks": uniq(plain_atom() for _ in range(rng.choice([0, 0, 1, 2]))),
            "groups": {"FREE": ["GPL-2", "MIT", "@BSDS"], "BSDS": ["BSD", "BSD-2"], "ALL": ["@FREE", "EULA", "CC0"]},
            "profile": profile, "defaults": defaults, "user": user, "settings": settings,
            "user_dirs": {k: rng.random() < 0.3 for k in user},
        }

    def close(self):
        shutil.rmtree(self.top, ignore_errors=True)


# ------------------------------------------------------------------ model inputs derived from the written configuration

def expand_groups(groups):
    out = {}
    def exp(g, stack):
        res = []
        for x in groups.get(g, []):
            if x.startswith("@"):
                if x[1:] in groups and x[1:] not in stack:
                    res += exp(x[1:], stack + [x[1:]])
            else:
                res.append(x)
        return res
    for g in groups:
        out[g] = uniq(exp(g, [g]))
    return out


def classify(restriction):
    from pkgcore.ebuild import atom as atom_mod
    from pkgcore.restrictions import boolean, packages, restriction as rmod
    if isinstance(restriction, rmod.AlwaysBool):
        return "always"
    if isinstance(restriction, atom_mod.atom):
        return "atom"
    if isinstance(restriction, boolean.AndRestriction):
        return "multi"
    if isinstance(restriction, packages.PackageRestriction):
        return {"category": "cat", "package": "pkg", "repo.repo_id": "repo"}.get(restriction.attr)
    return None


def model_request(world, dom, pkg, parsed):
    """everything the decision depends on, for one package; `parsed` caches parse_match results"""
    spec = world.spec
    def R(text):
        if text not in parsed:
            from pkgcore.util.parserestrict import parse_match
            parsed[text] = parse_match(text)
        return parsed[text]
    mask_ops = [[[], list(spec["repo_masks"])]]
    unmask_ops = []
    for node in spec["profile"]:
        if node["masks"]:
            mask_ops.append([[m[1:] for m in node["masks"] if m.startswith("-")], [m for m in node["masks"] if not m.startswith("-")]])
        if node["unmasks"]:
            unmask_ops.append([[m[1:] for m in node["unmasks"] if m.startswith("-")], [m for m in node["unmasks"] if not m.startswith("-")]])
    mask_ops.append([[], uniq(r for r, _ in spec["user"]["package.mask"])])
    unmask_ops.append([[], uniq(r for r, _ in spec["user"]["package.unmask"])])
    atoms = {a for ops in (mask_ops, unmask_ops) for neg, pos in ops for a in neg + pos}
    matching = sorted(a for a in atoms if R(a).match(pkg))
    entries = []
    kw_lines = spec["user"]["package.keywords"] + spec["user"]["package.accept_keywords"]
    for node in spec["profile"]:
        kw_lines = kw_lines + node["accept_keywords"]
    for text, toks in kw_lines:
        r = R(text)
        cls = classify(r)
        if cls is None:
            return None
        entries.append({"cls": cls, "same_key": cls == "atom" and r.key == pkg.key, "hit": bool(r.match(pkg)), "tokens": uniq(toks)})
    prof_kw = [kv for node in spec["profile"] for kv in node["keywords"]]
    keywords = list(spec["pkgs"][(pkg.category, pkg.package, pkg.fullver)]["keywords"])
    for text, toks in prof_kw:
        if R(text).match(pkg):
            keywords += toks
    lic_entries = [[bool(R(text).match(pkg)), uniq(toks)] for text, toks in spec["user"]["package.license"]]
    return {
        "cmd": "c13.visible",
        "groups": [[g, v] for g, v in expand_groups(spec["groups"]).items()],
        "mask_ops": mask_ops, "unmask_ops": unmask_ops,
        "kw": {"arch": spec["defaults"]["ARCH"], "accept": sorted(dom.settings["ACCEPT_KEYWORDS"]), "entries": entries,
               "profile_keywords": bool(prof_kw)},
        "lic": {"master": list(dom.settings.get("ACCEPT_LICENSE", ())), "entries": lic_entries},
        "pkg": {"matching": matching, "keywords": keywords, "license": spec["pkgs"][(pkg.category, pkg.package, pkg.fullver)]["license"]},
    }


# ------------------------------------------------------------------ implementation

def build_domain(world):
    from pkgcore.cache.flat_hash import md5_cache
    from pkgcore.ebuild import domain as domain_mod, profiles, repository
    repo = repository.UnconfiguredTree(world.R, cache=(md5_cache(world.R, readonly=True),), allow_missing_manifests=True)

    class Ref:
        name = "c13"

        def instantiate(self):
            return repo
    prof = profiles.OnDiskProfile(world.R + "/profiles", "p%d" % (len(world.spec["profile"]) - 1))
    dom = domain_mod.domain(prof, [Ref()], [], ROOT=os.path.join(world.top, "root"), config_dir=world.conf, **world.spec["settings"])
    return repo, dom


def corpus_specs():
    """boundary configurations: one per clause of the property and per defect found"""
    L = lambda *names: {"all": [{"lic": n} for n in names]}
    base_pkgs = {
        ("cat", "a", "1"): {"keywords": ["amd64"], "license": L("GPL-2"), "license_text": "GPL-2"},
        ("cat", "a", "2"): {"keywords": ["~amd64"], "license": L("MIT"), "license_text": "MIT"},
        ("cat", "b", "1"): {"keywords": [], "license": L("BSD"), "license_text": "BSD"},
        ("cat", "c", "1"): {"keywords": ["~x86"], "license": {"all": [{"any": [{"lic": "EULA"}, {"lic": "BSD-2"}]}]}, "license_text": "|| ( EULA BSD-2 )"},
        ("dog", "a", "1"): {"keywords": ["amd64", "~x86"], "license": L("EULA", "MIT"), "license_text": "EULA MIT"},
        ("dog", "d", "1"): {"keywords": ["-*", "x86"], "license": {"all": []}, "license_text": ""},
        ("dog", "d", "2"): {"keywords": ["amd64"], "license": {"all": [{"any": [{"all": [{"lic": "EULA"}, {"lic": "CC0"}]}, {"lic": "MIT"}]}]},
                            "license_text": "|| ( ( EULA CC0 ) MIT )"},
    }
    groups = {"FREE": ["GPL-2", "MIT", "@BSDS"], "BSDS": ["BSD", "BSD-2"], "ALL": ["@FREE", "EULA", "CC0"]}
    node = lambda **kw: dict({"masks": [], "unmasks": [], "keywords": [], "accept_keywords": []}, **kw)
    user = lambda **kw: dict({"package.mask": [], "package.unmask": [], "package.accept_keywords": [], "package.keywords": [], "package.license": []}, **kw)
    D = lambda **kw: dict({"ARCH": "amd64", "CHOST": "x86_64-pc-linux-gnu", "USE": "", "ACCEPT_KEYWORDS": "amd64"}, **kw)
    def S(profile=None, defaults=None, u=None, settings=None, repo_masks=()):
        return {"pkgs": base_pkgs, "repo_masks": list(repo_masks), "groups": groups, "profile": profile or [node()], "defaults": defaults or D(),
                "user": u or user(), "settings": settings or {}, "user_dirs": {}}
    return [
        S(),
        # defect: global wildcards without any per-package entry
        S(settings={"ACCEPT_KEYWORDS": "**"}), S(settings={"ACCEPT_KEYWORDS": "~*"}), S(settings={"ACCEPT_KEYWORDS": "*"}),
        S(defaults=D(ACCEPT_KEYWORDS="amd64 ~*")),
        # defect: empty entry on an always-true restriction; and on the other kinds
        S(u=user(**{"package.accept_keywords": [("*/*", [])]})),
        S(u=user(**{"package.accept_keywords": [("cat/*", [])]})), S(u=user(**{"package.accept_keywords": [("cat/a", [])]})),
        S(u=user(**{"package.accept_keywords": [("*/a", [])]})), S(u=user(**{"package.accept_keywords": [("cat/a*", [])]})),
        # empty entry on an unstable system means nothing
        S(defaults=D(ACCEPT_KEYWORDS="~amd64"), u=user(**{"package.accept_keywords": [("cat/c", [])]})),
        # "stable" means ~ARCH is not accepted: a system accepting a foreign testing keyword, ~* or a foreign stable keyword is still
        # stable for its own ARCH (empty entry = ~ARCH); one accepting ~ARCH next to other things is not
        S(defaults=D(ACCEPT_KEYWORDS="amd64 ~x86"), u=user(**{"package.accept_keywords": [("cat/a", []), ("dog/*", [])]})),
        S(defaults=D(ACCEPT_KEYWORDS="amd64 x86"), settings={"ACCEPT_KEYWORDS": "~arm64"}, u=user(**{"package.accept_keywords": [("=cat/a-2", [])]})),
        S(defaults=D(ACCEPT_KEYWORDS="~x86 ~amd64"), u=user(**{"package.accept_keywords": [("cat/c", []), ("cat/a", [])]})),
        # ** / * / ~* per package
        S(u=user(**{"package.accept_keywords": [("cat/b", ["**"]), ("cat/c", ["~*"]), ("dog/d", ["*"])]})),
        # mask stacking: repo mask removed by a profile, re-added by the child, user unmask; version-specific unmask
        S(repo_masks=["cat/a"], profile=[node(masks=["-cat/a", "dog/a"]), node(masks=["cat/a", "-dog/a"], unmasks=["=cat/a-2"])]),
        S(profile=[node(masks=["dog/d"]), node(unmasks=["=dog/d-2"]), node(unmasks=["-=dog/d-2"])], u=user(**{"package.unmask": [("dog/*", None)]})),
        S(u=user(**{"package.mask": [("*/a", None), ("=dog/d-2", None)], "package.unmask": [("dog/a", None)]})),
        # licenses: groups, nested groups, negated group, * and -*, per-package additions, alternatives
        S(defaults=D(ACCEPT_LICENSE="-* @FREE")), S(defaults=D(ACCEPT_LICENSE="* -@BSDS")), S(defaults=D(ACCEPT_LICENSE="@ALL -EULA")),
        S(defaults=D(ACCEPT_LICENSE="-*"), u=user(**{"package.license": [("dog/*", ["*"]), ("cat/c", ["EULA"]), ("dog/a", ["-MIT"])]})),
        S(u=user(**{"package.license": [("cat/zzz", ["MIT"])]})),
        S(defaults=D(ACCEPT_LICENSE="@FREE -* CC0 EULA")),
        # profile package.keywords adds keywords to packages; profile accept_keywords
        S(profile=[node(keywords=[("cat/b", ["amd64"]), ("cat/c", ["~amd64"])], accept_keywords=[("cat/c", ["~amd64"])])]),
        # negated tokens (model vs implementation only)
        S(defaults=D(ACCEPT_KEYWORDS="amd64 ~amd64"), u=user(**{"package.accept_keywords": [("cat/a", ["-~amd64"])]})),
        S(u=user(**{"package.accept_keywords": [("cat/a", ["~amd64"]), ("*/*", ["-~amd64", "~x86"]), ("cat/c", ["**"])]})),
    ]


# ------------------------------------------------------------------ bounded-exhaustive keyword matrix

KW_UNIVERSE = ["amd64", "~amd64", "x86", "~x86", "*", "~*", "**"]
KW_UNIVERSE_THOROUGH = KW_UNIVERSE + ["~arm64"]
# what a per-package entry can say (one of each in every matrix world) ...
ENTRY_KINDS = [None, [], ["~amd64"], ["**"], ["*"], ["~*"], ["~x86"], ["x86", "~arm64"]]
# ... and what a package can be keyworded (one version of every name per set)
PKG_KEYWORD_SETS = [["amd64"], ["~amd64"], ["x86", "arm64"], ["~x86"], [], ["-*", "~amd64", "~arm64"]]


def subsets(universe, max_size=None):
    import itertools
    for k in range(len(universe) + 1 if max_size is None else max_size + 1):
        for c in itertools.combinations(universe, k):
            yield list(c)


def matrix_spec(rng, accept):
    """one configuration of the keyword matrix: ACCEPT_KEYWORDS = `accept` (a subset of the token universe, handed over through
    make.defaults, through the domain settings, or split over both), every kind of per-package entry exactly once (on the eight
    category/name pairs, by a random permutation and through a random form of restriction), every package keyword set under
    every name.  The reference is computed from what really matches, so overlapping restrictions are fine."""
    L = {"all": [{"lic": "MIT"}]}
    keys = [(c, n) for c in CATS for n in NAMES]
    pkgs = {(c, n, str(v + 1)): {"keywords": list(kws), "license": L, "license_text": "MIT"}
            for c, n in keys for v, kws in enumerate(PKG_KEYWORD_SETS)}
    kinds = list(ENTRY_KINDS)
    rng.shuffle(kinds)
    entries = []
    for (c, n), toks in zip(keys, kinds):
        if toks is None:
            continue
        v = str(rng.randint(1, len(PKG_KEYWORD_SETS)))
        form = rng.choice(["%s/%s", "%s/%s", "%s/%s", "*/%s", "%s/%s*", "=%s/%s-" + v, ">=%s/%s-" + v])
        entries.append((form % (c, n) if form.count("%s") == 2 else form % n, list(toks)))
    if rng.random() < 0.15:
        entries.insert(rng.randrange(len(entries) + 1), (rng.choice(["*/*", "cat/*", "dog/*"]), list(rng.choice(ENTRY_KINDS[1:]))))
    rng.shuffle(entries)
    files = {"package.mask": [], "package.unmask": [], "package.accept_keywords": [], "package.keywords": [], "package.license": []}
    for e in entries:
        files["package.accept_keywords" if rng.random() < 0.8 else "package.keywords"].append(e)
    mode = rng.random()
    if mode < 0.55 or not accept:
        in_defaults, in_settings = list(accept), []
    elif mode < 0.7:
        in_defaults, in_settings = [], list(accept)
    else:
        cut = rng.randrange(len(accept) + 1)
        sh = list(accept)
        rng.shuffle(sh)
        in_defaults, in_settings = sh[:cut], sh[cut:]
    return {
        "pkgs": pkgs, "repo_masks": [], "groups": {"FREE": ["MIT"]},
        "profile": [{"masks": [], "unmasks": [], "keywords": [], "accept_keywords": []}],
        "defaults": {"ARCH": "amd64", "CHOST": "x86_64-pc-linux-gnu", "USE": "", "ACCEPT_KEYWORDS": " ".join(in_defaults)},
        "user": files, "settings": {"ACCEPT_KEYWORDS": " ".join(in_settings)} if in_settings else {},
        "user_dirs": {k: rng.random() < 0.2 for k in files},
    }


# ------------------------------------------------------------------ neighbours of a configuration (escalation of a mismatch)

def neighbours(spec, pkgkey, limit=24):
    """configurations near `spec` on which the property is defined: without negated keyword tokens, then with single entries
    emptied / dropped, single ACCEPT_KEYWORDS tokens dropped, the package rekeyworded, and empty entry + testing-only package"""
    import copy
    def strip(toks):
        return [t for t in toks if not t.startswith("-")]
    base = copy.deepcopy(spec)
    for holder in (base["defaults"], base["settings"]):
        if "ACCEPT_KEYWORDS" in holder:
            holder["ACCEPT_KEYWORDS"] = " ".join(strip(holder["ACCEPT_KEYWORDS"].split()))
    if base["settings"].get("ACCEPT_KEYWORDS") == "":
        del base["settings"]["ACCEPT_KEYWORDS"]
    for f in ("package.accept_keywords", "package.keywords"):
        base["user"][f] = [(r, strip(t)) for r, t in base["user"][f]]
    for node in base["profile"]:
        for f in ("accept_keywords", "keywords"):
            node[f] = [(r, strip(t)) for r, t in node[f] if strip(t)]
    out = [("no-negated-tokens", base)]
    def variant(name, fn):
        v = copy.deepcopy(base)
        fn(v)
        out.append((name, v))
    def set_kw(v, kws):
        v["pkgs"][pkgkey] = dict(v["pkgs"][pkgkey], keywords=list(kws))
    for kws in (["~amd64"], ["amd64"], ["~x86"], []):
        variant("package-keywords=%s" % " ".join(kws), lambda v, kws=kws: set_kw(v, kws))
    for f in ("package.accept_keywords", "package.keywords"):
        for i in range(len(base["user"][f])):
            def empty(v, f=f, i=i):
                v["user"][f][i] = (v["user"][f][i][0], [])
            def empty_testing(v, f=f, i=i):
                empty(v)
                set_kw(v, ["~amd64"])
            def drop(v, f=f, i=i):
                del v["user"][f][i]
            variant("%s[%d]-emptied" % (f, i), empty)
            variant("%s[%d]-emptied+package-keywords=~amd64" % (f, i), empty_testing)
            variant("%s[%d]-dropped" % (f, i), drop)
    for holder in ("defaults", "settings"):
        toks = base[holder].get("ACCEPT_KEYWORDS", "").split()
        for i in range(len(toks)):
            def less(v, holder=holder, i=i):
                t = v[holder]["ACCEPT_KEYWORDS"].split()
                del t[i]
                v[holder]["ACCEPT_KEYWORDS"] = " ".join(t)
                if holder == "settings" and not t:
                    del v[holder]["ACCEPT_KEYWORDS"]
            variant("%s-ACCEPT_KEYWORDS-without-%s" % (holder, toks[i]), less)
    return out[:limit]


# ------------------------------------------------------------------ run

def evaluate_world(ctx, label, spec, pending):
    """write the configuration, build the real domain, queue one decision per package"""
    if isinstance(spec, dict) and spec.get("pkgs") and not all(isinstance(k, tuple) for k in spec["pkgs"]):
        spec = dict(spec, pkgs={tuple(k.split("|")): v for k, v in spec["pkgs"].items()})
    if isinstance(spec, dict):
        # JSON round trip (replays) turns the (restriction, tokens) pairs into lists; harmless, they are only unpacked
        pass
    world = World(ctx.rng, corpus=spec)
    jspec = dict(world.spec, pkgs={"|".join(k): v for k, v in world.spec["pkgs"].items()})
    try:
        try:
            repo, dom = build_domain(world)
            visible = {p.cpvstr for r in dom.source_repos for p in r}
            raw = {p.cpvstr: p for p in repo}
        except Exception as e:
            ctx.violation({"label": label, "world": jspec}, f"building the domain / listing packages raised {type(e).__name__}: {e}")
            return
        parsed = {}
        for cpv, pkg in sorted(raw.items()):
            req = model_request(world, dom, pkg, parsed)
            if req is None:
                ctx.note("a generated restriction is of a kind collapsed_restrict_to_data does not file; case skipped")
                continue
            focus = {"ARCH": req["kw"]["arch"], "ACCEPT_KEYWORDS": req["kw"]["accept"], "package_KEYWORDS": req["pkg"]["keywords"],
                     "matching_keyword_entries": [e["tokens"] for e in req["kw"]["entries"] if e["hit"]]}
            pending.append((req, {"label": label, "package": cpv, "focus": focus, "world": jspec}, cpv in visible))
    finally:
        world.close()


def run(ctx):
    rng = ctx.rng
    worlds = [("corpus%d" % i, s) for i, s in enumerate(corpus_specs())]
    if ctx.replay_cases:
        worlds = [("replay", c["world"]) for c in ctx.replay_cases if "world" in c] + worlds
    worlds += [("%d:%d" % (ctx.seed, i), None) for i in range(ctx.n(140, 5000))]
    pending, suspects = [], []
    for label, spec in worlds:
        evaluate_world(ctx, label, spec, pending)
        if len(pending) >= 4000:
            judge(ctx, pending, suspects)
    judge(ctx, pending, suspects)
    # ---- the keyword matrix: every ACCEPT_KEYWORDS subset (quick: of at most two tokens) x every entry kind x every keyword set
    universe = ctx.n(KW_UNIVERSE, KW_UNIVERSE_THOROUGH)
    done = set()
    for accept in subsets(universe, ctx.n(2, None)):
        done.add(tuple(accept))
        evaluate_world(ctx, "matrix:%d:%s" % (ctx.seed, " ".join(accept) or "(empty)"), matrix_spec(rng, accept), pending)
        ctx.count("matrix_worlds")
        if len(pending) >= 4000:
            judge(ctx, pending, suspects)
    judge(ctx, pending, suspects)
    # ---- a model/implementation mismatch without a failing input so far: evaluate the property itself on the real code on the
    # configurations around it (negated tokens removed, entries emptied/dropped, package rekeyworded, ACCEPT_KEYWORDS shrunk) and
    # on the whole keyword matrix, so that a broken property is reported on an input on which its own statement fails
    if suspects and not ctx.violations:
        seen, explored = set(), 0
        for case in suspects:
            if case["label"] in seen or len(seen) >= 3:
                continue
            seen.add(case["label"])
            spec = case["world"]
            spec = dict(spec, pkgs={tuple(k.split("|")): v for k, v in spec["pkgs"].items()})
            c, rest = case["package"].split("/")
            n, v = rest.rsplit("-", 1)
            for name, variant in neighbours(spec, (c, n, v)):
                evaluate_world(ctx, "near[%s|%s]:%s" % (case["label"], case["package"], name), variant, pending)
                explored += 1
            judge(ctx, pending, None)
        for accept in subsets(universe):
            if tuple(accept) in done or ctx.violations:
                continue
            evaluate_world(ctx, "matrix:%d:%s" % (ctx.seed, " ".join(accept)), matrix_spec(rng, accept), pending)
            explored += 1
            if len(pending) >= 2000:
                judge(ctx, pending, None)
        judge(ctx, pending, None)
        ctx.note("model/implementation mismatch escalated: the property evaluated on %d neighbouring configurations and the rest of the "
                 "keyword matrix: %s" % (explored, "failing input found" if ctx.violations else "it holds on all of them"))


def judge(ctx, pending, suspects):
    if not pending:
        return
    reps = ctx.model([r for r, _, _ in pending])
    for (req, case, impl), rep in zip(pending, reps):
        if rep == "bad-op" or rep == "err":
            ctx.mismatch(case, f"driver rejected the request ({rep})")
            continue
        configured = sum([len(req["pkg"]["matching"]) > 0, any(e["hit"] for e in req["kw"]["entries"]), any(h for h, _ in req["lic"]["entries"])])
        nontriv = configured >= 2 or len({rep["mask"], rep["kw"], rep["lic"]}) > 1
        ctx.case(case, nontriv, key=case["label"] + "|" + case["package"] + "|" + str(hash(str(req))))
        ctx.count("impl_%s" % ("visible" if impl else "hidden"))
        ctx.count("filters_mask%d_kw%d_lic%d" % (rep["mask"], rep["kw"], rep["lic"]))
        ctx.count("kw_entries_%d" % min(5, len(req["kw"]["entries"])))
        ctx.count("kw_plain" if rep["spec_kw"] is not None else "kw_with_negations")
        accept = req["kw"]["accept"]
        ctx.count("system_%s" % ("unstable" if "~" + req["kw"]["arch"] in accept else
                                 "stable_accepting_other_testing" if any(k.startswith("~") for k in accept) else "stable"))
        if any(e["hit"] and not e["tokens"] for e in req["kw"]["entries"]):
            ctx.count("empty_entry_matches")
        for e in req["kw"]["entries"]:
            ctx.count("kw_cls_" + e["cls"])
        # ---- the property on the real code (edge C)
        if rep["spec_kw"] is not None:
            want = rep["spec_mask"] and rep["spec_kw"] and rep["spec_lic"]
            if impl != want:
                ctx.violation(case, f"package is {'visible' if impl else 'not visible'}; the property gives not-masked={rep['spec_mask']} "
                                    f"keyword-accepted={rep['spec_kw']} license-accepted={rep['spec_lic']}")
                continue
        # ---- model vs implementation (edge A)
        if impl != rep["visible"]:
            ctx.mismatch(case, f"implementation {'visible' if impl else 'not visible'}; model mask={rep['mask']} kw={rep['kw']} lic={rep['lic']}")
            if suspects is not None:
                suspects.append(case)
    pending.clear()
