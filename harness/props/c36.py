"""C36 — fetching returns only verified files and uses every allowed attempt."""
import hashlib
import itertools
import os
import shutil
import tempfile
from unittest import mock

PID = "C36"
LEAN_MODULES = ["Pkgcore.Props.C36"]
OBLIGATIONS = [
    "Pkgcore.C36.fetch_returns_only_verified",
    "Pkgcore.C36.fetch_returned_file_acceptable",
    "Pkgcore.C36.fetch_returns_if_any_attempt_correct",
    "Pkgcore.C36.fetch_returns_iff",
    "Pkgcore.C36.fetch_returns_iff_exists",
    "Pkgcore.C36.fetch_uses_every_attempt",
    "Pkgcore.C36.partial_kept_for_resume",
    "Pkgcore.C36.partial_survives_failed_fetch",
    "Pkgcore.C36.wrong_checksum_never_reported",
    "Pkgcore.C36.nonzero_status_is_failure",
    "Pkgcore.C36.fetchSeq_each_verified",
    "Pkgcore.C36.unfixed_loop_counterexample",
]
TRUSTED = [
    "file abstraction: a distfile is `missing` or (size, all-non-size-checksums-match); computed in the harness with hashlib, "
    "independently of snakeoil's handlers, and compared with what the real _verify/fetch do on real files",
    "the external fetch command is an arbitrary function (k-th run -> file left, exit status); spawn_bash itself is exercised by a "
    "real bash fetch script in part of the cases and replaced by a recording stub in the rest",
    "hash collisions are ignored (a content different from the expected one is assumed to fail a stated hash)",
    "the value spawn_bash returns is 0, an exit code 1..255, or signal << 8 (| 0x80 << 8 with a core dump), as computed by "
    "snakeoil.process.spawn.process_exit_code; the stub returns such values, the bash script exits with the code or kills itself with the signal",
]
ASSUMPTIONS = [
    "every checksum type listed by the target has a snakeoil handler (otherwise _verify raises MissingChksumHandler before looking at the file)",
    "distdir is writable (os.unlink of an empty file succeeds; otherwise fetch raises UnmodifiableFile)",
    "'some attempt leaves such a file' refers to attempts the loop executes: on a complete-but-wrong file (oversized, or right size and wrong "
    "checksum) the code deliberately re-raises ChksumFailure without using the remaining attempts; the theorems state this exactly "
    "(fetch_returns_iff / wrong_checksum_never_reported)",
    "for a target without a size entry an empty file never counts as fetched; for a target with no checksums at all the only evidence of a "
    "complete download is a zero exit status of the fetch command (the code discards the file otherwise)",
]
RULE = ("a case = (target checksums: size and/or 0-3 hashes, consistent or deliberately inconsistent; attempts 0-4; initial file; one outcome per URI, "
        "0-5 URIs: nothing/deleted, empty, partial prefix, oversized, same-size corrupt, correct, size-matching-but-wrong, each with status 0, an exit "
        "code 1..255 or a signal kill (signal << 8)); stand-alone on a fresh fetcher object, or as one of 2-4 fetches on ONE long-lived fetcher "
        "object and distdir (same file name with the same / re-rolled / longer / shorter content and another checksum set, file left in place or "
        "replaced from outside, a second file name interleaved); "
        "real files and real checksums in a scratch distdir, fetch through fetcher.__call__/fetch; "
        "non-trivial = at least one run of the fetch command was executed by the real loop; key = abstract target + attempts + abstract initial file "
        "+ abstract executed outcomes")
LEVEL_TEXT = ("Kernel-checked Lean 4 theorems about a model of fetcher.fetch/_verify as a state machine over file states, for every target, attempt "
              "budget, initial file and outcome sequence of any length: a path is returned only for a file with the stated size and checksums "
              "(fetch_returns_only_verified) that is non-empty unless a size of 0 is stated and is the initial file or the acceptable result of the last "
              "executed run (fetch_returned_file_acceptable); it is returned whenever the initial file or an executed attempt — including the last allowed one — "
              "leaves such a file (fetch_returns_if_any_attempt_correct, exact characterisation fetch_returns_iff); failures other than ChksumFailure "
              "use all attempts or all URIs (fetch_uses_every_attempt); partial files go untouched to the resume command and survive a failed fetch "
              "(partial_kept_for_resume, partial_survives_failed_fetch); a wrong-checksum file always ends in ChksumFailure "
              "(wrong_checksum_never_reported). The model is tied to the code by running the real fetch() on real files with generated outcome "
              "sequences (stubbed spawn_bash and a real bash fetch script), comparing result, final file and per-run command/URI/handed file, and "
              "by evaluating the property clauses directly on the real code with a hashlib oracle, including a fresh re-read of the reported "
              "file through get_path() of a new fetcher object; every model/implementation disagreement is followed by an evaluation of the "
              "property on the real code for the neighbouring inputs (shrinks, flipped exit statuses, one more successful attempt). "
              "Every non-zero spawn status, including signal kills whose low byte is 0, is a failure for checksum-less targets "
              "(nonzero_status_is_failure); in any history of fetches on one fetcher object each returned file is verified against the "
              "target of that very fetch (fetchSeq_each_verified) -- the correspondence replays such histories on one real fetcher object.")
LEVEL_NOTE = ("Trusted: Lean kernel; standard axioms only; the abstraction of files to (size, checksums match); the behaviour of the external "
              "fetch command is universally quantified in the theorems and sampled in the correspondence.")

HASHES = ["sha256", "sha512", "blake2b", "md5", "sha1"]
FNAME = "distfile-1.0.tar.gz"
FNAME2 = "other-2.0.tar.xz"


class Fail(tuple):
    """exit part of an outcome for a run that did NOT succeed, carrying the concrete value spawn_bash returns:
    an exit code 1..255, or `signal << 8` (`(0x80 | signal) << 8` with a core dump) for a command killed by a signal
    (snakeoil.process.spawn.process_exit_code).  The exit part of an outcome is True (status 0), False (some exit
    code 1..90 chosen by position) or a Fail; only True is truthy."""

    def __new__(cls, status):
        assert status != 0
        return tuple.__new__(cls, (status,))

    def __bool__(self):
        return False

    status = property(lambda self: self[0])

    def __repr__(self):
        return "Fail(%d)" % self[0]


def status_of(e, k):
    """the value spawn_bash returns for the k-th run"""
    if isinstance(e, Fail):
        return e.status
    return 0 if e else 1 + k % 90


def status_text(e, k):
    st = status_of(e, k)
    if st >= 256:
        return "%d (killed by signal %d%s)" % (st, (st >> 8) & 0x7F, ", core dumped" if (st >> 8) & 0x80 else "")
    return st


SIGNALS = [1, 2, 3, 6, 9, 11, 13, 15]
STATUSES = [1, 2, 8, 92, 126, 127, 128, 137, 143, 255] + [sig << 8 for sig in SIGNALS] + [(0x80 | sig) << 8 for sig in (3, 6, 11)]


def hval(name, content):
    return int(hashlib.new(name, content).hexdigest(), 16)


# ------------------------------------------------------------------ case construction

def mk_target(data, size, hashes, bad_hash=None):
    """chksums dict: size claim (or None), hashes of `data`; bad_hash = name of a hash deliberately computed over other data"""
    ch = {}
    if size is not None:
        ch["size"] = size
    for h in hashes:
        ch[h] = hval(h, data + b"!") if h == bad_hash else hval(h, data)
    return ch


def content_of(kind, data, size, rng):
    """a concrete file content (None = no file) for an outcome kind, relative to expected data and the size claim"""
    want = size if size is not None else len(data)
    if kind == "missing":
        return None
    if kind == "empty":
        return b""
    if kind == "correct":
        return data
    if kind == "partial":
        if want <= 1:
            return b""
        k = rng.randint(1, want - 1)
        return (data + b"\0" * want)[:k]
    if kind == "oversized":
        return (data + b"\0" * want)[:want] + b"x" * rng.randint(1, 3)
    if kind == "corrupt":          # same length as the size claim / the data, different content
        if want == 0:
            return b"y"
        base = bytearray((data + b"\0" * want)[:want])
        base[rng.randrange(want)] ^= 0x55
        return bytes(base)
    if kind == "garbage":
        return bytes(rng.randrange(256) for _ in range(rng.randint(1, 2 * max(want, 1))))
    raise ValueError(kind)


KINDS = ["missing", "empty", "partial", "oversized", "corrupt", "correct", "garbage"]


def abstract(content, chksums, data):
    """model view of a file: null or [size, every non-size checksum matches] (hashlib, independent of snakeoil)"""
    if content is None:
        return None
    others = [h for h in chksums if h != "size"]
    ok = all(hval(h, content) == chksums[h] for h in others) if others else (content == data)
    return [len(content), bool(ok)]


def verified(content, chksums):
    """property oracle: the stated size and every stated checksum hold"""
    if content is None:
        return False
    for h, v in chksums.items():
        if h == "size":
            if len(content) != v:
                return False
        elif hval(h, content) != v:
            return False
    return True


def acceptable(content, exit0, chksums):
    if not verified(content, chksums):
        return False
    if "size" not in chksums and len(content) == 0:
        return False
    if not chksums and not exit0:
        return False
    return True


def wrong(content, chksums):
    if content is None:
        return False
    others = [h for h in chksums if h != "size"]
    bad = any(hval(h, content) != chksums[h] for h in others)
    if "size" in chksums:
        return len(content) > chksums["size"] or (len(content) == chksums["size"] and bad)
    return len(content) != 0 and bad


def partial(content, chksums):
    return content is not None and "size" in chksums and len(content) < chksums["size"]


# ------------------------------------------------------------------ running the real code

class Scratch:
    def __init__(self):
        self.root = tempfile.mkdtemp(prefix="verif-c36-")
        self.n = 0
        self.script = os.path.join(self.root, "fake-fetch.sh")
        with open(self.script, "w") as f:
            f.write(SCRIPT)

    def fresh(self):
        self.n += 1
        d = os.path.join(self.root, "d%d" % self.n)
        os.makedirs(os.path.join(d, "distdir"))
        return d

    def close(self):
        shutil.rmtree(self.root, ignore_errors=True)


SCRIPT = r"""# fake fetch command: $1 = plan directory, $2 = fresh|resume, $3 = URI, $4 = destination
plan=$1
read k < "$plan/counter"
echo $((k + 1)) > "$plan/counter"
if [ -e "$4" ]; then /bin/cp "$4" "$plan/handed.$k"; fi
echo "$2 $3" >> "$plan/log"
if [ -e "$plan/out.$k" ]; then /bin/cp "$plan/out.$k" "$4"; else /bin/rm -f "$4"; fi
read how rc < "$plan/exit.$k"
if [ "$how" = kill ]; then kill -$rc $$; fi
exit $rc
"""


def read_file(p):
    try:
        with open(p, "rb") as f:
            return f.read()
    except FileNotFoundError:
        return None


def classify(exc, errors):
    if isinstance(exc, errors.MissingDistfile):
        return "missing"
    if isinstance(exc, errors.ChksumFailure):
        return "chksum"
    if isinstance(exc, errors.FetchFailed):
        return "toosmall" if exc.resumable else "failed"
    return "other:" + type(exc).__name__


COARSE = {"returned": "returned", "missing": "missing", "chksum": "chksum", "toosmall": "toosmall", "empty": "failed", "nouris": "failed"}


class Session:
    """ONE long-lived custom.fetcher object on ONE distdir; fetches are issued on it one after the other (a stand-alone
    case is a session with a single fetch).  The external fetch command is a recording stub for spawn_bash, or a real
    bash script run through the real spawn_bash."""

    def __init__(self, scratch, attempts, real_bash):
        from pkgcore.fetch import custom
        self.scratch, self.real_bash, self.attempts = scratch, real_bash, attempts
        self.d = scratch.fresh()
        self.distdir = os.path.join(self.d, "distdir")
        self.plan = os.path.join(self.d, "plan")
        self.nfetches = 0
        if real_bash:
            self.fetcher = custom.fetcher(
                distdir=self.distdir,
                command='bash %s %s fresh "\\${URI}" "${DISTDIR}/${FILE}"' % (scratch.script, self.plan),
                resume_command='bash %s %s resume "$URI" "$DISTDIR/$FILE"' % (scratch.script, self.plan),
                userpriv=False, attempts=attempts, PATH="/usr/bin:/bin")
        else:
            self.fetcher = custom.fetcher(
                distdir=self.distdir, command="FETCH-FRESH ${URI} -o ${DISTDIR}/${FILE}",
                resume_command="FETCH-RESUME $URI -o $DISTDIR/$FILE", userpriv=False, attempts=attempts)

    def close(self):
        shutil.rmtree(self.d, ignore_errors=True)

    def fetch(self, case):
        """one fetch on the long-lived object; returns dict(result, final, steps=[(cmd, uri_index, handed content)], path_ok, reread).
        case["file0"] is put in place first, unless case["inherit"]: then the file the earlier fetches of the session left
        stays as it is and is recorded as case["file0"]."""
        from pkgcore.fetch import custom, errors, fetchable, uri_list
        fname = case.get("fname", FNAME)
        distdir, fetcher = self.distdir, self.fetcher
        assert case["attempts"] == self.attempts
        self.nfetches += 1
        path = os.path.join(distdir, fname)
        if case.get("inherit"):
            case["file0"] = read_file(path)
        elif case["file0"] is not None:
            with open(path + ".new", "wb") as f:          # replaced from outside: a new inode, like any downloader/rsync would make
                f.write(case["file0"])
            os.replace(path + ".new", path)
        else:
            try:
                os.unlink(path)
            except FileNotFoundError:
                pass
        uris = ["http://mirror%d.example.org/pub/r%d/%s" % (k, self.nfetches, fname) for k in range(len(case["outs"]))]
        if case.get("uri_list"):
            ul = uri_list(fname)
            for u in uris:
                ul.add_uri(u)
            ul.finalize()
            target = fetchable(fname, uri=ul, chksums=dict(case["chksums"]))
        else:
            target = fetchable(fname, uri=tuple(uris), chksums=dict(case["chksums"]))
        steps = []
        if self.real_bash:
            plan = self.plan
            shutil.rmtree(plan, ignore_errors=True)
            os.makedirs(plan)
            with open(os.path.join(plan, "counter"), "w") as f:
                f.write("0\n")
            for k, (content, e) in enumerate(case["outs"]):
                if content is not None:
                    with open(os.path.join(plan, "out.%d" % k), "wb") as f:
                        f.write(content)
                st = status_of(e, k)
                with open(os.path.join(plan, "exit.%d" % k), "w") as f:
                    # a status >= 256 is "killed by signal (status >> 8) & 0x7f": the script kills itself with that signal
                    f.write("exit %d\n" % st if st < 256 else "kill %d\n" % ((st >> 8) & 0x7F))
            try:
                got = fetcher(target) if uris else fetcher.fetch(target)
                result = "returned"
            except errors.FetchError as e:
                got, result = None, classify(e, errors)
            log = (read_file(os.path.join(plan, "log")) or b"").decode().splitlines()
            for k, line in enumerate(log):
                mode, uri = line.split(" ", 1)
                steps.append((mode, uris.index(uri) if uri in uris else -1, read_file(os.path.join(plan, "handed.%d" % k))))
        else:
            def fake_spawn(cmd, **kw):
                k = len(steps)
                words = cmd.split(" ")
                mode = {"FETCH-FRESH": "fresh", "FETCH-RESUME": "resume"}.get(words[0], "?")
                ui = uris.index(words[1]) if words[1] in uris else -1
                if words[-1] != path:
                    mode = "?dest"
                steps.append((mode, ui, read_file(path)))
                content, e = case["outs"][k]
                if content is None:
                    try:
                        os.unlink(path)
                    except FileNotFoundError:
                        pass
                else:
                    with open(path, "wb") as f:
                        f.write(content)
                return status_of(e, k)

            with mock.patch("pkgcore.fetch.custom.spawn_bash", side_effect=fake_spawn):
                try:
                    got = fetcher(target) if uris else fetcher.fetch(target)
                    result = "returned"
                except errors.FetchError as e:
                    got, result = None, classify(e, errors)
        final = read_file(path)
        # follow-up on the real code: what a *fresh* fetcher object says about the file now at the path
        # (get_path = _verify of distdir/filename, the call every later consumer of the distfile makes)
        try:
            again = custom.fetcher(distdir=distdir, command="true ${URI} ${DISTDIR}/${FILE}", userpriv=False, attempts=1)
            reread = "returned" if again.get_path(target) == path else "nopath"
        except errors.FetchError as e:
            reread = classify(e, errors)
        except Exception as e:
            reread = "other:" + type(e).__name__
        return {"result": result, "final": final, "steps": steps, "path_ok": got is None or got == path, "reread": reread}


def run_real(case, scratch, real_bash, session=None):
    """run fetch on real files, on a fresh fetcher object or as the next fetch of a session"""
    if session is not None:
        return session.fetch(case)
    session = Session(scratch, case["attempts"], real_bash)
    try:
        return session.fetch(case)
    finally:
        session.close()


# ------------------------------------------------------------------ generators

def target_classes(data):
    L = len(data)
    return [
        ("size+sha256", mk_target(data, L, ["sha256"])),
        ("size+3hashes", mk_target(data, L, ["sha512", "blake2b", "md5"])),
        ("size-only", mk_target(data, L, [])),
        ("hash-only", mk_target(data, None, ["sha256"])),
        ("none", {}),
        ("size-too-big+sha256", mk_target(data, L + 2, ["sha256"])),      # inconsistent Manifest: nothing can verify
        ("size-too-small+sha1", mk_target(data, max(L - 2, 0), ["sha1"])),
        ("size+one-bad-hash", mk_target(data, L, ["sha256", "md5"], bad_hash="md5")),
    ]


def gen_exit(rng, p_ok=0.6):
    """exit part of an outcome: status 0, a position-dependent exit code, or an explicit exit code / signal kill"""
    if rng.random() < p_ok:
        return True
    return False if rng.random() < 0.5 else Fail(rng.choice(STATUSES))


def gen_session(rng):
    """a history on ONE fetcher object and distdir: 2-4 fetches, mostly of the same file name, whose targets are the
    same distfile again, a re-rolled one (same name; same size and other content, longer with the old file as a
    prefix, shorter) or a target of another class (Manifest gained/lost hashes); the file the previous fetch left
    stays in place (mostly) or is replaced from outside; now and then a second file name is interleaved."""
    L = rng.choice([1, 2, 5, 9, 17, 40, 200])
    base = bytes(rng.randrange(256) for _ in range(L))
    flip = bytearray(base)
    flip[rng.randrange(L)] ^= 0x2A
    versions = [base, bytes(flip), base + bytes(rng.randrange(256) for _ in range(rng.randint(1, 9))), base[: L - 1 - rng.randrange(L)]]
    attempts = rng.choice([1, 2, 2, 3, 4])
    weights = {"missing": 2, "empty": 1, "partial": 3, "oversized": 1, "corrupt": 1, "correct": 6, "garbage": 1}
    pool = [k for k, w in weights.items() for _ in range(w)]
    steps, prev = [], {}
    for i in range(rng.choice([2, 2, 3, 3, 4])):
        fname = FNAME2 if rng.random() < 0.15 else FNAME
        r = rng.random()
        if fname in prev and r < 0.25:
            data = prev[fname]                                   # the same distfile asked for again
        else:
            data = rng.choice(versions[:3] * 2 + versions[3:])
        classes = target_classes(data)
        tname, chk = rng.choice(classes[:4] * 4 + classes[4:])
        prev[fname] = data
        size = chk.get("size")
        outs = [(content_of(rng.choice(pool), data, size, rng), gen_exit(rng, 0.7)) for _ in range(rng.choice([1, 2, 3, 4]))]
        case = {"tname": tname, "data": data, "chksums": chk, "attempts": attempts, "file0": None, "outs": outs,
                "fname": fname, "uri_list": rng.random() < 0.2}
        if i == 0 and rng.random() < 0.3:
            case["file0"] = content_of(rng.choice(pool), data, size, rng)
        elif i > 0 and rng.random() < 0.85:
            case["inherit"] = True
        elif i > 0:
            case["file0"] = content_of(rng.choice(pool + ["missing"] * 3), data, size, rng)
        steps.append(case)
    return {"attempts": attempts, "steps": steps}


def gen_case(rng):
    L = rng.choice([0, 1, 2, 5, 5, 9, 17, 40, 200])
    data = bytes(rng.randrange(256) for _ in range(L))
    tname, chk = rng.choice(target_classes(data)[: 5] * 3 + target_classes(data)[5:])
    size = chk.get("size")
    attempts = rng.choice([0, 1, 1, 2, 2, 3, 3, 4])
    nuris = rng.choice([0, 1, 2, 3, 4, 4, 5, 5])
    weights = {"missing": 3, "empty": 2, "partial": 4, "oversized": 1, "corrupt": 1, "correct": 2, "garbage": 1}
    pool = [k for k, w in weights.items() for _ in range(w)]
    file0 = content_of(rng.choice(pool + ["missing"] * 6), data, size, rng)
    outs = [(content_of(rng.choice(pool), data, size, rng), gen_exit(rng)) for _ in range(nuris)]
    return {"tname": tname, "data": data, "chksums": chk, "attempts": attempts, "file0": file0, "outs": outs,
            "uri_list": rng.random() < 0.2}


def corpus(rng):
    data = b"complete file content for checksum"
    L = len(data)
    full = mk_target(data, L, ["sha256", "sha512"])
    half = data[: L // 2]
    C = lambda chk, attempts, file0, outs, **kw: dict({"tname": "corpus", "data": data, "chksums": chk, "attempts": attempts,
                                                        "file0": file0, "outs": outs}, **kw)
    cases = [
        # the defect fixed in the repo: the correct file arrives with the last allowed attempt
        C(full, 1, None, [(data, True)]),
        C(full, 2, None, [(None, False), (data, True)]),
        C(full, 4, None, [(None, False), (half, False), (half, False), (data, False)]),
        C(full, 3, half, [(half, False), (half, True), (data, True)]),
        C({}, 1, None, [(data, True)]),
        C({}, 2, None, [(half, False), (data, True)]),
        # the four scenarios of tests/fetch/test_custom.py
        C({}, 2, None, [(b"partial download content", False)]),
        C({}, 2, None, [(b"partial download content", True)]),
        C({}, 2, None, [(None, False)]),
        C(full, 2, None, [(half, False)]),
        # already there / wrong things already there
        C(full, 2, data, [(None, True)]),
        C(full, 0, data, []),
        C(full, 0, None, [(data, True)]),
        C(full, 3, data + b"x", [(data, True)]),
        C(full, 3, bytes(L), [(data, True), (data, True)]),
        C(full, 3, None, [(bytes(L), True), (data, True)]),
        C(full, 3, None, [(data + b"zz", True), (data, True)]),
        # exit status is not trusted when checksums exist, and is the only evidence when they do not
        C(full, 2, None, [(data, False)]),
        C({}, 3, None, [(data, False), (data, False), (data, True)]),
        C({}, 3, None, [(b"", True), (data, True)]),
        C(mk_target(data, None, ["sha256"]), 3, b"", [(b"", True), (data, False)]),
        # zero-byte files where no size is stated: written with exit 0, as the only/first/last outcome, already there
        C({}, 1, None, [(b"", True)]),
        C({}, 2, b"", [(b"", True), (data, True)]),
        C({}, 3, None, [(None, True), (b"", True), (b"", True)]),
        C(mk_target(data, None, ["sha256"]), 2, None, [(b"", True), (data, True)]),
        C(mk_target(data, None, ["sha256"]), 3, None, [(half, True), (data, True)]),
        # any exit status: exit codes beyond the small ones, and a fetch command killed by a signal (spawn_bash: signal << 8)
        C({}, 2, None, [(half, Fail(255)), (data, True)]),
        C({}, 2, None, [(half, Fail(15 << 8)), (data, True)]),
        C({}, 1, None, [(half, Fail(9 << 8))]),
        C({}, 3, None, [(None, Fail(13 << 8)), (data, Fail((0x80 | 11) << 8)), (data, True)]),
        C(mk_target(data, None, ["sha256"]), 2, None, [(half, Fail(2 << 8)), (data, Fail(1 << 8))]),
        C(full, 2, None, [(half, Fail(15 << 8)), (data, Fail(9 << 8))]),
        # resume chain, URIs exhausted before the attempts
        C(full, 4, None, [(data[:3], False), (data[:9], False)]),
        C(full, 4, None, [(data[:3], False), (data[:9], False), (data, False)], uri_list=True),
        C(full, 4, None, []),
        # zero-length distfile
        C(mk_target(b"", 0, ["sha256"]), 2, None, [(b"", True)]),
        C(mk_target(b"", 0, ["sha256"]), 2, None, [(b"x", True), (b"", True)]),
        C(mk_target(b"", 0, []), 1, None, [(b"", False)]),
        # inconsistent Manifest entries
        C(mk_target(data, L + 1, ["sha256"]), 3, None, [(data, True), (data + b"x", True)]),
        C(mk_target(data, L, ["sha256", "md5"], bad_hash="md5"), 3, None, [(data, True), (data, True)]),
    ]
    for c in cases:
        if c["chksums"] and "data" in c and c["chksums"].get("size") == 0:
            c["data"] = b""
    return cases


OUTCOME_ALPHABET = [(k, e) for k in ["missing", "empty", "partial", "oversized", "corrupt", "correct"] for e in (True, False)]


def exhaustive(ctx, rng, run_one):
    """bounded-exhaustive tree of outcome sequences: a prefix is extended only while the real loop is still undecided"""
    data = b"0123456789abcdef"
    total = 0
    for tname, chk in target_classes(data):
        size = chk.get("size")
        for attempts in (1, 2, 3, 4):
            f0kinds = KINDS[:6] if attempts <= 2 else ["missing", "partial", "empty"]
            if attempts == 4 and tname not in ("size+sha256", "none", "hash-only"):
                continue
            for f0k in f0kinds:
                file0 = content_of(f0k, data, size, rng)
                frontier = [[]]
                while frontier:
                    nxt = []
                    for prefix in frontier:
                        case = {"tname": tname, "data": data, "chksums": chk, "attempts": attempts, "file0": file0,
                                "outs": [(content_of(k, data, size, rng), e) for k, e in prefix], "exh": True}
                        real = run_one(case)
                        total += 1
                        if real is None:
                            continue
                        # undecided and every URI used -> one more URI could matter
                        if len(prefix) < attempts and len(real["steps"]) == len(prefix) and real["result"] == "failed" \
                                and (real["final"] is None or not wrong(real["final"], chk)):
                            alphabet = OUTCOME_ALPHABET if len(prefix) < 2 else [a for a in OUTCOME_ALPHABET if a[1] or a[0] in ("partial", "correct", "missing")]
                            if not chk:        # the exit status is the only evidence: also a run killed by a signal
                                alphabet = alphabet + [(k, Fail(15 << 8)) for k in ("missing", "partial", "correct")]
                            nxt.extend(prefix + [a] for a in alphabet)
                    frontier = nxt
    ctx.extra["exhaustive_tree_cases"] = total


# ------------------------------------------------------------------ the check

def run(ctx):
    from pkgcore.fetch import custom, errors  # noqa: F401  (import errors early: broken tree -> crash is reported)
    rng = ctx.rng
    scratch = Scratch()
    pending = []          # (case, real) waiting for the model

    def fmt(c):
        return None if c is None else (c.hex() if len(c) <= 24 else "%s...(%d bytes)" % (c[:12].hex(), len(c)))

    def describe(case):
        return {"target": case["tname"], "chksums": {k: (v if k == "size" else "%x" % v) for k, v in case["chksums"].items()},
                "expected_data": fmt(case["data"]), "attempts": case["attempts"], "file0": fmt(case["file0"]),
                "outs": [[fmt(c), status_text(e, k)] for k, (c, e) in enumerate(case["outs"])],
                **({"file_name": case["fname"]} if "fname" in case else {}),
                **({"earlier_fetches_on_the_same_fetcher_object": case["history"]} if case.get("history") else {})}

    def run_one(case, real_bash=False, around=None, session=None):
        """run one case on the real code and evaluate the property clauses; `around` = description of the
        model/implementation mismatch this case is a neighbour of (then it is not sent to the model again)"""
        chk = case["chksums"]
        try:
            real = run_real(case, scratch, real_bash, session)
        except Exception as e:   # anything but a FetchError escaping fetch() breaks the property's premise
            ctx.violation(describe(case), f"fetch raised {type(e).__name__}: {e}")
            return None
        d = describe(case)
        d["via"] = "bash" if real_bash else "stub"
        if around is not None:
            d["explored_around_mismatch"] = around
            ctx.count("explored_neighbour")
        nsteps = len(real["steps"])
        executed = case["outs"][:nsteps]
        key = repr((sorted((k, v if k == "size" else "h") for k, v in chk.items()), case["tname"], case["attempts"],
                    abstract(case["file0"], chk, case["data"]), [(abstract(c, chk, case["data"]), e) for c, e in executed],
                    len(case["outs"]) > nsteps, real_bash, bool(case.get("history"))))
        ctx.case(d, nontrivial=nsteps >= 1, key=key)
        ctx.count("via_" + d["via"])
        if session is not None:
            ctx.count("fetch_%d_on_one_fetcher" % session.nfetches)
            if case.get("history"):
                ctx.count("file0_%s_target_%s" % ("inherited" if case.get("inherit") else "replaced",
                                                  "same" if case["history"][-1]["chksums"] == d["chksums"] else "changed"))
        ctx.count("target_" + case["tname"])
        ctx.count("attempts_%d" % case["attempts"])
        ctx.count("uris_%d" % len(case["outs"]))
        ctx.count("runs_executed_%d" % nsteps)
        ctx.count("result_" + real["result"])
        for c, e in executed:
            kind = ("missing" if c is None else "acceptable" if acceptable(c, e, chk) else "wrong" if wrong(c, chk) else
                    "partial" if partial(c, chk) else "empty" if len(c) == 0 else "verified-but-rejected" if verified(c, chk) else "other")
            ctx.count("outcome_%s_exit%s" % (kind, "0" if e else "N"))
            if isinstance(e, Fail):
                ctx.count("status_signal" if e.status >= 256 else "status_exitcode_explicit")
        for mode, _, _ in real["steps"]:
            ctx.count("cmd_" + mode)
        ctx.traces += 1

        # ---- edge C: the property itself on the real code (hashlib oracle)
        if not real["path_ok"]:
            ctx.violation(d, "fetch returned something other than distdir/filename")
        if real["result"].startswith("other:"):
            ctx.violation(d, "fetch raised an unexpected error class " + real["result"])
        if real["result"] == "returned" and not verified(real["final"], chk):
            ctx.violation(d, "fetch returned a path whose file does not have the stated size/checksums: " + str(fmt(real["final"])))
        if real["result"] == "returned":
            final = real["final"]
            # "such a file" for targets that state no size: there must be something in it (base._verify: "file is empty")
            if final is not None and "size" not in chk and len(final) == 0:
                ctx.violation(d, "fetch returned a path to an empty (zero-byte) file although the target states no size of 0")
            # fresh re-read: the file fetch() just reported must pass the verification of a new fetcher object
            if real["reread"] != "returned":
                ctx.violation(d, f"fetch returned the path, but get_path() of a fresh fetcher on the same distdir gives {real['reread']}")
            # provenance: the reported file is the initial one (no run) or what the *last* executed run left, and that
            # outcome is acceptable -- the loop may stop before its budget is used only on such a file
            budget = min(case["attempts"], len(case["outs"]))
            if nsteps == 0:
                if final != case["file0"]:
                    ctx.violation(d, "no fetch command ran, yet the file at the returned path is not the initial file")
            else:
                c, e = executed[-1]
                if final != c:
                    ctx.violation(d, f"the file at the returned path is not what the last executed run (run {nsteps - 1}) left")
                elif not acceptable(c, e, chk):
                    later = [k for k in range(nsteps, budget) if acceptable(case["outs"][k][0], case["outs"][k][1], chk)]
                    ctx.violation(d, f"fetch returned after {nsteps} of {budget} allowed runs, reporting the result of run {nsteps - 1} "
                                     f"(content {fmt(c)}, status {status_text(e, nsteps - 1)}), which is not an acceptable download"
                                     + (f"; unused run(s) {later} would have left a correct file" if later else ""))
        elif real["reread"] == "returned":
            ctx.violation(d, f"fetch raised {real['result']} although the file it left at the path passes get_path() of a fresh fetcher")
        seen_ok = acceptable(case["file0"], True, chk) if case["file0"] is not None else False
        last_ok = any(acceptable(c, e, chk) for c, e in executed)
        if (seen_ok or last_ok) and real["result"] != "returned":
            ctx.violation(d, f"an executed attempt (or the initial file) left a verified file but fetch raised {real['result']}")
        if real["result"] in ("missing", "toosmall", "failed") and nsteps != min(case["attempts"], len(case["outs"])):
            ctx.violation(d, f"fetch gave up with {real['result']} after {nsteps} runs although {case['attempts']} attempts and "
                             f"{len(case['outs'])} URIs were available")
        if nsteps > case["attempts"]:
            ctx.violation(d, f"{nsteps} runs of the fetch command with attempts={case['attempts']}")
        prev = case["file0"]
        for k, (mode, ui, handed) in enumerate(real["steps"]):
            if ui != k:
                ctx.violation(d, f"run {k} used URI index {ui}")
            if partial(prev, chk):
                if handed != prev:
                    ctx.violation(d, f"run {k}: resumable partial file was not kept for the fetch command")
                if mode != "resume":
                    ctx.violation(d, f"run {k}: partial file present but command was {mode}, not the resume command")
            elif mode == "resume":
                ctx.violation(d, f"run {k}: resume command used without a resumable partial file")
            prev = case["outs"][k][0] if (chk or case["outs"][k][1]) else None
        if chk and nsteps and real["result"] != "returned" and partial(case["outs"][nsteps - 1][0], chk) \
                and real["final"] != case["outs"][nsteps - 1][0]:
            ctx.violation(d, "a partial file left by the last run was removed or altered by fetch")
        if any(wrong(c, chk) for c, _ in executed) or wrong(case["file0"], chk):
            if real["result"] != "chksum":
                ctx.violation(d, f"a wrong-checksum file was met but fetch ended with {real['result']} instead of ChksumFailure")
        if around is None:
            pending.append((case, d, real))
        return real

    def neighbours(case):
        """nearby inputs of a case on which model and code disagree: shrinks (prefixes, single outcomes, dropped
        outcomes, no initial file, smaller budgets), flipped exit statuses, and the follow-up that makes an early
        or wrong stop observable (one more URI/attempt that delivers the correct file)"""
        outs, n, data = case["outs"], case["attempts"], case["data"]
        mk = lambda **kw: dict({k: v for k, v in case.items() if k not in ("exh", "inherit", "history")}, **kw)
        out = [mk()]
        for k in range(len(outs) + 1):
            for a in sorted({k, n, min(n, k + 1)}):
                out.append(mk(outs=outs[:k], attempts=a))
                out.append(mk(outs=outs[:k], attempts=a, file0=None))
        for k, o in enumerate(outs):
            out.append(mk(outs=[o], attempts=1, file0=None))
            out.append(mk(outs=[o, (data, True)], attempts=2, file0=None))
            out.append(mk(outs=outs[:k] + outs[k + 1:]))
            out.append(mk(outs=outs[:k] + [(o[0], not o[1])] + outs[k + 1:]))
            out.append(mk(outs=outs[:k + 1] + [(data, True)], attempts=max(n, k + 2)))
        out.append(mk(outs=outs + [(data, True)], attempts=n + 1))
        if case["file0"] is not None:
            out.append(mk(outs=[], attempts=0))
            out.append(mk(outs=[(case["file0"], True)], attempts=1, file0=None))
        seen, res = set(), []
        for c in out:
            key = (c["attempts"], c["file0"], tuple(c["outs"]))
            if key not in seen:
                seen.add(key)
                res.append(c)
        return res

    explored = set()

    def explore(case, d, why):
        """a model/implementation disagreement (or a broken proof obligation) is not yet a failing input: evaluate the
        property itself on the real code for the case and its neighbours, through the stub and through real bash"""
        key = (case["tname"], case["attempts"], case["file0"], tuple(case["outs"]))
        if key in explored or len(explored) >= ctx.n(12, 60):
            return
        explored.add(key)
        around = {k: d[k] for k in ("target", "attempts", "file0", "outs")}
        around["mismatch"] = why[:300]
        nb = neighbours(case)[: ctx.n(60, 400)]
        for i, c in enumerate(nb):
            run_one(c, around=around)
            if i < 3:
                run_one(c, real_bash=True, around=around)
        ctx.count("explored_mismatch")

    try:
        cases = corpus(rng)
        if ctx.replay_cases:
            ctx.note("replay: stored cases are descriptions; the corpus and the seeded generator are re-run instead")
        for i, c in enumerate(cases):
            run_one(c)
            # a real bash run costs ~0.15 s here; signal kills always also go through the real spawn_bash
            if i < ctx.n(8, len(cases)) or any(isinstance(e, Fail) and e.status >= 256 for _, e in c["outs"]):
                run_one(c, real_bash=True)
        for i in range(ctx.n(2400, 40000)):
            run_one(gen_case(rng))
        for i in range(ctx.n(12, 600)):
            run_one(gen_case(rng), real_bash=True)
        # histories: several fetches on one long-lived fetcher object / distdir; every fetch is a case of its own
        # (initial file = what is at the path when it starts) and must satisfy every clause, whatever came before
        for i in range(ctx.n(350, 6000) + ctx.n(6, 150)):
            real_bash = i >= ctx.n(350, 6000)
            sess = gen_session(rng)
            session = Session(scratch, sess["attempts"], real_bash)
            try:
                history = []
                for case in sess["steps"]:
                    case["history"] = list(history)
                    real = run_one(case, real_bash=real_bash, session=session)
                    if real is None:
                        break
                    dd = describe(case)
                    dd.pop("earlier_fetches_on_the_same_fetcher_object", None)
                    dd["result"] = real["result"]
                    dd["file_left"] = fmt(real["final"])
                    history.append(dd)
            finally:
                session.close()
        if not ctx.quick():
            exhaustive(ctx, rng, run_one)
        compare_with_model(ctx, pending, explore)
    finally:
        scratch.close()


def compare_with_model(ctx, pending, explore):
    """edge A: the Lean model on the same inputs; every disagreement is handed to `explore`, which evaluates the
    property on the real code around that input (a mismatch alone names no failing input)"""
    reqs = []
    for case, d, real in pending:
        chk, data = case["chksums"], case["data"]
        reqs.append({"cmd": "c36.fetch",
                     "target": {"size": chk.get("size"), "other": any(h != "size" for h in chk)},
                     "attempts": case["attempts"], "file0": abstract(case["file0"], chk, data),
                     "outs": [{"file": abstract(c, chk, data), "status": status_of(e, k)} for k, (c, e) in enumerate(case["outs"])]})
    for (case, d, real), rep in zip(pending, ctx.model(reqs)):
        chk, data = case["chksums"], case["data"]
        if not isinstance(rep, dict):
            ctx.mismatch(d, f"driver answered {rep!r}")
            explore(case, d, f"driver answered {rep!r}")
            continue
        mine = {"result": real["result"], "final": abstract(real["final"], chk, data),
                "steps": [[m, abstract(h, chk, data)] for m, _, h in real["steps"]]}
        model = {"result": COARSE[rep["result"]], "final": rep["final"], "steps": [[s["cmd"], s["handed"]] for s in rep["steps"]]}
        if not any(h != "size" for h in chk):
            # the sumsOk flag is not observable when no hash is stated: compare sizes only
            strip = lambda f: None if f is None else f[0]
            mine = {"result": mine["result"], "final": strip(mine["final"]), "steps": [[m, strip(h)] for m, h in mine["steps"]]}
            model = {"result": model["result"], "final": strip(model["final"]), "steps": [[m, strip(h)] for m, h in model["steps"]]}
        if mine != model:
            ctx.mismatch(d, f"real fetch: {mine}; Lean model: {model}")
            explore(case, d, f"real fetch: {mine}; Lean model: {model}")
        if (real["result"] == "returned") != rep["spec"]:
            ctx.mismatch(d, f"real fetch result {real['result']} but the reference semantics says returns={rep['spec']}")
            explore(case, d, f"real fetch result {real['result']}, reference semantics returns={rep['spec']}")
